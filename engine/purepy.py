"""Force the *_cy.py SOURCES of /repo's working tree to be imported instead of the stale
prebuilt *_cy.*.so binaries that shadow them (no Cython in this sandbox, so the binaries can
never be rebuilt; a change to a *_cy.py file would otherwise be invisible at run time).

    import engine.purepy; engine.purepy.install()      # before the first `import sqlalchemy`

VERIF_COMPILED=1 leaves the binaries in place (used as the second implementation for C55).
"""
import importlib.abc
import importlib.machinery
import importlib.util
import os
import sys

REPO_LIB = os.environ.get("VERIF_REPO_LIB", "/repo/lib")


class _Finder(importlib.abc.MetaPathFinder):
    def find_spec(self, fullname, path=None, target=None):
        if not fullname.startswith("sqlalchemy.") or not fullname.endswith("_cy"):
            return None
        rel = fullname.replace(".", os.sep) + ".py"
        fn = os.path.join(REPO_LIB, rel)
        if not os.path.exists(fn):
            return None
        loader = importlib.machinery.SourceFileLoader(fullname, fn)
        return importlib.util.spec_from_file_location(fullname, fn, loader=loader)


def install(compiled=None):
    if compiled is None:
        compiled = os.environ.get("VERIF_COMPILED") == "1"
    if REPO_LIB not in sys.path:
        sys.path.insert(0, REPO_LIB)
    if "sqlalchemy" in sys.modules:
        raise RuntimeError("purepy.install() must run before sqlalchemy is imported")
    if not compiled:
        sys.meta_path.insert(0, _Finder())
    return not compiled


def is_pure():
    import sqlalchemy.util._has_cython as h  # noqa

    return not h.HAS_CYEXTENSION
