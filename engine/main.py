import argparse
import importlib
import os
import sys

ROOT = os.path.dirname(os.path.dirname(os.path.abspath(__file__)))


def main():
    ap = argparse.ArgumentParser()
    ap.add_argument("pid")
    ap.add_argument("--tier", default=None)
    ap.add_argument("--seed", default=None)
    ap.add_argument("--replay", default=None)
    a = ap.parse_args()
    if a.tier:
        os.environ["VERIF_TIER"] = a.tier
    if a.seed is not None:
        os.environ["VERIF_SEED"] = str(a.seed)
    sys.path.insert(0, ROOT)
    from engine import purepy
    purepy.install()
    from engine import verdict
    pid = a.pid.upper()
    try:
        mod = importlib.import_module("checks." + pid.lower())
    except ModuleNotFoundError as e:
        print("MACHINERY-FAILURE: no check module for %s (%s)" % (pid, e))
        return 2

    rec = {}
    if a.replay:
        import json
        try:
            with open(a.replay) as f:
                rec = json.load(f)
        except (OSError, ValueError) as e:
            print("MACHINERY-FAILURE: cannot read replay file %s (%s)" % (a.replay, e))
            return 2
        if not a.tier and rec.get("tier"):
            os.environ["VERIF_TIER"] = str(rec["tier"])
        if a.seed is None and rec.get("seed") is not None:
            os.environ["VERIF_SEED"] = str(rec["seed"])

    def go():
        chk = verdict.Check(pid, level=getattr(mod, "LEVEL", "model_checking"))
        if a.replay:
            if hasattr(mod, "replay"):
                return mod.replay(chk, a.replay)
            # generic replay: the checks are deterministic in (tier, seed), so the recorded run is repeated with the
            # tier and seed stored in the replay file; the recorded cases are shown first
            print("REPLAY %s: property=%s tier=%s seed=%s, %s recorded case(s); first: %s" % (
                a.replay, rec.get("property"), rec.get("tier"), rec.get("seed"), rec.get("count"),
                str((rec.get("cases") or [{}])[0].get("what", ""))[:400]))
        return mod.main(chk)

    return verdict.main_wrapper(go)


if __name__ == "__main__":
    sys.exit(main())
