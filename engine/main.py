import argparse
import importlib
import os
import sys

ROOT = os.path.dirname(os.path.dirname(os.path.abspath(__file__)))


def main():
    ap = argparse.ArgumentParser()
    ap.add_argument("pid")
    ap.add_argument("--tier", default=None)
    ap.add_argument("--seed", default=None)
    ap.add_argument("--replay", default=None)
    a = ap.parse_args()
    if a.tier:
        os.environ["VERIF_TIER"] = a.tier
    if a.seed is not None:
        os.environ["VERIF_SEED"] = str(a.seed)
    sys.path.insert(0, ROOT)
    from engine import purepy
    purepy.install()
    from engine import verdict
    pid = a.pid.upper()
    try:
        mod = importlib.import_module("checks." + pid.lower())
    except ModuleNotFoundError as e:
        print("MACHINERY-FAILURE: no check module for %s (%s)" % (pid, e))
        return 2

    def go():
        chk = verdict.Check(pid, level=getattr(mod, "LEVEL", "model_checking"))
        if a.replay:
            return mod.replay(chk, a.replay)
        return mod.main(chk)

    return verdict.main_wrapper(go)


if __name__ == "__main__":
    sys.exit(main())
