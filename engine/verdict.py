"""Verdicts, known-findings matching, evidence files, exit codes.

exit 0  property held on everything explored (KNOWN-FINDING lines allowed)
exit 1  + "VIOLATION property=<id> replay=<path>" for each violation not listed in known_findings.json
exit 2  machinery failure (TLC crash, vacuous spec, oracle calibration failure) - never a property verdict
"""
import hashlib
import json
import os
import re
import shutil
import sys
import time

ROOT = os.path.dirname(os.path.dirname(os.path.abspath(__file__)))
KNOWN = os.path.join(ROOT, "known_findings.json")


def _match_value(pat, val):
    if isinstance(pat, dict):
        if "re" in pat:
            return val is not None and re.search(pat["re"], str(val)) is not None
        if "in" in pat:
            return val in pat["in"]
        if "not" in pat:
            return not _match_value(pat["not"], val)
        if "lt" in pat:
            return isinstance(val, (int, float)) and val < pat["lt"]
        if "gt" in pat:
            return isinstance(val, (int, float)) and val > pat["gt"]
        return False
    return pat == val


def load_known(pid):
    out = []
    files = [KNOWN] if os.path.exists(KNOWN) else []
    d = os.path.join(ROOT, "known_findings.d")
    if os.path.isdir(d):
        files += [os.path.join(d, f) for f in sorted(os.listdir(d)) if f.endswith(".json")]
    for fn in files:
        with open(fn) as f:
            data = json.load(f)
        out += [e for e in data.get("findings", []) if e.get("property") == pid and e.get("status") == "known"]
    return out


class Machinery(Exception):
    pass


class Check:
    def __init__(self, pid, level="model_checking", tier=None, seed=None):
        self.pid = pid
        self.level = level
        self.tier = tier or os.environ.get("VERIF_TIER") or "quick"
        if self.tier not in ("quick", "thorough"):
            self.tier = "quick"
        try:
            self.seed = int(seed if seed is not None else os.environ.get("VERIF_SEED", "0"))
        except ValueError:
            self.seed = 0
        self.t0 = time.time()
        base = "/dev/shm/verif-work" if os.path.isdir("/dev/shm") and os.access("/dev/shm", os.W_OK) else os.path.join(ROOT, ".work")
        self.work = os.path.join(base, "%s-%d" % (pid, os.getpid()))
        shutil.rmtree(self.work, ignore_errors=True)
        os.makedirs(self.work, exist_ok=True)
        self.known = load_known(pid)
        self.violations = []      # (sig, what, replay)
        self.known_hits = {}      # finding id -> count
        self.known_what = {}
        self.cov = {}
        self.assumptions = []
        self.notes = []

    @property
    def quick(self):
        return self.tier == "quick"

    # ------------------------------------------------------------------ verdict inputs
    def violation(self, sig, what, replay=None):
        """sig: flat dict describing the failing step (spec, action, args ...) used for matching known findings."""
        for k in self.known:
            m = k.get("match", {})
            if m and all(_match_value(p, sig.get(key)) for key, p in m.items()):
                self.known_hits[k["id"]] = self.known_hits.get(k["id"], 0) + 1
                self.known_what[k["id"]] = k.get("what", "")
                return False
        self.violations.append((sig, what, replay if replay is not None else sig))
        return True

    def machinery(self, msg):
        raise Machinery(msg)

    def add(self, **kw):
        """accumulate integer coverage counters"""
        for k, v in kw.items():
            self.cov[k] = self.cov.get(k, 0) + v

    # ------------------------------------------------------------------ output
    def _write_replays(self):
        d = os.path.join(ROOT, "replays", self.pid)
        os.makedirs(d, exist_ok=True)
        groups = {}
        for sig, what, rp in self.violations:
            key = json.dumps({k: sig.get(k) for k in ("spec", "action", "kind", "impl") if k in sig}, sort_keys=True)
            groups.setdefault(key, []).append({"sig": sig, "what": what, "replay": rp})
        paths = []
        for key, items in list(groups.items())[:25]:
            h = hashlib.sha1((key + json.dumps(items[0]["sig"], sort_keys=True, default=str)).encode()).hexdigest()[:12]
            p = os.path.join(d, h + ".json")
            with open(p, "w") as f:
                json.dump({"property": self.pid, "tier": self.tier, "seed": self.seed, "count": len(items),
                           "cases": items[:50]}, f, indent=1, default=str)
            paths.append((p, items[0]["what"], len(items)))
        return paths

    def finish(self, coverage, assumptions=(), extra=None):
        cov = dict(self.cov)
        cov.update(coverage)
        for k in list(self.known_hits):
            print("KNOWN-FINDING: property=%s %s [%s, %d occurrence(s) this run]" % (
                self.pid, self.known_what[k], k, self.known_hits[k]))
        nviol = len(self.violations)
        if nviol:
            for p, what, n in self._write_replays():
                print("VIOLATION property=%s replay=%s" % (self.pid, p))
                print("  what: %s (%d case(s) in file)" % (what, n))
        cov.setdefault("known_finding_hits", sum(self.known_hits.values()))
        ev = {
            "property_id": self.pid,
            "tier": self.tier,
            "seed": self.seed,
            "level": self.level,
            "coverage": cov,
            "assumptions": list(assumptions) + self.assumptions,
            "wall_s": round(time.time() - self.t0, 2),
            "violations": nviol,
        }
        if extra:
            ev.update(extra)
        os.makedirs(os.path.join(ROOT, "evidence"), exist_ok=True)
        with open(os.path.join(ROOT, "evidence", self.pid + ".json"), "w") as f:
            json.dump(ev, f, indent=1, default=str)
        shutil.rmtree(self.work, ignore_errors=True)
        status = "FAIL" if nviol else "PASS"
        print("%s property=%s tier=%s seed=%d wall=%.1fs %s" % (
            status, self.pid, self.tier, self.seed, ev["wall_s"],
            " ".join("%s=%s" % (k, v) for k, v in cov.items() if isinstance(v, (int, bool)))))
        return 1 if nviol else 0


def main_wrapper(fn):
    """Run a check function; map exceptions to exit 2."""
    try:
        code = fn()
    except Machinery as e:
        print("MACHINERY-FAILURE: %s" % e)
        code = 2
    except Exception as e:  # noqa
        import traceback
        traceback.print_exc()
        print("MACHINERY-FAILURE: %r" % (e,))
        code = 2
    sys.stdout.flush()
    return code
