"""Labelled state graphs from TLC (edge dump), edge-covering tours, sharded replay into the real code.

Spec convention (DESIGN 2.1/2.3): every action writes `last = [a |-> name, ... , ret |-> expected]`, the cfg has
`VIEW View` hiding `last`, and `ACTION_CONSTRAINT Emit` with
    Emit == PrintT(ToJson([from |-> <view>, act |-> last', to |-> <view>']))
plus `PrintT(ToJson([init |-> <view>]))` as the last conjunct of Init.  With -workers 1 TLC prints every labelled
edge of the (constrained) state graph exactly once.
"""
import json
import multiprocessing as mp
import os
import pickle
import random
import time
from collections import deque

from . import tlc


def key(state):
    return json.dumps(state, sort_keys=True, separators=(",", ":"))


class Graph:
    def __init__(self):
        self.states = {}      # key -> state object
        self.out = {}         # key -> list of edge indices
        self.edges = []       # (from_key, act, to_key)
        self.inits = []
        self.tlc = None

    def add_edge(self, f, act, t):
        fk, tk = key(f), key(t)
        self.states.setdefault(fk, f)
        self.states.setdefault(tk, t)
        self.out.setdefault(fk, []).append(len(self.edges))
        self.out.setdefault(tk, [])
        self.edges.append((fk, act, tk))


def dump(module, cfg_text, workdir, timeout=900, heap="8g"):
    """cfg_text must contain VIEW and ACTION_CONSTRAINT Emit. Returns Graph."""
    r = tlc.run(module, cfg_text, workdir, workers=1, timeout=timeout, keep_stdout=False, heap=heap)
    g = Graph()
    g.tlc = r
    for o in r.json:
        if "init" in o:
            k = key(o["init"])
            g.states.setdefault(k, o["init"])
            g.out.setdefault(k, [])
            if k not in g.inits:
                g.inits.append(k)
        elif "from" in o:
            act = o["act"]
            if "obs" in o:
                act = dict(act, obs=o["obs"])
            g.add_edge(o["from"], act, o["to"])
    r.json = []
    return g


def plan_tours(g, maxlen, rng=None, edge_filter=None, budget_s=120):
    """Walks from an initial state that together cover every edge reachable within maxlen steps.
    BFS tree from the inits; for every uncovered edge: shortest path to its source, then a greedy run through
    further uncovered edges (falling back to covered ones is not done: the walk ends)."""
    t0 = time.time()
    parent = {}
    depth = {}
    dq = deque()
    for i in g.inits:
        parent[i] = None
        depth[i] = 0
        dq.append(i)
    while dq:
        s = dq.popleft()
        for ei in g.out[s]:
            t = g.edges[ei][2]
            if t not in parent:
                parent[t] = ei
                depth[t] = depth[s] + 1
                dq.append(t)

    def path_to(s):
        p = []
        while parent[s] is not None:
            ei = parent[s]
            p.append(ei)
            s = g.edges[ei][0]
        p.reverse()
        return p

    covered = bytearray(len(g.edges))
    if edge_filter:
        for i, e in enumerate(g.edges):
            if not edge_filter(e):
                covered[i] = 2
    walks = []
    order = sorted(range(len(g.edges)), key=lambda i: (depth.get(g.edges[i][0], 1 << 30), i))
    unreachable = 0
    for ei in order:
        if covered[ei]:
            continue
        src = g.edges[ei][0]
        if src not in depth or depth[src] + 1 > maxlen:
            unreachable += 1
            covered[ei] = 3
            continue
        w = path_to(src)
        w.append(ei)
        covered[ei] = 1
        cur = g.edges[ei][2]
        while len(w) < maxlen:
            nxt = None
            for cj in g.out[cur]:
                if not covered[cj]:
                    nxt = cj
                    break
            if nxt is None:
                break
            covered[nxt] = 1
            w.append(nxt)
            cur = g.edges[nxt][2]
        walks.append(w)
        if time.time() - t0 > budget_s:
            break
    ncov = sum(1 for c in covered if c == 1)
    return walks, {"edges": len(g.edges), "edges_covered": ncov, "edges_beyond_depth": unreachable,
                   "edges_filtered": sum(1 for c in covered if c == 2), "walks": len(walks),
                   "steps": sum(len(w) for w in walks)}


def random_walks(g, n, maxlen, rng):
    walks = []
    for _ in range(n):
        cur = rng.choice(g.inits)
        w = []
        while len(w) < maxlen and g.out[cur]:
            ei = rng.choice(g.out[cur])
            w.append(ei)
            cur = g.edges[ei][2]
        if w:
            walks.append(w)
    return walks


def g_slim(g):
    """the parts of a Graph the replay workers need (no TLC result object)"""
    h = Graph()
    h.states, h.out, h.edges, h.inits = g.states, g.out, g.edges, g.inits
    return h


# ----------------------------------------------------------------------------- sharded replay
_G = None
_MK = None
_GFILE = None


def _worker(args):
    wid, chunk, workdir = args
    g = _G
    if _GFILE:
        # private copy of the graph: reading the parent's objects from a forked child writes their reference counts and so
        # copies the parent's pages one by one (copy-on-write), which made large replays 20-40x slower (sys time = user time)
        with open(_GFILE, "rb") as f:
            g = pickle.load(f)
    drv = _MK(wid, os.path.join(workdir, "w%d" % wid))
    mism = []
    steps = 0
    for wi in chunk:
        walk = _WALKS[wi]
        drv.reset(g.states[g.edges[walk[0]][0]])
        hist = []
        for ei in walk:
            fk, act, tk = g.edges[ei]
            hist.append(act)
            steps += 1
            try:
                m = drv.step(g.states[fk], act, g.states[tk])
            except Exception as e:  # harness error = conformance failure with the exception text
                import traceback
                m = "driver exception: %r\n%s" % (e, traceback.format_exc()[-1500:])
            if m:
                mism.append({"walk": list(hist), "step": len(hist), "act": act, "from": g.states[fk], "to": g.states[tk],
                             "mismatch": m})
                break
        else:
            fin = getattr(drv, "finish", None)
            if fin:
                m = fin(g.states[g.edges[walk[-1]][2]])
                if m:
                    mism.append({"walk": list(hist), "step": len(hist), "act": "drain", "from": None,
                                 "to": g.states[g.edges[walk[-1]][2]], "mismatch": m})
        if len(mism) > 200:
            break
    cl = getattr(drv, "close", None)
    if cl:
        cl()
    return steps, mism


def replay(g, walks, make_driver, workdir, nproc=16):
    """make_driver(worker_id, workdir) -> object with reset(state), step(from, act, to) -> None | mismatch text,
    optional finish(state), close().  Returns (steps, mismatches)."""
    global _G, _MK, _WALKS, _GFILE
    _G, _MK, _WALKS = g, make_driver, walks
    os.makedirs(workdir, exist_ok=True)
    _GFILE = None
    if len(g.edges) > 20000 and min(nproc, tlc.NPROC) > 1:
        _GFILE = os.path.join(workdir, "graph.pickle")
        with open(_GFILE, "wb") as f:
            pickle.dump(g_slim(g), f, protocol=pickle.HIGHEST_PROTOCOL)
    n = len(walks)
    if n == 0:
        return 0, []
    nproc = max(1, min(nproc, n, tlc.NPROC))
    # interleave so that each worker gets short and long walks
    chunks = [list(range(i, n, nproc)) for i in range(nproc)]
    if nproc == 1:
        res = [_worker((0, chunks[0], workdir))]
    else:
        ctx = mp.get_context("fork")
        with ctx.Pool(nproc) as pool:
            res = pool.map(_worker, [(i, chunks[i], workdir) for i in range(nproc)])
    steps = sum(r[0] for r in res)
    mism = [m for r in res for m in r[1]]
    return steps, mism
