"""Run TLC (always under an outer timeout) and parse what the checks need from its output.

    r = run(module="TopoSort", cfg_text=..., workdir=..., workers=16, timeout=300)
    r.ok            TLC finished with "No error has been found"
    r.violated      name of the violated invariant / property (or None)
    r.generated     "states generated"  (= transitions explored, incl. initial states)
    r.distinct      "distinct states found"
    r.depth         diameter
    r.json          list of objects printed with PrintT(ToJson(...))
    r.coverage      {action name: (distinct, total)} when coverage=True
    r.stdout        raw text

Exit conventions used by callers: a TLC crash / parse error / timeout is a MACHINERY failure
(exit 2), never a property verdict.
"""
import json
import os
import re
import shutil
import subprocess
import time

SPECS = os.path.join(os.path.dirname(os.path.dirname(os.path.abspath(__file__))), "specs")
JAR = "/opt/veriftools/tla/tla2tools.jar"
DEPS = "/opt/veriftools/tla/CommunityModules-deps.jar"


NPROC = int(os.environ.get("VERIF_NPROC", "16"))


class TLCError(Exception):
    pass


class Result:
    def __init__(self):
        self.ok = False
        self.violated = None
        self.generated = 0
        self.distinct = 0
        self.depth = 0
        self.json = []
        self.coverage = {}
        self.stdout = ""
        self.wall = 0.0
        self.cmd = ""
        self.error_trace = []


_RE_STATS = re.compile(r"(\d+) states generated, (\d+) distinct states found, (\d+) states left")
_RE_DEPTH = re.compile(r"The depth of the complete state graph search is (\d+)")
_RE_INV = re.compile(r"Invariant (\S+) is violated")
_RE_PROP = re.compile(r"(?:Action property|Temporal properties|property) (\S+)? ?(?:is|were) violated")
_RE_COV = re.compile(r"^<(\w+) line \d+, col \d+ to line \d+, col \d+ of module (\w+)(?: \([\d ]+\))?>: (\d+):(\d+)")


def run(module, cfg_text, workdir, workers=16, timeout=600, coverage=False, simulate=None,
        extra=(), env=None, java_opts=(), depth_first=False, keep_stdout=True, heap="8g"):
    """module: name of a .tla in specs/ ; cfg_text: full cfg contents (literal constants)."""
    os.makedirs(workdir, exist_ok=True)
    workers = max(1, min(int(workers), NPROC))
    # copy all specs so EXTENDS/INSTANCE resolve; TLC writes nothing next to them but the metadir
    sdir = os.path.join(workdir, "specs")
    if os.path.isdir(sdir):
        shutil.rmtree(sdir)
    shutil.copytree(SPECS, sdir)
    cfg = os.path.join(sdir, module + "_run.cfg")
    with open(cfg, "w") as f:
        f.write(cfg_text)
    meta = os.path.join(workdir, "meta_%s_%d" % (module, int(time.time() * 1000) % 100000000))
    cmd = ["java", "-XX:+UseParallelGC", "-XX:ParallelGCThreads=%d" % max(2, min(workers, 8)), "-Xmx" + heap]
    if depth_first:
        cmd.append("-Dtlc2.tool.queue.IStateQueue=StateDeque")
    cmd += list(java_opts)
    cmd += ["-cp", JAR + ":" + DEPS, "tlc2.TLC", "-workers", str(workers), "-metadir", meta,
            "-noGenerateSpecTE", "-config", cfg]
    if coverage:
        cmd += ["-coverage", "1"]
    if simulate:
        cmd += ["-simulate", simulate]
    cmd += list(extra)
    cmd.append(os.path.join(sdir, module + ".tla"))
    e = dict(os.environ)
    e.pop("JAVA_TOOL_OPTIONS", None)
    if env:
        e.update(env)
    r = Result()
    r.cmd = " ".join(cmd)
    t0 = time.time()
    try:
        p = subprocess.run(cmd, cwd=sdir, env=e, stdout=subprocess.PIPE, stderr=subprocess.STDOUT,
                           timeout=timeout, text=True, errors="replace")
    except subprocess.TimeoutExpired as ex:
        subprocess.run(["pkill", "-f", meta], check=False)
        raise TLCError("TLC timeout after %ss: %s" % (timeout, " ".join(cmd))) from ex
    finally:
        shutil.rmtree(meta, ignore_errors=True)
    r.wall = time.time() - t0
    out = p.stdout
    r.stdout = out if keep_stdout else out[-20000:]
    for line in out.splitlines():
        if line.startswith('"{') or line.startswith('"['):
            try:
                r.json.append(json.loads(json.loads(line)))
            except Exception:
                pass
            continue
        m = _RE_STATS.search(line)
        if m:
            r.generated, r.distinct = int(m.group(1)), int(m.group(2))
            continue
        m = _RE_DEPTH.search(line)
        if m:
            r.depth = int(m.group(1))
            continue
        m = _RE_INV.search(line)
        if m:
            r.violated = m.group(1)
            continue
        if "is violated" in line or "was violated" in line or "were violated" in line:
            if r.violated is None:
                r.violated = line.strip()
            continue
        m = _RE_COV.match(line)
        if m:
            name = m.group(1)
            a, b = int(m.group(3)), int(m.group(4))
            old = r.coverage.get(name, (0, 0))
            r.coverage[name] = (old[0] + a, old[1] + b)
    r.ok = ("No error has been found" in out) or (simulate is not None and r.violated is None
                                                   and "Error:" not in out)
    if not r.ok and r.violated is None:
        if "Deadlock reached" in out:
            r.violated = "Deadlock"
        else:
            tail = "\n".join(out.splitlines()[-40:])
            raise TLCError("TLC failed (exit %s):\n%s\ncmd: %s" % (p.returncode, tail, r.cmd))
    return r


def sany(module):
    p = subprocess.run(["java", "-cp", JAR + ":" + DEPS, "tla2sany.SANY", module + ".tla"], cwd=SPECS,
                       stdout=subprocess.PIPE, stderr=subprocess.STDOUT, text=True)
    return p.returncode == 0 and "Semantic errors" not in p.stdout and "*** Errors" not in p.stdout, p.stdout


def cfg(constants=None, init="Init", next_="Next", spec=None, invariants=(), properties=(), view=None,
        action_constraints=(), constraints=(), symmetry=None, postcondition=None, deadlock=False, extra=""):
    """Build cfg text with literal constants."""
    L = []
    if spec:
        L.append("SPECIFICATION " + spec)
    else:
        L.append("INIT " + init)
        L.append("NEXT " + next_)
    if constants:
        L.append("CONSTANTS")
        for k, v in constants.items():
            L.append("  %s = %s" % (k, tla(v)))
    for i in invariants:
        L.append("INVARIANT " + i)
    for i in properties:
        L.append("PROPERTY " + i)
    if view:
        L.append("VIEW " + view)
    for c in action_constraints:
        L.append("ACTION_CONSTRAINT " + c)
    for c in constraints:
        L.append("CONSTRAINT " + c)
    if symmetry:
        L.append("SYMMETRY " + symmetry)
    if postcondition:
        L.append("POSTCONDITION " + postcondition)
    L.append("CHECK_DEADLOCK " + ("TRUE" if deadlock else "FALSE"))
    if extra:
        L.append(extra)
    return "\n".join(L) + "\n"


def tla(v):
    if isinstance(v, bool):
        return "TRUE" if v else "FALSE"
    if isinstance(v, int):
        return str(v)
    if isinstance(v, str):
        return v  # model value or already-literal text (use q("..") for strings)
    if isinstance(v, (set, frozenset)):
        return "{" + ", ".join(tla(x) for x in sorted(v, key=str)) + "}"
    if isinstance(v, (list, tuple)):
        return "<<" + ", ".join(tla(x) for x in v) + ">>"
    raise TypeError(v)


def q(s):
    return '"' + s + '"'
