"""Shared machinery for the PyCollections.tla checks (C38, C54, C50, C49).

* tlc_cases(chk, init, invariants, consts)   run TLC on one function-transcription INIT, return the printed cases
* perform(kind, target, op, ...)             execute ONE operation of the spec's vocabulary on any container object
* calibrate(chk, cases)                      the spec's expected result must equal the builtin list/set/dict on every case
                                             (disagreement = chk.machinery: a wrong spec can never become an alarm)
Items are small ints in the spec; `item(i)` maps them to the objects the implementation under test holds and
`label(o)` maps back.  None is 99 in the spec.
"""
import operator
import os
from collections import Counter

from engine import tlc

NONE = 99
BASE_CONSTS = dict(MaxLen=3, Hi=5, MaxVal=2, K=3, Cap=2, ThrNum=1, ThrDen=2, NKeys=4, MaxDepth=6)


def Items(kind, val):
    """the item labels held by a spec container value"""
    if kind == "dict":
        return [p[1] for p in val]
    return list(val)


def dec(x):
    return None if x == NONE else x


def consts(**kw):
    c = dict(BASE_CONSTS)
    c.update(kw)
    return c


def tlc_cases(chk, init, invariants, c, next_="Stutter", timeout=900, workers=1):
    """One TLC run of a function-transcription INIT: returns (cases, Result). A violated invariant of the SPEC is a
    violation reported by the caller (the spec's own declarative law failed), a crash is machinery."""
    r = tlc.run("PyCollections", tlc.cfg(constants=c, init=init, next_=next_, invariants=invariants), chk.work,
                workers=workers, timeout=timeout, keep_stdout=False)
    cases = r.json
    r.json = []
    if not cases:
        chk.machinery("TLC printed no cases for %s" % init)
    return cases, r


def _cache_get(kind, cfg_text):
    """Development aid, OFF unless VERIF_TLC_CACHE=<dir> is set (used for mutant runs: TLC's output depends on the spec and the cfg
    only, never on the implementation under test). A normal ./check run always runs TLC."""
    d = os.environ.get("VERIF_TLC_CACHE")
    if not d:
        return None, None
    import hashlib
    import pickle
    h = hashlib.sha1()
    for fn in ("PySlice.tla", "PyCollections.tla"):
        with open(os.path.join(tlc.SPECS, fn), "rb") as f:
            h.update(f.read())
    h.update(kind.encode() + cfg_text.encode())
    path = os.path.join(d, h.hexdigest() + ".pickle")
    if os.path.exists(path):
        with open(path, "rb") as f:
            return path, pickle.load(f)
    return path, None


def _cache_put(path, obj):
    if path:
        import pickle
        os.makedirs(os.path.dirname(path), exist_ok=True)
        with open(path + ".tmp%d" % os.getpid(), "wb") as f:
            pickle.dump(obj, f)
        os.replace(path + ".tmp%d" % os.getpid(), path)


def tlc_cases_parallel(chk, plans, timeout=1500):
    """plans: [(init, invariants, constants)] -> [(cases, Result)] in order; the runs execute concurrently (one worker each,
    because the cases are printed from Init, which is single-threaded anyway)."""
    import os
    from concurrent.futures import ThreadPoolExecutor

    def one(i):
        init, invs, c = plans[i]
        cfgt = tlc.cfg(constants=c, init=init, next_="Stutter", invariants=invs)
        path, hit = _cache_get("cases", cfgt)
        if hit is not None:
            return hit
        r = tlc.run("PyCollections", cfgt, os.path.join(chk.work, "job%d" % i), workers=1, timeout=timeout, keep_stdout=False, heap="3g")
        cases = r.json
        r.json = []
        r.stdout = ""
        _cache_put(path, (cases, r))
        return cases, r

    with ThreadPoolExecutor(max_workers=max(1, min(tlc.NPROC, len(plans)))) as ex:
        out = list(ex.map(one, range(len(plans))))
    for (init, _, _), (cases, r) in zip(plans, out):
        if not cases:
            chk.machinery("TLC printed no cases for %s" % init)
    return out


def dump_graphs_parallel(chk, plans, timeout=1500):
    """plans: [(init, next, constants, invariants, properties)] -> [Graph]"""
    import os
    from concurrent.futures import ThreadPoolExecutor
    from engine import graph

    def one(i):
        init, nxt, c, invs, props = plans[i]
        cfgt = tlc.cfg(constants=c, init=init, next_=nxt, invariants=list(invs), properties=list(props),
                       view="View", action_constraints=["Emit"], constraints=["Depth"])
        path, hit = _cache_get("graph", cfgt)
        if hit is not None:
            return hit
        g = graph.dump("PyCollections", cfgt, os.path.join(chk.work, "gjob%d" % i), timeout=timeout, heap="3g")
        g.tlc.stdout = ""
        _cache_put(path, g)
        return g

    with ThreadPoolExecutor(max_workers=max(1, min(tlc.NPROC, len(plans)))) as ex:
        out = list(ex.map(one, range(len(plans))))
    for p, g in zip(plans, out):
        if not g.edges:
            chk.machinery("TLC dumped no edges for %s/%s" % (p[0], p[1]))
    return out


def key_str(k):
    return "k%d" % k


def unkey_str(k):
    return int(k[1:]) if isinstance(k, str) else k


def perform(kind, target, op, item=lambda i: i, label=lambda o: o, mkself=None, key=lambda k: k, assign=None, argform="list",
            sortkey=None):
    """Run op on target. Returns (exc_name | 'none', rk, ret) with ret expressed in LABELS.
    kind: list | set | dict | oset.  mkself(items) builds an argument of the collection's own type."""
    n, a, b, c, v, kd = op["n"], dec(op["a"]), op["b"], dec(op["c"]), op["v"], op["kd"]
    t = target

    def arg_iter(vals, form):
        items = [item(x) for x in vals]
        if form == "list":
            return items
        if form == "tuple":
            return tuple(items)
        if form == "iter":
            return iter(items)
        if form == "set":
            return set(items)
        if form == "frozenset":
            return frozenset(items)
        if form == "self":
            return mkself(items)
        raise ValueError(form)

    try:
        if kind == "list":
            if n == "getitem":
                return "none", "val", label(t[a])
            if n == "setitem":
                t[a] = item(b)
                return "none", "none", None
            if n == "delitem":
                del t[a]
                return "none", "none", None
            if n == "insert":
                r = t.insert(a, item(b))
                return "none", "none" if r is None else "bad", r
            if n == "pop":
                r = t.pop() if a is None else t.pop(a)
                return "none", "val", label(r)
            if n == "remove":
                r = t.remove(item(b))
                return "none", "none" if r is None else "bad", r
            if n == "append":
                r = t.append(item(b))
                return "none", "none" if r is None else "bad", r
            if n == "extend":
                r = t.extend(arg_iter(v, argform))
                return "none", "none" if r is None else "bad", r
            if n == "iadd":
                r = operator.iadd(t, arg_iter(v, argform))
                return "none", "self" if r is t else "notself", None
            if n == "imul":
                r = operator.imul(t, a)
                return "none", "self" if r is t else "notself", None
            if n == "clear":
                r = t.clear()
                return "none", "none" if r is None else "bad", r
            if n == "sort":
                r = t.sort(key=sortkey) if sortkey else t.sort()
                return "none", "none" if r is None else "bad", r
            if n == "reverse":
                r = t.reverse()
                return "none", "none" if r is None else "bad", r
            if n == "index":
                return "none", "val", t.index(item(b))
            if n == "count":
                return "none", "val", t.count(item(b))
            if n == "contains":
                return "none", "bool", int(item(b) in t)
            if n == "getslice":
                return "none", "list", [label(x) for x in t[slice(a, dec(op["b"]), c)]]
            if n == "delslice":
                del t[slice(a, dec(op["b"]), c)]
                return "none", "none", None
            if n == "setslice":
                t[slice(a, dec(op["b"]), c)] = arg_iter(v, argform)
                return "none", "none", None
            if n == "assign":
                assign(arg_iter(v, "list"))
                return "none", "none", None
        elif kind in ("set", "oset"):
            if n == "add":
                r = t.add(item(b))
                return "none", "none" if r is None else "bad", r
            if n == "discard":
                r = t.discard(item(b))
                return "none", "none" if r is None else "bad", r
            if n == "remove":
                r = t.remove(item(b))
                return "none", "none" if r is None else "bad", r
            if n == "pop":
                return "none", "val", label(t.pop())
            if n == "clear":
                r = t.clear()
                return "none", "none" if r is None else "bad", r
            if n == "contains":
                return "none", "bool", int(item(b) in t)
            if n == "insert":
                r = t.insert(a, item(b))
                return "none", "none" if r is None else "bad", r
            if n == "getitem":
                return "none", "val", label(t[a])
            if n == "copy":
                r = t.copy()
                return "none", "list" if kind == "oset" else "set", _labels(kind, r, label, t)
            if n == "assign":
                assign(arg_iter(v, "list"))
                return "none", "none", None
            arg = arg_iter(v, kd)
            if n in ("update", "difference_update", "intersection_update", "symmetric_difference_update"):
                r = getattr(t, n)(arg)
                return "none", "none" if r is None else "bad", r
            if n in ("ior", "isub", "iand", "ixor"):
                r = getattr(operator, n)(t, arg)
                return "none", "self" if r is t else "notself", None
            if n in ("union", "difference", "intersection", "symmetric_difference"):
                r = getattr(t, n)(arg)
                return "none", "list" if kind == "oset" else "set", _labels(kind, r, label, t)
            if n in ("or", "sub", "and", "xor", "add_op"):
                f = {"or": operator.or_, "sub": operator.sub, "and": operator.and_, "xor": operator.xor, "add_op": operator.add}[n]
                r = f(t, arg)
                return "none", "list" if kind == "oset" else "set", _labels(kind, r, label, t)
            if n in ("issubset", "issuperset", "isdisjoint"):
                return "none", "bool", int(getattr(t, n)(arg))
            if n in ("eq", "ne", "le", "lt", "ge", "gt"):
                return "none", "bool", int(getattr(operator, n)(t, arg))
        elif kind == "dict":
            k = key(a) if a is not None else None
            if n == "getitem":
                return "none", "val", label(t[k])
            if n == "get":
                r = t.get(k)
                return ("none", "none", None) if r is None else ("none", "val", label(r))
            if n == "contains":
                return "none", "bool", int(k in t)
            if n == "setitem":
                t[k] = item(b)
                return "none", "none", None
            if n == "delitem":
                del t[k]
                return "none", "none", None
            if n == "pop":
                return "none", "val", label(t.pop(k))
            if n == "popd":
                return "none", "val", label(t.pop(k, item(b)))
            if n == "popitem":
                kk, vv = t.popitem()
                return "none", "pair", [kk, label(vv)]
            if n == "setdefault":
                return "none", "val", label(t.setdefault(k, item(b)))
            if n == "clear":
                r = t.clear()
                return "none", "none" if r is None else "bad", r
            if n == "keys":
                return "none", "list", list(t.keys())
            if n == "values":
                return "none", "list", [label(x) for x in t.values()]
            pairs = [(key(p[0]), item(p[1])) for p in v]
            if n == "update":
                if kd == "dict":
                    r = t.update(dict(pairs))
                elif kd == "pairs":
                    r = t.update(iter(pairs))
                else:
                    r = t.update(**dict(pairs))
                return "none", "none" if r is None else "bad", r
            if n == "ior":
                r = operator.ior(t, dict(pairs))
                return "none", "self" if r is t else "notself", None
            if n == "assign":
                assign(dict(pairs))
                return "none", "none", None
            if n == "kset":
                r = t.set(item(b))
                return "none", "none" if r is None else "bad", r
            if n == "kremove":
                r = t.remove(item(b))
                return "none", "none" if r is None else "bad", r
    except AssertionError:
        raise
    except Exception as e:  # the exception CLASS is part of the compared outcome
        return type(e).__name__, "none", None
    raise ValueError("unknown op %r for kind %s" % (n, kind))


LAST_RESULT = [None]      # the raw object returned by the last non-mutating set operation (type / identity checks)


def _labels(kind, r, label, like):
    LAST_RESULT[0] = r
    if kind == "oset":
        return [label(x) for x in r]
    return sorted(label(x) for x in r)


def contents(kind, target, label=lambda o: o, unkey=lambda k: k):
    if kind in ("list", "oset"):
        return [label(x) for x in target]
    if kind == "set":
        return sorted(label(x) for x in target)
    return [[unkey(k), label(v)] for k, v in target.items()]


def exp_contents(kind, val):
    if kind == "set":
        return sorted(val)
    if kind == "dict":
        return [list(p) for p in val]
    return list(val)


def exp_ret(exp):
    rk, ret = exp["rk"], exp["ret"]
    if rk in ("none", "self", "popany"):
        return None
    if rk in ("val", "bool"):
        return ret[0]
    if rk == "set":
        return sorted(ret)
    return list(ret)


def outcome_mismatch(kind, exp, got_exc, got_rk, got_ret, got_contents, old_contents=None, unkey=lambda k: k):
    """Compare a performed operation with the spec's expectation. Returns None or a text."""
    if got_exc != exp["exc"]:
        return "raised %s, spec %s" % (got_exc, exp["exc"])
    erk = exp["rk"]
    if erk == "popany":
        # set.pop(): any member; the container loses exactly that member
        if got_rk != "val" or got_ret not in old_contents:
            return "pop() returned %r which was not a member of %r" % (got_ret, old_contents)
        want = sorted(x for x in old_contents if x != got_ret)
        if got_contents != want:
            return "after pop() -> %r contents %r, expected %r" % (got_ret, got_contents, want)
        return None
    if got_exc == "none":
        if got_rk != erk:
            return "return kind %s (%r), spec %s" % (got_rk, got_ret, erk)
        if erk == "pair":
            got_ret = [unkey(got_ret[0]), got_ret[1]]
        if erk == "list" and kind == "dict" and got_ret and isinstance(got_ret[0], str):
            got_ret = [unkey(k) for k in got_ret]
        if got_ret != exp_ret(exp):
            return "returned %r, spec %r" % (got_ret, exp_ret(exp))
    want = exp_contents(kind, exp["val"])
    if got_contents != want:
        return "contents %r, spec %r" % (got_contents, want)
    return None


# ----------------------------------------------------------------------------- calibration against the builtins
def builtin_container(kind, val):
    if kind == "list":
        return list(val)
    if kind == "set":
        return set(val)
    if kind == "dict":
        return {key_str(p[0]): p[1] for p in val}
    raise ValueError(kind)


def calibrate(chk, cases, what):
    """Every case: the builtin type performs the operation; outcome and contents must equal the spec's expectation."""
    n = 0
    for case in cases:
        kind, op, exp = case["k"], case["op"], case["exp"]
        if op["n"] in ("kset", "kremove"):
            continue
        forms = ("list", "iter", "tuple") if (kind == "list" and op["n"] in ("extend", "iadd", "setslice")) else ("list",)
        for form in forms:
            if kind == "list" and op["n"] == "setslice" and form == "iter" and dec(op["c"]) not in (None, 1):
                pass  # list accepts any iterable for extended slices too (it materialises it)
            box = [builtin_container(kind, case["val"])]

            def assign(v, box=box, kind=kind):
                box[0] = set(v) if kind == "set" else v

            old = contents(kind, box[0], unkey=unkey_str)
            exc, rk, ret = perform(kind, box[0], op, mkself=(set if kind == "set" else None), assign=assign, argform=form, key=key_str)
            m = outcome_mismatch(kind, exp, exc, rk, ret, contents(kind, box[0], unkey=unkey_str), old, unkey=unkey_str)
            n += 1
            if m:
                chk.machinery("oracle calibration failed (%s): builtin %s %r on %r: %s" % (what, kind, op, case["val"], m))
    return n


# ----------------------------------------------------------------------------- event accounting
def bag(xs):
    return Counter(xs)


def events_mismatch(kind, old_items, new_items, added, removed, exp, strict_gross=True, members_only=False):
    """old/new: item labels before/after (lists); added/removed: labels from recorded append/remove events.
    The law (C38): Bag(new) = Bag(old) + added - removed and nothing is removed that was not there.
    Then the recorded events must also be the spec's add/rem (as bags)."""
    if members_only:
        o, nw, ad, rm = set(old_items), set(new_items), set(added), set(removed)
        if nw != ((o - rm) | ad):
            return "events do not account for the change of membership: old %r new %r append events %r remove events %r" % (
                old_items, new_items, added, removed)
    else:
        net = bag(old_items)
        net.update(added)
        for x in removed:
            if net[x] <= 0:
                return "remove event for %r which is not in the collection (old %r, appended %r, removed %r)" % (x, old_items, added, removed)
            net[x] -= 1
        net = +net
        if net != bag(new_items):
            return "events do not account for the change: old %r new %r append events %r remove events %r" % (
                old_items, new_items, added, removed)
    if strict_gross and exp is not None and exp["exc"] == "none" and exp["rk"] != "popany":
        if bag(added) != bag(exp["add"]) or bag(removed) != bag(exp["rem"]):
            return "events fired: append %r remove %r; spec: append %r remove %r" % (added, removed, list(exp["add"]), list(exp["rem"]))
    return None


# ----------------------------------------------------------------------------- state-graph replay (sequences on one object)
def dump_graph(chk, init, next_, consts_, invariants=(), properties=(), timeout=900):
    from engine import graph
    cfgt = tlc.cfg(constants=consts_, init=init, next_=next_, invariants=list(invariants), properties=list(properties),
                   view="View", action_constraints=["Emit"], constraints=["Depth"])
    g = graph.dump("PyCollections", cfgt, chk.work, timeout=timeout)
    if not g.edges:
        chk.machinery("TLC dumped no edges for %s/%s" % (init, next_))
    return g


def replay_walks(g, walks, driver):
    """Sequential replay. driver.step returns None | (cls, text); cls 'events'/'backref' mismatches are recorded and the walk
    CONTINUES when the driver says the object is still in step with the spec (driver.in_step), any other ends the walk.
    Returns (steps, [mismatch dicts])."""
    mism, steps = [], 0
    for walk in walks:
        driver.reset(g.states[g.edges[walk[0]][0]])
        hist = []
        for ei in walk:
            fk, act, tk = g.edges[ei]
            hist.append(act.get("op", act))
            steps += 1
            try:
                m = driver.step(g.states[fk], act, g.states[tk])
            except Exception as e:  # harness error = reported with the exception text
                import traceback
                m = ("driver", "driver exception: %r\n%s" % (e, traceback.format_exc()[-1200:]))
            if m:
                mism.append({"walk": list(hist), "step": len(hist), "act": act, "from": g.states[fk], "to": g.states[tk],
                             "cls": m[0], "mismatch": m[1], "argform": getattr(driver, "argform", None),
                             "legacy": getattr(driver, "legacy", None)})
                if not (m[0] in ("events", "backref") and getattr(driver, "in_step", False)):
                    break
        else:
            fin = getattr(driver, "finish", None)
            if fin:
                m = fin(g.states[g.edges[walk[-1]][2]])
                if m:
                    mism.append({"walk": list(hist), "step": len(hist), "act": {"op": {"n": "drain"}}, "from": None,
                                 "to": g.states[g.edges[walk[-1]][2]], "cls": m[0], "mismatch": m[1]})
    return steps, mism


def op_sig(op, n_old=None, argform=None):
    """flat description of an operation for violation signatures"""
    n = op["n"]
    sig = {"action": n}
    if argform is not None and n in ("extend", "iadd", "setslice"):
        sig["argform"] = argform
    if n in ("getslice", "setslice", "delslice"):
        a, b, c = dec(op["a"]), dec(op["b"]), dec(op["c"])
        ext = c not in (None, 1)
        clamp = n_old is not None and any(x is not None and (x < -n_old or x > n_old) for x in (a, b))
        sig.update(start=a, stop=b, step=c, ext=ext, clamp=clamp, vlen=len(op["v"]),
                   slice_class="ext-iter" if (ext and argform == "iter") else "needs-norm" if (ext or clamp) else "plain")
    elif op.get("kd"):
        sig["argkind"] = op["kd"]
        sig["arg_has_dups"] = len(set(map(str, op["v"]))) != len(op["v"])
    return sig


# ----------------------------------------------------------------------------- parallel replay with re-planning around failing edges
_PG = None


def _pworker(args):
    wid, idxs, workdir = args
    g, walks, mk = _PG
    drv = mk(wid, os.path.join(workdir, "w%d" % wid))
    out, steps = [], 0
    for wi in idxs:
        walk = walks[wi]
        try:
            drv.reset(g.states[g.edges[walk[0]][0]])
        except Exception as e:          # the initial value is built through the API under test: a failure there is a finding
            out.append((wi, 0, "setup", "building the initial state raised %r" % (e,), (None, None)))
            continue
        for si, ei in enumerate(walk):
            fk, act, tk = g.edges[ei]
            steps += 1
            try:
                m = drv.step(g.states[fk], act, g.states[tk])
            except Exception as e:
                import traceback
                m = ("driver", "driver exception: %r\n%s" % (e, traceback.format_exc()[-1200:]))
            if m:
                out.append((wi, si, m[0], m[1], (getattr(drv, "argform", None), getattr(drv, "legacy", None))))
                break
        else:
            fin = getattr(drv, "finish", None)
            if fin:
                try:
                    m = fin(g.states[g.edges[walk[-1]][2]])
                except Exception as e:
                    import traceback
                    m = ("driver", "driver exception in drain: %r\n%s" % (e, traceback.format_exc()[-1200:]))
                if m:
                    out.append((wi, len(walk), m[0], m[1], (None, None)))
    cl = getattr(drv, "close", None)
    if cl:
        cl()
    return steps, out


def parallel_replay(g, walks, make_driver, workdir, nproc=None):
    """make_driver(worker_id, workdir) -> driver(reset, step -> None | (cls, text), finish, close). A walk ends at its first mismatch.
    Returns (steps, [(walk index, step index (== len(walk) for the drain), cls, text, argform)])."""
    import multiprocessing as mp
    global _PG
    if not walks:
        return 0, []
    nproc = max(1, min(nproc or tlc.NPROC, tlc.NPROC, len(walks)))
    _PG = (g, walks, make_driver)
    chunks = [list(range(i, len(walks), nproc)) for i in range(nproc)]
    os.makedirs(workdir, exist_ok=True)
    if nproc == 1:
        res = [_pworker((0, chunks[0], workdir))]
    else:
        with mp.get_context("fork").Pool(nproc) as pool:
            res = pool.map(_pworker, [(i, chunks[i], workdir) for i in range(nproc)])
    return sum(r[0] for r in res), [m for r in res for m in r[1]]


def subgraph_without(g, bad):
    from engine import graph
    h = graph.Graph()
    h.states, h.inits = g.states, list(g.inits)
    h.out = {k: [] for k in g.states}
    h.index = []          # new edge index -> old edge index
    for i, e in enumerate(g.edges):
        if i in bad:
            continue
        h.out[e[0]].append(len(h.edges))
        h.edges.append(e)
        h.index.append(i)
    return h


def replay_every_edge(g, maxlen, rng, make_driver, workdir, n_random=0, rounds=3):
    """Edge-covering tours replayed in parallel; edges that could not be executed because their walk ended at a failing edge are
    re-planned on the graph without the failing edges (so one known defect cannot hide the edges behind it).
    Returns (stats, mismatches[{edge, act, from, to, step, cls, mismatch, walk, argform}])."""
    from engine import graph
    executed, bad = set(), set()
    mism_out, steps_total, walks_total = [], 0, 0
    cur, back = g, None
    plan0 = None
    for rnd in range(rounds):
        walks, plan = graph.plan_tours(cur, maxlen, rng)
        if rnd == 0:
            plan0 = plan
            walks += graph.random_walks(cur, n_random, maxlen, rng)
        else:
            # keep only walks that bring something new
            walks = [w for w in walks if any((back[ei] if back else ei) not in executed for ei in w)]
        if not walks:
            break
        steps, mism = parallel_replay(cur, walks, make_driver, os.path.join(workdir, "r%d" % rnd))
        steps_total += steps
        walks_total += len(walks)
        failed_at = {}
        for wi, si, cls, text, argform in mism:
            failed_at[wi] = si
            w = walks[wi]
            drain = si >= len(w)
            ei = w[-1] if drain else w[si]
            old = back[ei] if back else ei
            fk, act, tk = cur.edges[ei]
            if not drain:
                bad.add(old)
            mism_out.append({"edge": old, "act": act if not drain else {"op": {"n": "drain", "a": 0, "b": 0, "c": 0, "v": [], "kd": ""}},
                             "from": cur.states[fk], "to": cur.states[tk], "step": si + 1, "cls": cls, "mismatch": text, "argform": argform[0],
                             "legacy": argform[1], "walk": [cur.edges[x][1].get("op", cur.edges[x][1]) for x in w[:si + 1]]})
        for wi, w in enumerate(walks):
            upto = failed_at.get(wi, len(w))
            for ei in w[:upto]:
                executed.add(back[ei] if back else ei)
        missing = set(range(len(g.edges))) - executed - bad
        if not missing or not bad:
            break
        cur = subgraph_without(g, bad)
        back = cur.index
    stats = dict(plan0 or {}, walks=walks_total, steps=steps_total, edges_executed=len(executed), edges_failing=len(bad),
                 edges_not_executed=len(set(range(len(g.edges))) - executed - bad))
    return stats, mism_out
