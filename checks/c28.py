"""C28 Event listeners fire exactly as registered - Events.tla (histories) + ExecOnce.tla (schedules). DESIGN 3.6, 2.5."""
import hashlib
import multiprocessing as mp
import os
import random
import time

from engine import graph, tlc
from checks import events_driver as ED

LEVEL = "model_checking"
MANIFEST = dict(
    text="Events.tla holds the mechanism of sqlalchemy.event (per-class _clslevel deques filled through walk_subclasses/update_subclass, "
         "_EmptyListener/_ListenerCollection/_JoinedListener per instance, only_once/named/retval wrapper chain, both registry maps) next to an "
         "abstract log of registrations in force; TLC checks exhaustively (two hierarchies: chain Base<-A<-B plus a late class C, and diamond Base<-L, Base<-R "
         "plus a late M(L,R)/M(R,L); 2 instances incl. a joined one, 3 functions, "
         "all walks of 4 steps, thorough adds all 16 option combinations at 3 steps and all walks of 5 steps over 2 functions) that what the mechanism would call is exactly what the log says: every registered listener of the "
         "target and its ancestors once, class-level first, insert=True first, registration order otherwise, once-listeners at most once, nothing "
         "after remove, no dangling registry entry.  Every labelled edge of that graph plus TLC-simulated walks of 9-10 steps are replayed on a private "
         "Events/target hierarchy comparing calls (ids, args, named kwargs, retval threading), the collections, both registry maps and event.contains() "
         "after every step.  ExecOnce.tla models exec_once/_unless_exception/_exec_w_sync_on_first_run/only_once at shared-memory-operation grain; "
         "TLC checks all interleavings of 2 (quick) / 3 (thorough) threads and every edge is replayed on the real code by a deterministic baton scheduler.",
    design_ref="3.6, 2.5, 4 (C28)",
    note="trusted: TLC; sys.settrace line events + shim Lock as the complete set of points where a thread switch matters; domain restriction: a function "
         "is registered on at most one target at a time, _update at most once per history; bounded classes/instances/functions/depth; the two defects "
         "this check found (exec_once on a joined dispatcher raised AttributeError; lazy creation of the exec-once mutex raced on GIL builds) were "
         "repaired by fix: commits - checks/events_driver.probe_tree picks the spec variant that follows the tree, a regression is a VIOLATION",
    technique="TLA+ specs (Events.tla, ExecOnce.tla) + TLC exhaustive model checking; spec->code replay of every state-graph edge and of simulated "
              "deep walks into sqlalchemy.event; thread interleavings chosen by TLC replayed by a deterministic scheduler")

INVS = ["ExactlyRegisteredEachOnce", "ClassHoldsAllAncestors", "ClassBeforeInstance", "InsertedFirstThenRegistrationOrder", "OnceAtMostOnce",
        "OnceWrapperAgrees", "NoGhostListeners", "NoDangling"]
PROPS = ["CallsOnlyRegistered", "RemoveWorks", "DispatchIsAbstract", "ExecOnceOnce", "ExecOnceFlag"]
FOOTPRINT = ["Listen", "Remove", "CreateSubclass", "NewInstance", "Dispatch", "ExecOnce", "Update"]
XO_INVS = ["BodyAtMostOnce", "SyncFirstRunSerialised", "MutexExcludes", "NoEarlyReturn", "OnceFnAtMostOnce", "NoDeadlock"]
XO_PROPS = ["NoRunAfterFinal"]
XO_RACY = {"BodyAtMostOnce", "SyncFirstRunSerialised", "MutexExcludes", "NoRunAfterFinal"}   # need an atomic mutex creation


def _events_cfg(consts, styles, shard=None, check=False, emit=False, nshards=1, init=None, invs=(), props=()):
    c = dict(consts)
    c.update(NShards=nshards, Shard=shard or 0)
    return tlc.cfg(constants=c, init=init or ("InitEmit" if emit else "Init"), next_="NextDump" if emit else "Next",
                   invariants=invs, properties=props, view="View",
                   action_constraints=["EmitShard"] if emit else [], constraints=[] if emit else ["Depth"],
                   extra="CONSTANT Styles <- " + styles)


def _label(a):
    s = a["a"]
    if s == "Listen":
        s += "(t=%d,f=%d%s%s%s%s%s)" % (a["t"], a["f"], ",insert" if a["ins"] else "", ",propagate" if a["prop"] else "",
                                        ",once" if a["once"] else "", ",named" if a["named"] else "", ",retval" if a["retval"] else "")
    elif s in ("Remove",):
        s += "(t=%d,f=%d)" % (a["t"], a["f"])
    elif s == "NewInstance":
        s += "(%d:cls%d%s)" % (a["t"], a["f"], ",join" if a["m"] else "")
    elif s == "CreateSubclass":
        s += "(parent=%d)" % a["t"]
    elif s == "Update":
        s += "(%d<-%d,only_propagate=%s)" % (a["t"], 10 + a["f"], a["ins"])
    else:
        s += "(%d,%s%s)" % (a["t"], a["m"], ",boom" if a["f"] else "")
    r = a["ret"]
    return s + "->" + r["out"] + ("[" + " ".join("f%d(x=%d%s)" % (c["f"], c["x"], ",kw" if c["kw"] else "") for c in r["calls"]) + "]"
                                  if r["calls"] else "")


def _shard(args):
    """one slice of the Events edge dump: TLC (1 worker) -> tours -> replay, all inside this process"""
    shard, nshards, consts, styles, work, seed, nrand, props = args
    wd = os.path.join(work, "shard%d" % shard)
    # the dump run is also a model-checking run: every invariant / action property is checked on this slice of the graph
    g = graph.dump("Events", _events_cfg(consts, styles, shard=shard, emit=True, nshards=nshards, invs=INVS, props=props), wd,
                   timeout=3000, heap="4g")
    rng = random.Random(seed * 1000 + shard)
    maxlen = consts["MaxDepth"]
    walks, plan = graph.plan_tours(g, maxlen, rng, budget_s=600)
    extra = graph.random_walks(g, nrand, maxlen, rng) if g.edges else []
    steps, mism = graph.replay(g, walks + extra, lambda wid, w: ED.Driver(wid, w), os.path.join(wd, "replay"), nproc=1)
    cov = {}
    detail = dict(insert=0, once=0, named=0, retval=0, propagate=0, remove_ok=0, remove_bad=0, dispatch_nonempty=0,
                  execonce_raise=0, join=0, late_inst=0, update_copy=0, once_skipped=0, mi_late_pull=0, mi_dispatch=0, mi_remove=0)
    dia = consts["Shape"].strip('"') == "diamond"
    nontriv = 0
    for fk, a, tk in g.edges:
        cov[a["a"]] = cov.get(a["a"], 0) + 1
        if dia:
            sf, st_ = g.states[fk], g.states[tk]
            # M(L, R) gets its collection late and has to collect from both bases
            detail["mi_late_pull"] += (4 not in sf["clin"]) and (4 in st_["clin"]) and len(st_["cl"][3]) >= 2
            detail["mi_dispatch"] += a["a"] == "Dispatch" and sf["inst"][a["t"] - 11]["cls"] == 4 and len(a["ret"]["calls"]) >= 2
            detail["mi_remove"] += a["a"] == "Remove" and a["ret"]["out"] == "ok" and a["t"] in (2, 3) and 4 in sf["clin"]
        if a["a"] == "Listen":
            for k, f in (("insert", "ins"), ("once", "once"), ("named", "named"), ("retval", "retval"), ("propagate", "prop")):
                detail[k] += bool(a[f])
        elif a["a"] == "Remove":
            detail["remove_ok" if a["ret"]["out"] == "ok" else "remove_bad"] += 1
        elif a["a"] == "NewInstance":
            detail["join"] += a["m"] == "join"
            detail["late_inst"] += a["f"] == 4
        elif a["a"] == "Update":
            detail["update_copy"] += len(g.states[tk]["log"]) > 0 and bool(g.states[tk]["log"][-1]["fns"])
        elif a["a"] == "ExecOnce":
            detail["execonce_raise"] += a["ret"]["out"] == "raise"
        if a["a"] in ("Dispatch", "ExecOnce") and a["ret"]["calls"]:
            detail["dispatch_nonempty"] += 1
            if len(a["ret"]["calls"]) >= 2:
                nontriv += 1
        if a["a"] == "Dispatch" and len(a["ret"]["calls"]) < len(a["obs"]["iter"][a["t"] - 11]):
            detail["once_skipped"] += 1
    samples = []
    want = [lambda a: a["a"] == "Dispatch" and len(a["ret"]["calls"]) >= 3,
            lambda a: a["a"] == "Dispatch" and a["m"] == "iter" and any(c["x"] > 0 for c in a["ret"]["calls"]),
            lambda a: a["a"] == "ExecOnce" and a["ret"]["out"] == "raise"]
    for w in walks:
        for i, pred in enumerate(want):
            if pred is not None and any(pred(g.edges[ei][1]) for ei in w):
                samples.append([_label(g.edges[ei][1]) for ei in w])
                want[i] = None
                break
        if not any(want):
            break
    dg = lambda k: hashlib.blake2b(k.encode(), digest_size=8).digest()
    sdig = set(dg(k) for k in g.states)
    edig = set(dg(fk + graph.key({k: v for k, v in a.items() if k != "obs"}) + tk) for fk, a, tk in g.edges)
    return dict(graph="%s/%s/NF%d/%d steps" % (consts["Shape"].strip('"'), styles, consts["NF"], consts["MaxDepth"] - 1),
                shard=shard, violated=g.tlc.violated, sdig=sdig, edig=edig, states=g.tlc.distinct, generated=g.tlc.generated, edges=len(g.edges), plan=plan, steps=steps,
                walks=len(walks) + len(extra), mism=mism[:40], nmism=len(mism), cov=cov, detail=detail, nontriv=nontriv,
                samples=samples, dump_wall=round(g.tlc.wall, 1))


def _report(chk, spec, mism):
    for m in mism:
        text = m["mismatch"]
        if "watchdog" in text or "Watchdog" in text:
            chk.machinery("scheduler: " + text[:400])
        act = m["act"]
        sig = {"spec": spec, "kind": "conformance"}
        if isinstance(act, dict):
            sig["action"] = act.get("a", act.get("p"))
            for k in ("t", "f", "m", "ins", "once"):
                if k in act:
                    sig[k] = act[k]
        else:
            sig["action"] = str(act)
        sig["what"] = text.split(",")[0][:80]
        chk.violation(sig, "sqlalchemy.event diverges from %s.tla: %s" % (spec, text[:600]), m)


def _schedules(chk, rng, tree, quick, nproc):
    nt = 2 if quick else 3
    atomic = tree["atomic_mutex"]
    fams = '{"xo", "once"}'
    xc = dict(NT=nt, AtomicMutex=atomic, Families=fams)
    hold_i = [i for i in XO_INVS if atomic or i not in XO_RACY] + ([] if atomic else [i + "_NoRace" for i in XO_INVS if i in XO_RACY])
    hold_p = XO_PROPS if atomic else ["NoRunAfterFinal_NoRace"]
    xr = tlc.run("ExecOnce", tlc.cfg(constants=xc, invariants=hold_i, properties=hold_p, view="View"), chk.work + "/xo", workers=nproc,
                 timeout=1800, keep_stdout=False)
    if xr.violated:
        chk.violation({"spec": "ExecOnce", "action": "TLC", "invariant": xr.violated}, "TLC: %s violated in ExecOnce.tla" % xr.violated,
                      {"invariant": xr.violated, "tail": xr.stdout[-6000:]})
    xa = None
    if not atomic:
        # the code as it runs on a GIL build: lazy mutex creation can race -> the unrestricted property fails (known finding);
        # the same algorithm with atomic creation satisfies everything
        for inv in ("BodyAtMostOnce", "SyncFirstRunSerialised"):
            xv = tlc.run("ExecOnce", tlc.cfg(constants=dict(xc, NT=2), invariants=[inv], view="View"), chk.work + "/xo2", workers=nproc,
                         timeout=900, keep_stdout=False)
            if xv.violated:
                chk.violation({"spec": "ExecOnce", "action": "TLC", "invariant": inv, "cause": "lazy-mutex-race"},
                              "%s fails when two first callers each create the exec-once mutex (_get_exec_once_mutex is unsynchronised on "
                              "GIL builds): both run the listeners" % inv)
        xa = tlc.run("ExecOnce", tlc.cfg(constants=dict(xc, AtomicMutex=True), invariants=XO_INVS, properties=XO_PROPS, view="View"),
                     chk.work + "/xo3", workers=nproc, timeout=1800, keep_stdout=False)
        if xa.violated:
            chk.violation({"spec": "ExecOnce", "action": "TLC", "invariant": xa.violated, "variant": "atomic"},
                          "TLC: %s violated in ExecOnce.tla even with atomic mutex creation" % xa.violated)
    # every edge of the interleaving graph against the real code
    xg = graph.dump("ExecOnce", tlc.cfg(constants=xc, init="InitEmit", view="View", action_constraints=["Emit"]), chk.work + "/xod",
                    timeout=2400)
    xwalks, xplan = graph.plan_tours(xg, 400, rng, budget_s=600)
    xsteps, xmism = graph.replay(xg, xwalks, lambda wid, w: ED.SchedDriver(wid, w), chk.work + "/xoreplay", nproc=nproc)
    _report(chk, "ExecOnce", xmism)
    pcs = {}
    for e in xg.edges:
        pcs[e[1]["p"]] = pcs.get(e[1]["p"], 0) + 1
    for p in ("chk0", "wchk", "mget", "acq", "chk1", "body", "inbody", "set", "wset", "rel", "fbody", "infbody", "ochk", "opop") + \
            (() if atomic else ("mset",)):
        if not pcs.get(p):
            chk.machinery("vacuous: no interleaving takes step %s" % p)
    twice = sum(1 for s in xg.states.values() if s["fam"] == "xo" and s["nfin"] >= 2)
    idx = sum(1 for s in xg.states.values() if "IndexError" in s["res"])
    return dict(nt=nt, atomic=atomic, xr=xr, xa=xa, xg=xg, xwalks=xwalks, xplan=xplan, xsteps=xsteps, pcs=pcs, twice=twice, idx=idx)


def main(chk):
    rng = random.Random(chk.seed)
    tree = ED.probe_tree()
    phase, t0 = {}, time.time()

    def lap(name):
        nonlocal t0
        phase[name] = round(time.time() - t0, 1)
        t0 = time.time()
    quick = chk.quick
    nproc = tlc.NPROC
    # ------------------------------------------------------------------ 1. Events.tla: exhaustive model checking
    base = dict(NF=3, InstCls="{1,2,3,4}", CPars="{1,2,3}", BadRm="{1,11}", JoinedXoBroken=tree["joined_xo_broken"], Shape=tlc.q("chain"))
    # multiple inheritance: Base <- L, Base <- R, late M(L, R) / M(R, L); instances of L, R, M
    diamond = dict(base, InstCls="{2,3,4}", CPars="{23,32}", BadRm="{}", Shape=tlc.q("diamond"))
    narrow = dict(diamond, NF=2, InstCls="{4}")      # two functions, instances of M only: affordable one/two steps deeper
    # dumps = graphs that are model-checked AND replayed edge by edge: (constants, option combinations, shards, extra random walks)
    if quick:
        deeps = []
        dumps = [(dict(base, MaxDepth=5), "StylesQuick", 8, 20),                       # MaxDepth 5 = all walks of 4 steps
                 (dict(diamond, MaxDepth=5), "StylesQuick", 8, 20),
                 (dict(narrow, MaxDepth=6), "StylesMin", 2, 20)]                        # listen L, listen R, create M, M(), dispatch/remove
        sim_num, sim_depth = 120, 9
    else:
        # all walks of 5 steps over two functions (multi-worker runs, no dump)
        deeps = [(dict(base, NF=2, MaxDepth=6), "StylesQuick"), (dict(diamond, NF=2, MaxDepth=6), "StylesQuick")]
        dumps = [(dict(base, MaxDepth=5), "StylesQuick", 8, 200),
                 (dict(diamond, MaxDepth=5), "StylesQuick", 8, 200),
                 (dict(base, MaxDepth=4), "StylesFull", 8, 200),                       # all 16 option combinations, 3 steps
                 (dict(diamond, MaxDepth=4), "StylesFull", 8, 200),
                 (dict(narrow, MaxDepth=7), "StylesMin", 8, 200)]
        sim_num, sim_depth = 1500, 10
    # ExecOnceRuns (exec_once works on every target, joined ones included) is part of the property set unless the tree still has
    # the _JoinedListener defect, in which case it is checked separately below (and fails)
    props = PROPS + ([] if tree["joined_xo_broken"] else ["ExecOnceRuns"])
    deep_runs = []
    for di, (dc, dsty) in enumerate(deeps):
        r = tlc.run("Events", _events_cfg(dc, dsty, invs=INVS, props=props), chk.work + "/mc%d" % di, workers=nproc,
                    timeout=6000, keep_stdout=False)
        deep_runs.append(r)
        if r.violated:
            chk.violation({"spec": "Events", "action": "TLC", "invariant": r.violated, "run": "deep"},
                          "TLC: %s violated in Events.tla" % r.violated, {"invariant": r.violated, "tail": r.stdout[-6000:]})
    # 1b. the intended behaviour of exec_once on a joined dispatcher (the spec follows the code where they differ)
    if tree["joined_xo_broken"]:
        r2 = tlc.run("Events", _events_cfg(dict(base, MaxDepth=4), "StylesQuick", props=["ExecOnceRuns"]), chk.work + "/mc2",
                     workers=nproc, timeout=900, keep_stdout=False)
        if r2.violated:
            chk.violation({"spec": "Events", "action": "ExecOnce", "invariant": "ExecOnceRuns", "target": "joined", "got": "AttributeError"},
                          "exec_once on a joined dispatcher (_JoinedListener) raises AttributeError('_is_asyncio') and calls no listener")
        else:
            chk.machinery("calibration: probe says exec_once on a joined listener is broken but TLC finds ExecOnceRuns to hold")
    lap("events_tlc")
    # ------------------------------------------------------------------ 2. every edge, replayed (sharded by the first step)
    jobs = []
    for di, (dump_consts, dump_styles, nshards, nrand) in enumerate(dumps):
        jobs += [(i, nshards, dump_consts, dump_styles, chk.work + "/dump%d" % di, chk.seed, nrand, props) for i in range(nshards)]
    ctx = mp.get_context("fork")
    with ctx.Pool(max(1, min(len(jobs), nproc)), maxtasksperchild=1) as pool:
        res = pool.map(_shard, jobs, chunksize=1)
    cov, detail = {}, {}
    sdig, edig = set(), set()
    for x in res:
        sdig |= x.pop("sdig")
        edig |= x.pop("edig")
        if x["violated"]:
            chk.violation({"spec": "Events", "action": "TLC", "invariant": x["violated"]},
                          "TLC: %s violated in Events.tla (shard %d)" % (x["violated"], x["shard"]))
        for k, v in x["cov"].items():
            cov[k] = cov.get(k, 0) + v
        for k, v in x["detail"].items():
            detail[k] = detail.get(k, 0) + int(v)
        _report(chk, "Events", x["mism"])
    for a in FOOTPRINT:
        if not cov.get(a):
            chk.machinery("vacuous: action %s never taken" % a)
    for k in ("insert", "once", "named", "retval", "propagate", "remove_ok", "remove_bad", "dispatch_nonempty", "execonce_raise", "join",
              "late_inst", "once_skipped", "mi_late_pull", "mi_dispatch", "mi_remove"):
        if not detail.get(k):
            chk.machinery("vacuous: no edge exercises %s" % k)
    uncovered = sum(x["plan"]["edges"] - x["plan"]["edges_covered"] for x in res)
    if uncovered:
        chk.machinery("tour planner left %d edges uncovered" % uncovered)
    lap("events_edges")
    # ------------------------------------------------------------------ 3. deep walks sampled by TLC's simulator
    swalks, ssteps, sim_edges, sim_sample = [], 0, 0, None

    def _sim(arg):
        si, sc = arg
        sim_cfg = _events_cfg(dict(sc, MaxDepth=sim_depth + 1), "StylesFull", invs=["SimEmit"])
        return ED.simulate_walks("Events", sim_cfg, chk.work + "/sim%d" % si, sim_num // 2, sim_depth, chk.seed + 1 + si, timeout=1500)

    from concurrent.futures import ThreadPoolExecutor
    with ThreadPoolExecutor(2) as ex:           # the simulator is one single-threaded TLC per hierarchy shape: run both at once
        sims = list(ex.map(_sim, enumerate((base, diamond))))
    for si, (sg, sw) in enumerate(sims):
        if len(sw) < sim_num // 4:
            chk.machinery("simulator produced only %d walks" % len(sw))
        st_, smism = graph.replay(sg, sw, lambda wid, w: ED.Driver(wid, w), chk.work + "/simreplay%d" % si, nproc=nproc)
        _report(chk, "Events", smism)
        swalks += sw
        ssteps += st_
        sim_edges += len(sg.edges)
        if si == 1 and sw:
            sim_sample = [_label(sg.edges[ei][1]) for ei in sw[len(sw) // 2]]
    lap("events_sim")
    # ------------------------------------------------------------------ 4. ExecOnce.tla: all interleavings
    try:
        X = _schedules(chk, rng, tree, quick, nproc)
    except Exception as e:
        # the scheduler cannot follow this tree (a thread got stuck, the scratch tree disappeared, ...).  That is a machinery failure
        # unless the histories part has already shown a divergence, in which case that verdict stands.
        if not chk.violations:
            raise
        return chk.finish(dict(states=len(sdig), transitions=len(edig), events_edges_replayed=sum(x["edges"] for x in res),
                               schedules_skipped=str(e)[:200], samples=[s_ for x in res[:1] for s_ in x["samples"]],
                               distinct_nontrivial=sum(x["nontriv"] for x in res), evaluations=sum(x["steps"] for x in res) + ssteps,
                               traces_validated_against_impl=sum(x["walks"] for x in res) + len(swalks),
                               rule="histories part only: the schedules part could not bind to this tree"),
                          assumptions=["schedules part not run: " + str(e)[:200]])
    lap("schedules")
    nt, atomic, xr, xa, xg, xwalks, xplan, xsteps, pcs, twice, idx = (X[k] for k in (
        "nt", "atomic", "xr", "xa", "xg", "xwalks", "xplan", "xsteps", "pcs", "twice", "idx"))
    # ------------------------------------------------------------------ evidence
    edges = sum(x["edges"] for x in res)
    samples = [s for x in res[:2] for s in x["samples"]][:3]
    if sim_sample:
        samples.append(sim_sample)
    if xwalks:
        w = max(xwalks, key=len)
        samples.append(["scenario %s boom=%s" % (xg.states[xg.edges[w[0]][0]]["op"], xg.states[xg.edges[w[0]][0]]["boom"])] +
                       ["T%d:%s" % (xg.edges[ei][1]["t"], xg.edges[ei][1]["p"]) for ei in w])
    return chk.finish(
        dict(states=len(sdig) + xr.distinct + sum(x.distinct for x in deep_runs),
             transitions=len(edig) + xr.generated + sum(x.generated for x in deep_runs),
             events_states=len(sdig), events_transitions=len(edig),      # distinct over all shards (union of digests)
             events_deep_states=sum(x.distinct for x in deep_runs), events_deep_transitions=sum(x.generated for x in deep_runs),
             events_deep_depth=max([x.depth for x in deep_runs] or [0]),
             events_edges_replayed=edges, events_edge_walks=sum(x["walks"] for x in res), events_edge_steps=sum(x["steps"] for x in res),
             events_sim_walks=len(swalks), events_sim_steps=ssteps, events_sim_edges=sim_edges,
             execonce_states=xr.distinct, execonce_transitions=xr.generated, execonce_depth=xr.depth,
             execonce_atomic_variant_states=xa.distinct if xa else 0,
             execonce_edges=len(xg.edges), execonce_edges_replayed=xplan["edges_covered"], execonce_walks=len(xwalks), execonce_steps=xsteps,
             execonce_states_body_ran_twice=twice, execonce_states_indexerror=idx,
             traces_validated_against_impl=sum(x["walks"] for x in res) + len(swalks) + len(xwalks),
             evaluations=sum(x["steps"] for x in res) + ssteps + xsteps,
             distinct_nontrivial=sum(x["nontriv"] for x in res) + sum(1 for e in xg.edges if e[1]["p"] in ("acq", "mset", "opop")),
             phase_wall_s=phase, action_coverage=cov, option_coverage=detail, step_coverage=pcs, samples=samples, exhaustive=True, tree=tree,
             shards=[dict(graph=x["graph"], shard=x["shard"], edges=x["edges"], states=x["states"], dump_wall=x["dump_wall"]) for x in res],
             rule="histories: every labelled edge of the Events.tla graph(s) %s (sharded by first step) lies on a walk from Init that is "
                  "replayed on a fresh private event hierarchy, plus %d simulated walks of <= %d steps; non-trivial = Dispatch/ExecOnce edges that call "
                  ">= 2 listeners.  schedules: every edge of the %d-thread ExecOnce.tla interleaving graph replayed by the baton scheduler; "
                  "non-trivial = lock acquisitions, mutex publications and once-pops" % (
                      sorted(set(x["graph"] for x in res)), len(swalks), sim_depth, nt),
             checker_cmd="tlc Events.tla (VIEW View, NEXT NextDump, ACTION_CONSTRAINT EmitShard, all invariants/properties; -workers 1 per shard); "
                         "tlc -simulate Events.tla (INVARIANT SimEmit); tlc ExecOnce.tla (VIEW View, ACTION_CONSTRAINT Emit)"),
        assumptions=["a function is registered on at most one target at a time (same function twice on one target is undefined by the statement)",
                     "_Dispatch._update at most once per history; _join only at instance creation, parent not itself joined",
                     "one event name; asyncio listeners, legacy signatures, _sa_propagate_class_events=False and Events._clear are not modelled",
                     "joined targets: both sides of the join fire (a listener on a common ancestor class fires once per side, as _join documents)",
                     "schedules: thread switches matter only at the shared-memory operations listed in ExecOnce.tla (line events of the anchored "
                     "functions, Lock.acquire/release, the listener body); %d threads" % nt,
                     "class hierarchies: chain Base<-A<-B + late C(any of them), diamond Base<-L, Base<-R + late M(L,R)/M(R,L); for M the order "
                     "between listeners that arrived through different bases is the MRO merge at establishment time (not asserted, only conformed)",
                     "bounded: 3 classes + 1 late subclass, 2 instances, 3 functions, exhaustive walks <= %d steps (TLC and replay)%s" % (
                         dumps[0][0]["MaxDepth"] - 1, "; <= %d steps with 2 functions (TLC only)" % (deeps[0][0]["MaxDepth"] - 1) if deeps else "")])
