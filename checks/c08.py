"""C08 LIKE-based string operators with autoescape match literal semantics - LikeEscape.tla (DESIGN 3.12, 4 C08, 6 C08).

TLC: for every operand s (<= MaxS characters over {% _ E a A '}) the escaped value Esc(s) and, per operator, the set of
texts (all strings <= MaxT characters) that  '%' || Esc(s) || '%'  etc. match under SQL LIKE ... ESCAPE E; invariants
CasedOpsOK / IOpsOK / EscapeIsLiteral state the property: operator matches t <=> Python substring / prefix / suffix test.
Binding: the real operators are built with autoescape=True (default escape and explicit escape characters), the bound
parameter must EQUAL Esc(s), and the rows SQLite returns (PRAGMA case_sensitive_like=ON) must EQUAL the specification's
sets - bound and with literal_binds, plain and negated.  LikeMatch itself is first calibrated against SQLite on raw patterns.
"""
import os

from engine import tlc

LEVEL = "model_checking"
MANIFEST = dict(
    text="LikeEscape.tla: SQL LIKE with ESCAPE transcribed (LikeMatch), the autoescape transform stated per character (Esc), the six "
         "operators composed as the compiler renders them; TLC checks for every operand of <=2 (quick) / <=3 (thorough) characters over "
         "{%, _, escape char, a, A, quote} and every text of <=3 characters that contains/startswith/endswith (and the case-folded "
         "i-variants) match exactly when the Python substring/prefix/suffix test holds. Every case is replayed on SQLite "
         "(case_sensitive_like=ON): bound value == Esc(s), matched rows == the specification's, for the default escape and for "
         "escape characters / \\ ! #, bound and literal_binds, plain and negated; explicit escape= without autoescape is bound to the "
         "raw-pattern semantics.",
    design_ref="3.12, 4 (C08), 6 (C08)",
    note="trusted: TLC; SQLite LIKE as executor, calibrated first against LikeMatch on all raw patterns (exit 2 on disagreement); "
         "wildcards as escape characters are a degenerate configuration (excluded); a cased letter as escape character breaks the "
         "i-variants (known finding, also demonstrated by TLC on the specification with E = a / A); SQLite only",
    technique="TLA+ spec (LikeEscape.tla) + TLC exhaustive theorem checking over all (operand, text) pairs; spec->code replay of every operand")

OPS = ["contains", "startswith", "endswith", "icontains", "istartswith", "iendswith"]


def _run(chk, alpha, esc, maxs, maxt, mode, invariants, tag):
    cfgt = tlc.cfg(constants=dict(Alpha=tlc.q(alpha), E=tlc.q(esc), MaxS=maxs, MaxT=maxt, Mode=tlc.q(mode)), invariants=invariants)
    r = tlc.run("LikeEscape", cfgt, os.path.join(chk.work, "tlc-" + tag), workers=2, timeout=900 if chk.quick else 2400, keep_stdout=False)
    texts = None
    cases = []
    for o in r.json:
        if "texts" in o:
            texts = ["".join(t) for t in o["texts"]]
        elif "s" in o:
            cases.append(("".join(o["s"]), {k: ("".join(v) if k == "esc" else set(v)) for k, v in o["out"].items()}))
    r.json = []
    cases.sort()
    return r, texts, cases


def _tr(s, abstract, actual):
    """the specification's escape character stands for the configured one"""
    return s if abstract == actual else s.replace(abstract, actual)


def _escape_class(c):
    if c is None:
        return "default"
    if c.isalpha():
        return "cased_letter"
    return "punctuation"


class DB:
    def __init__(self, path):
        import sqlalchemy as sa
        from sqlalchemy import event
        self.sa = sa
        self.eng = sa.create_engine("sqlite:///" + path)

        @event.listens_for(self.eng, "connect")
        def _pragma(dbapi_conn, rec):          # LIKE is case-insensitive for ASCII by default on SQLite
            dbapi_conn.execute("PRAGMA case_sensitive_like=ON")

        self.md = sa.MetaData()
        self.tables = {}

    def table(self, name, texts):
        sa = self.sa
        t = sa.Table(name, self.md, sa.Column("id", sa.Integer, primary_key=True), sa.Column("t", sa.String))
        t.create(self.eng)
        with self.eng.begin() as conn:
            conn.execute(t.insert(), [dict(id=i + 1, t=x) for i, x in enumerate(texts)] + [dict(id=len(texts) + 1, t=None)])
        return t


def main(chk):
    import sqlalchemy as sa
    maxs, maxt = (2, 3) if chk.quick else (3, 3)
    runs = []
    # all TLC runs are independent: start them together
    from concurrent.futures import ThreadPoolExecutor
    ex = ThreadPoolExecutor(max_workers=max(1, min(6, tlc.NPROC)))
    f_ops = ex.submit(_run, chk, "full", "/", maxs, maxt, "ops", ["CasedOpsOK", "IOpsOK", "EscapeIsLiteral"], "ops")
    f_cal = ex.submit(_run, chk, "full", "/", 2 if chk.quick else 3, maxt, "calib", ["RawOK"], "calib")
    f_let = {e: (ex.submit(_run, chk, "letters", e, 2, 2 if chk.quick else 3, "ops", ["CasedOpsOK", "EscapeIsLiteral"], "letter-" + e),
                 ex.submit(_run, chk, "letters", e, 2, 2, "ops", ["IOpsOK"], "letter-i-" + e)) for e in ("a", "A")}
    # 1. the theorem, E = "/" standing for any non-alphanumeric escape character
    r_ops, texts, cases = f_ops.result()
    runs.append(("ops E=/", r_ops))
    if r_ops.violated:
        chk.violation(dict(spec="LikeEscape", action="TLC", invariant=r_ops.violated, escape_class="punctuation"),
                      "TLC: %s violated in LikeEscape.tla with a non-alphanumeric escape character" % r_ops.violated)
    # 2. raw patterns: calibration of LikeMatch, and binding of explicit escape= without autoescape
    r_cal, texts_c, raw = f_cal.result()
    runs.append(("calib E=/", r_cal))
    if r_cal.violated:
        chk.machinery("LikeEscape.tla: RawOK violated (LikeMatch is not LIKE)")
    # 3. a cased letter as escape character: the cased operators must still satisfy the theorem, the i-variants cannot (section 6)
    letter = {}
    spec_counterexample = {}
    for e in ("a", "A"):
        r1, tx, cs = f_let[e][0].result()
        runs.append(("ops E=%s" % e, r1))
        if r1.violated:
            chk.violation(dict(spec="LikeEscape", action="TLC", invariant=r1.violated, escape_class="cased_letter", escape=e),
                          "TLC: %s violated with escape character %r" % (r1.violated, e))
        letter[e] = (tx, cs)
        r2, _, _ = f_let[e][1].result()
        runs.append(("ops E=%s IOpsOK" % e, r2))
        # not a verdict on the code: TLC shows that the escape-then-lower() composition cannot satisfy the theorem with a cased
        # escape character; whether the real operators still compose that way is decided by the replay below
        spec_counterexample[e] = bool(r2.violated)
    ex.shutdown()
    if not cases or not raw or texts != texts_c:
        chk.machinery("TLC printed no cases / inconsistent text tables")

    db = DB(os.path.join(chk.work, "c08.db"))
    evals = ncal = 0
    nontrivial = set()
    samples = []
    counts = {}

    def pyexpect(op, s, t):
        if op.startswith("i"):
            s, t, op = s.lower(), t.lower(), op[1:]
        return (s in t) if op == "contains" else t.startswith(s) if op == "startswith" else t.endswith(s)

    with db.eng.connect() as conn:
        # ---------------- calibration: LikeMatch vs SQLite's LIKE ... ESCAPE on raw patterns (never a verdict)
        t0 = db.table("texts_cal", texts)
        for p, out in raw:
            got = {r[0] for r in conn.exec_driver_sql("SELECT id FROM texts_cal WHERE t LIKE ? ESCAPE '/'", (p,))}
            ncal += len(texts)
            if got != out["like"]:
                d = sorted(got ^ out["like"])[0]
                chk.machinery("calibration: LikeMatch(%r, %r) = %r in LikeEscape.tla but SQLite says %r"
                              % (p, texts[d - 1], d in out["like"], d in got))

        def replay(table, tx_real, cs, abstract, actual, label):
            """cs: cases from TLC with abstract escape char; actual: the character really configured (None = default '/')"""
            nonlocal evals
            real = actual if actual is not None else "/"
            ecls = _escape_class(actual)
            for s_abs, out in cs:
                s = _tr(s_abs, abstract, real)
                want_esc = _tr(out["esc"], abstract, real)
                special = any(ch in s for ch in ("%", "_", real, "'"))
                for op in OPS:
                    kw = dict(autoescape=True)
                    if actual is not None:
                        kw["escape"] = actual
                    expr = getattr(table.c.t, op)(s, **kw)
                    sig = dict(spec="LikeEscape", action=op, escape=real, escape_class=ecls, config=label)
                    counts[(op, ecls)] = counts.get((op, ecls), 0) + 1
                    # (a) the bound value is the escaped operand, the ESCAPE clause names the character
                    bound = expr.right.value
                    mesc = expr.modifiers.get("escape")
                    if (bound != want_esc or mesc != real) and not (ecls == "cased_letter" and op.startswith("i")):
                        chk.violation(dict(sig, kind="bound_value"),
                                      "%s(%r, autoescape=True%s): bound value %r ESCAPE %r, specification Esc(s) = %r ESCAPE %r"
                                      % (op, s, "" if actual is None else ", escape=%r" % actual, bound, mesc, want_esc, real),
                                      dict(op=op, s=s, escape=actual, bound=bound, expected=want_esc))
                    # (b) rows matched on SQLite = the specification's set = the Python test
                    exp_spec = out[op]
                    exp_py = {i + 1 for i, t in enumerate(tx_real) if pyexpect(op, s, t)}
                    if exp_spec != exp_py and ecls != "cased_letter":
                        chk.machinery("LikeEscape.tla's declarative side disagrees with Python for %s(%r)" % (op, s))
                    for neg in (False, True):
                        e2 = ~expr if neg else expr
                        stmt = sa.select(table.c.id).where(e2)
                        modes = [("bound", lambda: conn.execute(stmt))]
                        if not neg or special:
                            text = str(stmt.compile(db.eng, compile_kwargs={"literal_binds": True}))
                            modes.append(("literal_binds", lambda: conn.exec_driver_sql(text)))
                        for mode, run in modes:
                            try:
                                got = {r[0] for r in run()}
                            except sa.exc.SQLAlchemyError as ex:
                                got = "%s: %s" % (type(ex).__name__, str(ex).splitlines()[0][:100])
                            want = (set(range(1, len(tx_real) + 1)) - exp_py) if neg else exp_py
                            want_spec = (set(range(1, len(tx_real) + 1)) - exp_spec) if neg else exp_spec
                            evals += len(tx_real)
                            if got != want:
                                conforms = got == want_spec
                                if isinstance(got, set):
                                    d = sorted(got ^ want)[0]
                                    detail = "text %r %s but %s" % (tx_real[d - 1], "matched" if d in got else "not matched",
                                                                    "must not be" if d in got else "must be")
                                else:
                                    detail = got
                                chk.violation(dict(sig, kind="match", mode=mode, negated=neg, conforms_to_rendering_model=conforms),
                                              "%s%s(%r, autoescape=True%s) [%s]: %s (Python %s test)"
                                              % ("~" if neg else "", op, s, "" if actual is None else ", escape=%r" % actual, mode, detail,
                                                 op.lstrip("i")),
                                              dict(op=op, s=s, escape=actual, mode=mode, negated=neg,
                                                   got=sorted(got) if isinstance(got, set) else got, expected=sorted(want)))
                            elif got != want_spec and not (ecls == "cased_letter" and op.startswith("i")):
                                # (for a cased escape character the spec models the escape-then-lower() composition, which a fixed
                                #  implementation no longer follows: satisfying the Python test is what the property asks)
                                chk.machinery("SQLite agrees with Python but not with LikeEscape.tla for %s(%r)" % (op, s))
                if special:
                    nontrivial.add((label, s))
                if len(samples) < 8 and special and len(s) >= 2 and len(nontrivial) % 17 == 3:
                    samples.append(dict(config=label, operand=s, bound_value=want_esc, contains_matches=[tx_real[i - 1] for i in sorted(out["contains"])][:8]))

        # ---------------- the operators with non-alphanumeric escape characters (E = "/" is abstract)
        configs = [(None, "default"), ("/", "slash"), ("\\", "backslash"), ("!", "bang"), ("#", "hash")]
        for actual, label in configs:
            real = actual if actual is not None else "/"
            tx_real = [_tr(t, "/", real) for t in texts]
            table = db.table("texts_" + label, tx_real)
            replay(table, tx_real, cases, "/", actual, label)
            # explicit escape= WITHOUT autoescape: the operand is a raw pattern
            if actual is not None:
                for p_abs, out in raw:
                    p = _tr(p_abs, "/", real)
                    for op, meth in (("like", "like"), ("contains", "contains"), ("startswith", "startswith"), ("endswith", "endswith")):
                        expr = getattr(table.c.t, meth)(p, escape=actual)
                        got = {r[0] for r in conn.execute(sa.select(table.c.id).where(expr))}
                        evals += len(tx_real)
                        counts[("raw-" + op, "punctuation")] = counts.get(("raw-" + op, "punctuation"), 0) + 1
                        if got != out[op]:
                            d = sorted(got ^ out[op])[0]
                            chk.violation(dict(spec="LikeEscape", action="raw-" + op, escape=real, escape_class="punctuation", kind="match"),
                                          "%s(%r, escape=%r): text %r %s, LIKE semantics (LikeEscape.tla) say otherwise"
                                          % (meth, p, actual, tx_real[d - 1], "matched" if d in got else "not matched"),
                                          dict(op=op, pattern=p, escape=actual))
        # ---------------- a cased letter as escape character
        for e in ("a", "A"):
            tx, cs = letter[e]
            tx_real = tx
            table = db.table("texts_letter_" + ("lower" if e == "a" else "upper"), tx_real)
            replay(table, tx_real, cs, e, e, "letter-" + e)
    for op in OPS:
        for ecls in ("default", "punctuation", "cased_letter"):
            if not counts.get((op, ecls)):
                chk.machinery("vacuous: %s never run with escape class %s" % (op, ecls))
    return chk.finish(
        dict(states=sum(r.distinct for _, r in runs), transitions=sum(r.generated for _, r in runs),
             traces_validated_against_impl=sum(counts.values()), distinct_nontrivial=len(nontrivial), evaluations=evals,
             calibration_evaluations=ncal, texts=len(texts),
             escape_then_lower_model_refuted_by_tlc_for_cased_escape=spec_counterexample, operands=len(cases), raw_patterns=len(raw), samples=samples,
             tlc_runs=[dict(cfg=n, distinct=r.distinct, generated=r.generated, violated=r.violated, wall_s=round(r.wall, 1)) for n, r in runs],
             exhaustive=True,
             rule="one case per TLC initial state (operand s) holding Esc(s) and the matching texts per operator; replayed for each escape "
                  "configuration x 6 operators x plain/negated x bound/literal_binds; non-trivial = operand contains %, _, the escape "
                  "character or a quote; evaluations = (operand, text) row decisions compared",
             checker_cmd="tlc LikeEscape.tla (Mode ops | calib; E = / | a | A)"),
        assumptions=["SQLite only (PRAGMA case_sensitive_like=ON); ASCII; operands <= %d, texts <= %d characters" % (maxs, maxt),
                     "escape characters / \\ ! # and the default; % and _ as escape characters are excluded (degenerate configuration)",
                     "case folding of the i-variants = SQLite lower() on ASCII"])
