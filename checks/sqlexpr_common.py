"""Shared harness for the SqlExpr.tla bindings (C01, C07, C43).

* `family(chk, name, ...)`   run TLC on specs/SqlExpr.tla for one expression family -> Family(rows, strlits, cases)
* `Node` / `parse(tokens)`   prefix token sequence -> tree
* `Renderer(strlits).r(node)` the harness's own FULLY PARENTHESISED SQLite rendering (every operator node in its own parentheses);
                             expand_in=True writes IN / NOT IN as the explicit OR of equalities (calibration of the IN semantics)
* `Builder(cols).build(node)` the same tree built with the SQLAlchemy expression language
* `make_db(path, rows)`      the SQLite table t(id, a, b, s, u) with exactly the rows of the specification
* `calibrate(...)`           Val (TLC) vs SQLite on the parenthesised text; disagreement = chk.machinery (exit 2)
* `pmap(worker, n)`          fork-parallel replay (only when the number of cases justifies a fork in this sandbox)
"""
import json
import os

from engine import tlc

NULL = 99


class Node:
    __slots__ = ("k", "v", "kids", "pos")

    def __init__(self, k, v, kids, pos):
        self.k, self.v, self.kids, self.pos = k, v, kids, pos

    def __repr__(self):
        if not self.kids:
            return "%s:%s" % (self.k, self.v)
        return "%s%s(%s)" % (self.k, (":%d" % self.v) if self.k in NARY else "", ", ".join(map(repr, self.kids)))

    def walk(self):
        yield self
        for c in self.kids:
            yield from c.walk()

    def depth(self):
        return 0 if not self.kids else 1 + max(c.depth() for c in self.kids)


LEAF = {"col", "lit", "scol", "slit", "true", "false"}
UNARY = {"neg", "not", "isnull", "notnull", "cast", "subq", "sisnull", "snotnull", "del"}
BINARY = {"add", "sub", "mul", "idiv", "mod", "xsub", "xmul", "xadd", "eq", "ne", "lt", "le", "gt", "ge", "and", "or",
          "concat", "like", "nlike", "seq", "sne", "starts", "ends", "contains", "upd", "upds"}
TERNARY = {"between", "nbetween", "case", "qeq", "qne", "qlt", "qle", "qgt", "qge", "upda", "updb"}
NARY = {"in", "notin", "tin", "tnotin"}


def arity(k, v):
    if k in LEAF:
        return 0
    if k in UNARY:
        return 1
    if k in BINARY:
        return 2
    if k in TERNARY:
        return 3
    if k in ("in", "notin"):
        return 1 + v
    if k in ("tin", "tnotin"):
        return 2 + 2 * v
    raise ValueError(k)


def parse(tokens):
    def rec(i):
        t = tokens[i]
        n = arity(t["k"], t["v"])
        kids = []
        j = i + 1
        for _ in range(n):
            c, j = rec(j)
            kids.append(c)
        return Node(t["k"], t["v"], kids, i), j
    node, j = rec(0)
    if j != len(tokens):
        raise ValueError("trailing tokens")
    return node


def pyval(v):
    """spec value -> python value (NULL -> None, character sequence -> str)"""
    if isinstance(v, list):
        if v == ["NULL"]:
            return None
        return "".join(v)
    if v == NULL:
        return None
    return v


def dbval(v):
    """value returned by SQLite / the evaluator -> comparable python value"""
    if v is True:
        return 1
    if v is False:
        return 0
    if isinstance(v, float) and v == int(v):
        return int(v)
    try:
        import decimal
        if isinstance(v, decimal.Decimal) and v == int(v):
            return int(v)
    except Exception:
        pass
    return v


class Case:
    __slots__ = ("tokens", "node", "lo", "x", "sub", "key")

    def __init__(self, o):
        self.tokens = o["e"]
        self.node = parse(self.tokens)
        self.lo = o["lo"]
        self.x = [pyval(v) for v in o["x"]]
        self.sub = [[pyval(v) for v in r] for r in o["sub"]] if o.get("sub") else None
        self.key = repr(self.node)


class Family:
    def __init__(self, name, rows, strlits, cases, result):
        self.name, self.rows, self.strlits, self.cases, self.tlc = name, rows, strlits, cases, result


def family(chk, name, level=None, sample_n=12, emit_sub=False, invariants=("Theorems",), timeout=None, workers=4):
    """Run TLC on one family; a violated theorem is a violation of the SPEC's self-consistency -> machinery."""
    level = (0 if chk.quick else 1) if level is None else level
    cfgt = tlc.cfg(constants=dict(Family=tlc.q(name), Level=level, SampleN=sample_n, EmitSub=emit_sub),
                   invariants=list(invariants))
    # development aid only (never set by ./check users): VERIF_SX_CACHE=<dir> reuses TLC's output for an unchanged spec + cfg
    cdir = os.environ.get("VERIF_SX_CACHE")
    r = None
    if cdir:
        import hashlib
        import pickle
        h = hashlib.sha1((open(os.path.join(tlc.SPECS, "SqlExpr.tla")).read() + cfgt + str(chk.seed)).encode()).hexdigest()[:16]
        cfile = os.path.join(cdir, "%s-%s.pkl" % (name, h))
        if os.path.exists(cfile):
            r = pickle.load(open(cfile, "rb"))
    if r is None:
        r = tlc.run("SqlExpr", cfgt, os.path.join(chk.work, "tlc-" + name), workers=workers,
                    timeout=timeout or (600 if chk.quick else 2400), extra=["-seed", str(chk.seed)], keep_stdout=False)
        if cdir:
            os.makedirs(cdir, exist_ok=True)
            pickle.dump(r, open(cfile, "wb"))
    if r.violated:
        chk.machinery("SqlExpr.tla: theorem %s violated for family %s (specification inconsistent)" % (r.violated, name))
    rows = strlits = None
    cases = []
    for o in r.json:
        if "rows" in o:
            rows = [[pyval(v) for v in row] for row in o["rows"]]
            strlits = [pyval(v) for v in o["strlits"]]
        elif "e" in o:
            cases.append(Case(o))
    r.json = []
    if rows is None or not cases:
        chk.machinery("TLC printed no cases for family " + name)
    if len(cases) != r.distinct:
        chk.machinery("family %s: %d cases printed but %d distinct states" % (name, len(cases), r.distinct))
    cases.sort(key=lambda c: c.key)          # deterministic order independent of TLC's set enumeration
    return Family(name, rows, strlits, cases, r)


def families(chk, names, **kw):
    """several families at once (TLC generates initial states single-threaded, so the runs overlap well)"""
    from concurrent.futures import ThreadPoolExecutor
    names = list(names)
    with ThreadPoolExecutor(max_workers=max(1, min(len(names), tlc.NPROC))) as ex:
        futs = [ex.submit(family, chk, n, **kw) for n in names]
        return [f.result() for f in futs]


_PM = None


def _pm_run(chunk):
    return _PM(chunk)


def pmap(worker, n, nproc=None, per_proc=1):
    """fork-parallel map over range(n): worker(list_of_indices) -> result; results in chunk order.
    The worker must create its own connections (nothing DB-related is shared across the fork).
    per_proc: minimum number of items that justifies one more process (forking is expensive in this sandbox)."""
    import multiprocessing as mp
    global _PM
    nproc = max(1, min(nproc or tlc.NPROC, tlc.NPROC, n, n // per_proc + 1))
    chunks = [list(range(i, n, nproc)) for i in range(nproc)]
    if nproc == 1:
        return [worker(chunks[0])]
    _PM = worker
    with mp.get_context("fork").Pool(nproc) as pool:
        return pool.map(_pm_run, chunks)


# ----------------------------------------------------------------------------- the harness's own rendering
_BINSQL = {"add": "+", "sub": "-", "mul": "*", "idiv": "/", "mod": "%", "xsub": "-", "xmul": "*", "xadd": "+",
           "eq": "=", "ne": "!=", "lt": "<", "le": "<=", "gt": ">", "ge": ">=", "and": "AND", "or": "OR",
           "concat": "||", "like": "LIKE", "nlike": "NOT LIKE", "seq": "=", "sne": "!="}
_QSQL = {"qeq": "=", "qne": "!=", "qlt": "<", "qle": "<=", "qgt": ">", "qge": ">="}
COLS = ["a", "b"]
SCOLS = ["s", "u"]


def sqlstr(s):
    return "NULL" if s is None else "'" + s.replace("'", "''") + "'"


class Renderer:
    """Fully parenthesised rendering. expand_in=True writes IN as the explicit OR of equalities."""

    def __init__(self, strlits, expand_in=False, prefix="t."):
        self.strlits, self.expand_in, self.prefix = strlits, expand_in, prefix

    def r(self, n):
        k, v, K = n.k, n.v, n.kids
        if k == "col":
            return self.prefix + COLS[v]
        if k == "scol":
            return self.prefix + SCOLS[v]
        if k == "lit":
            return "NULL" if v == NULL else ("(%d)" % v if v < 0 else str(v))
        if k == "slit":
            return sqlstr(self.strlits[v - 1])
        if k == "true":
            return "1"
        if k == "false":
            return "0"
        if k == "neg":
            return "(-%s)" % self.r(K[0])
        if k == "not":
            return "(NOT %s)" % self.r(K[0])
        if k in ("isnull", "sisnull"):
            return "(%s IS NULL)" % self.r(K[0])
        if k in ("notnull", "snotnull"):
            return "(%s IS NOT NULL)" % self.r(K[0])
        if k == "cast":
            return "CAST(%s AS INTEGER)" % self.r(K[0])
        if k == "subq":
            return "(SELECT %s)" % self.r(K[0])
        if k in _BINSQL:
            return "(%s %s %s)" % (self.r(K[0]), _BINSQL[k], self.r(K[1]))
        if k == "starts":
            return "(%s LIKE (%s || '%%'))" % (self.r(K[0]), self.r(K[1]))
        if k == "ends":
            return "(%s LIKE ('%%' || %s))" % (self.r(K[0]), self.r(K[1]))
        if k == "contains":
            return "(%s LIKE (('%%' || %s) || '%%'))" % (self.r(K[0]), self.r(K[1]))
        if k == "between":
            return "(%s BETWEEN %s AND %s)" % tuple(self.r(c) for c in K)
        if k == "nbetween":
            return "(%s NOT BETWEEN %s AND %s)" % tuple(self.r(c) for c in K)
        if k == "case":
            return "(CASE WHEN %s THEN %s ELSE %s END)" % tuple(self.r(c) for c in K)
        if k in _QSQL:
            return "((%s / (%s + 0.0)) %s %s)" % (self.r(K[0]), self.r(K[1]), _QSQL[k], self.r(K[2]))
        if k in ("in", "notin"):
            lhs, items = self.r(K[0]), [self.r(c) for c in K[1:]]
            if self.expand_in:
                body = "0" if not items else "(" + " OR ".join("(%s = %s)" % (lhs, i) for i in items) + ")"
                return body if k == "in" else "(NOT %s)" % body
            return "(%s %s (%s))" % (lhs, "IN" if k == "in" else "NOT IN", ", ".join(items))
        if k in ("tin", "tnotin"):
            l1, l2 = self.r(K[0]), self.r(K[1])
            items = [self.r(c) for c in K[2:]]
            pairs = list(zip(items[0::2], items[1::2]))
            if self.expand_in:
                body = "0" if not pairs else "(" + " OR ".join("((%s = %s) AND (%s = %s))" % (l1, p, l2, q) for p, q in pairs) + ")"
                return body if k == "tin" else "(NOT %s)" % body
            rhs = ("VALUES " + ", ".join("(%s, %s)" % pq for pq in pairs)) if pairs else "SELECT 1, 1 WHERE 0"
            return "((%s, %s) %s (%s))" % (l1, l2, "IN" if k == "tin" else "NOT IN", rhs)
        raise ValueError("cannot render " + k)


# ----------------------------------------------------------------------------- the expression language
class Builder:
    """Builds the tree with the public expression language. `cols` maps 'a','b','s','u' to columns / mapped attributes.
    `variant` (int) selects among equivalent spellings (operator vs method form) so that both are exercised."""

    def __init__(self, cols, strlits, table=None, variant=0, conv=None):
        """conv: {column index: int -> python value of that column's type} for IN-list members compared with a typed column
        (C07 typed dimension: the specification's small integers are carried by DateTime / TypeDecorator columns)"""
        self.c, self.strlits, self.table, self.variant, self.conv = cols, strlits, table, variant, conv or {}

    def _conv_of(self, lhs):
        return self.conv.get(lhs.v) if lhs.k == "col" else None

    def items(self, nodes, convs=None):
        """IN-list members: plain python values for literals (-> one expanding parameter), expressions otherwise"""
        out = []
        for i, n in enumerate(nodes):
            f = convs[i % len(convs)] if convs else None
            if n.k == "lit":
                out.append(None if n.v == NULL else (f(n.v) if f else n.v))
            else:
                out.append(self.build(n))
        return out

    def build(self, n):
        import sqlalchemy as sa
        from sqlalchemy import and_, case, cast, false, literal, not_, null, or_, true, tuple_
        k, v, K = n.k, n.v, n.kids
        alt = self.variant % 2 == 1
        if k == "col":
            return self.c[COLS[v]]
        if k == "scol":
            return self.c[SCOLS[v]]
        if k == "lit":
            return null() if v == NULL else literal(v)
        if k == "slit":
            s = self.strlits[v - 1]
            return literal(None, sa.String()) if s is None else literal(s)
        if k == "true":
            return true()
        if k == "false":
            return false()
        if k in ("in", "notin"):
            # a NULL left operand needs a type (an untyped null() has no literal renderer for the list members)
            lhs = literal(None, sa.Integer()) if (K[0].k == "lit" and K[0].v == NULL) else self.build(K[0])
            items = self.items(K[1:], [self._conv_of(K[0])])
            return lhs.in_(items) if k == "in" else lhs.not_in(items)
        if k in ("tin", "tnotin"):
            lhs = tuple_(self.build(K[0]), self.build(K[1]))
            flat = self.items(K[2:], [self._conv_of(K[0]), self._conv_of(K[1])])
            pairs = list(zip(flat[0::2], flat[1::2]))
            return lhs.in_(pairs) if k == "tin" else lhs.not_in(pairs)
        A = [self.build(c) for c in K]
        if k == "neg":
            return -A[0]
        if k == "not":
            return not_(A[0]) if alt else ~A[0]
        if k in ("isnull", "sisnull"):
            return (A[0] == None) if alt else A[0].is_(None)  # noqa: E711
        if k in ("notnull", "snotnull"):
            return (A[0] != None) if alt else A[0].is_not(None)  # noqa: E711
        if k == "cast":
            return cast(A[0], sa.Integer)
        if k == "subq":
            sel = sa.select(A[0])
            if self.table is not None:
                sel = sel.correlate(self.table)
            return sel.scalar_subquery()
        if k == "add":
            return A[0] + A[1]
        if k == "sub":
            return A[0] - A[1]
        if k == "mul":
            return A[0] * A[1]
        if k == "idiv":
            return A[0] // A[1]
        if k == "mod":
            return A[0] % A[1]
        if k == "xsub":
            return A[0].op("-", precedence=7)(A[1])        # op() must be told the precedence of its operator (default 0 = lowest)
        if k == "xmul":
            return A[0].op("*", precedence=8)(A[1])
        if k == "xadd":
            return A[0].op("+", precedence=7)(A[1])
        if k in ("eq", "seq"):
            return A[0] == A[1]
        if k in ("ne", "sne"):
            return A[0] != A[1]
        if k == "lt":
            return A[0] < A[1]
        if k == "le":
            return A[0] <= A[1]
        if k == "gt":
            return A[0] > A[1]
        if k == "ge":
            return A[0] >= A[1]
        if k == "and":
            return (A[0] & A[1]) if alt else and_(A[0], A[1])
        if k == "or":
            return (A[0] | A[1]) if alt else or_(A[0], A[1])
        if k == "concat":
            return A[0].concat(A[1]) if alt else A[0] + A[1]
        if k == "like":
            return A[0].like(A[1])
        if k == "nlike":
            return A[0].not_like(A[1])
        if k == "starts":
            return A[0].startswith(A[1])
        if k == "ends":
            return A[0].endswith(A[1])
        if k == "contains":
            return A[0].contains(A[1])
        if k == "between":
            return A[0].between(A[1], A[2])
        if k == "nbetween":
            return A[0].not_between(A[1], A[2]) if hasattr(A[0], "not_between") and not alt else ~A[0].between(A[1], A[2])
        if k == "case":
            return case((A[0], A[1]), else_=A[2])
        if k in _QSQL:
            q = A[0] / A[1]
            return {"qeq": q == A[2], "qne": q != A[2], "qlt": q < A[2], "qle": q <= A[2], "qgt": q > A[2], "qge": q >= A[2]}[k]
        raise ValueError("cannot build " + k)


# ----------------------------------------------------------------------------- database
def make_db(path, rows, **kw):
    """t(id, a, b, s, u) with id = 1-based index of the row in the specification's AllRows."""
    import sqlalchemy as sa
    if os.path.exists(path):
        os.unlink(path)
    eng = sa.create_engine("sqlite:///" + path, **kw)
    md = sa.MetaData()
    t = sa.Table("t", md, sa.Column("id", sa.Integer, primary_key=True), sa.Column("a", sa.Integer), sa.Column("b", sa.Integer),
                 sa.Column("s", sa.String), sa.Column("u", sa.String))
    md.create_all(eng)
    with eng.begin() as conn:
        conn.execute(t.insert(), [dict(id=i + 1, a=r[0], b=r[1], s=r[2], u=r[3]) for i, r in enumerate(rows)])
    return eng, t


def run_text(conn, expr_sql, lo, hi):
    """values of a SQL text expression on rows lo..hi (driver level, no SQLAlchemy compilation involved)"""
    cur = conn.exec_driver_sql("SELECT %s FROM t WHERE t.id BETWEEN %d AND %d ORDER BY t.id" % (expr_sql, lo, hi))
    return [dbval(r[0]) for r in cur.fetchall()]


def calibrate(chk, fam, conn, label, expand_in=False, limit=None):
    """Eval (TLC) vs SQLite on the fully parenthesised rendering; a disagreement means the SPEC is wrong -> exit 2."""
    rd = Renderer(fam.strlits, expand_in=expand_in)
    n = 0
    for c in fam.cases[:limit]:
        sql = rd.r(c.node)
        got = run_text(conn, sql, c.lo, c.lo + len(c.x) - 1)
        n += len(got)
        if got != c.x:
            i = next(i for i in range(len(got)) if got[i] != c.x[i])
            chk.machinery("calibration (%s): SqlExpr.tla disagrees with SQLite on %s at row %r: spec %r, SQLite %r"
                          % (label, sql, fam.rows[c.lo - 1 + i], c.x[i], got[i]))
    return n


def dump(o):
    return json.dumps(o, sort_keys=True, default=str)
