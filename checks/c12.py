"""C12 bulk INSERT .. RETURNING: one row per parameter set, in parameter order - InsertMany.tla (DESIGN 3.14, 4 C12).

TLC explores InsertMany.tla exhaustively: every (row count, page size, sentinel style, sort flag, RETURNING flag) and, for
every page the mechanism sends, EVERY order in which the database may hand the page's RETURNING rows back; the
invariants state the property without mentioning pages or sentinels.  Binding (spec -> code): every maximal path of the
dumped state graph (= one behaviour: pages + one permutation per page) is executed on real SQLite through a DBAPI cursor
that permutes fetchall() exactly as TLC chose; after every statement the page really sent and the table contents are
compared with the Exec edge / the spec's table, at the end the delivered rows (Core returning(), Core return_defaults() ->
inserted_primary_key_rows / returned_defaults_rows, ORM bulk insert returning entities, ORM unit-of-work flush -> object
primary keys) with the spec's result, under all six paramstyles.
"""
import json
import multiprocessing as mp
import random
import uuid
import warnings

from engine import graph, tlc
from checks import insertmany_common as C

LEVEL = "model_checking"
MANIFEST = dict(
    text="InsertMany.tla models one executemany INSERT as pages sent to a database that stores each page and returns its RETURNING rows in ANY order (TLC chooses every permutation of every page), with the engine's mechanism on top: page cutting, downgrade to one statement per row when ordering is requested without a usable sentinel, client-side sentinel lookup (Uuid default, composite primary key, insert_sentinel counter) or sort on the server key (implicit sentinel, with and without the embedded VALUES counter). TLC checks exhaustively (0..5 parameter sets x page size 1..3 in the quick tier, 0..7 x 1..4 thorough, x 7 sentinel styles x sort/returning flags) that every parameter set is stored exactly once, one row per set is returned, and with sort_by_parameter_order the n-th row and primary key belong to the n-th parameter set for every permutation. Every behaviour of the graph is then executed on SQLite through a cursor that permutes fetchall() as TLC chose, comparing every page sent, the table after every statement and the delivered rows / inserted_primary_key_rows / ORM object keys, for Core returning(), return_defaults(), ORM bulk INSERT and ORM flush under six paramstyles; the batches the PostgreSQL, MariaDB and SQL Server dialects would send are checked for shape (pages, VALUES counter, parameter placement).",
    design_ref="3.14 (InsertMany), 4 (C12), 6 row 'C01, C12'",
    note="trusted: TLC; the permuting cursor as model of a database that returns RETURNING rows in arbitrary order; SQLite stores VALUES tuples in order (the implicit-sentinel assumption is forced onto the SQLite dialect by setting insertmanyvalues_implicit_sentinel=AUTOINCREMENT); the INSERT..SELECT..ORDER BY sen_counter form of PostgreSQL / SQL Server is executed on SQLite through the alias-rewriting cursor (style 'counter') and checked for shape on the real PostgreSQL / SQL Server / MariaDB dialects (counter i on the i-th VALUES tuple, parameters in order), never executed on those servers; non-native paramstyles run through a placeholder-translating cursor",
    technique="TLA+ spec (InsertMany.tla) + TLC exhaustive model checking; spec->code replay of every behaviour of the state graph through a permuting DBAPI cursor on SQLite")
INVS = ["ExactlyOnce", "KeysUnique", "SentinelsUnique", "OneRowPerSet", "InOrder", "PkBelongs", "PagesOK"]
PROPS = ["DeliversPage"]
STYLES = ["auto", "implicit", "counter", "uuid", "composite", "explicit", "none"]
APIS = ["core_returning", "core_return_defaults", "orm_bulk", "orm_flush"]

_ENV = None


class Env:
    """tables, mapped classes and engines of one worker process"""

    def __init__(self):
        from sqlalchemy import BigInteger, Column, Integer, MetaData, String, Uuid, text
        from sqlalchemy.orm import registry
        from sqlalchemy.schema import insert_sentinel
        from sqlalchemy import Table
        self.keys = K = C.Keys()
        md = self.md = MetaData()
        sd = dict(server_default=text("7"))
        self.tables = {
            "auto": Table("imv_auto", md, Column("id", Integer, primary_key=True), Column("d", String), Column("x", Integer, **sd)),
            "uuid": Table("imv_uuid", md, Column("id", Uuid, primary_key=True, default=K.uuid_default), Column("d", String),
                          Column("x", Integer, **sd)),
            "composite": Table("imv_comp", md, Column("a", Integer, primary_key=True, autoincrement=False, default=K.a_default),
                               Column("b", Uuid, primary_key=True, default=K.b_default), Column("d", String), Column("x", Integer, **sd)),
            "explicit": Table("imv_sent", md, Column("id", Integer, primary_key=True), Column("d", String), Column("x", Integer, **sd),
                              insert_sentinel("sen")),
            "none": Table("imv_none", md, Column("id", BigInteger, primary_key=True, autoincrement=False,
                                                 server_default=text("(nextkey())")), Column("d", String), Column("x", Integer, **sd)),
        }
        self.tables["implicit"] = self.tables["counter"] = self.tables["auto"]
        reg = registry()
        self.classes = {}
        for style, t in self.tables.items():
            if style in ("implicit", "counter"):
                continue
            cls = type("M_" + style, (object,), {})
            reg.map_imperatively(cls, t)
            self.classes[style] = cls
        self.classes["implicit"] = self.classes["counter"] = self.classes["auto"]
        self.engines = {}

    def engine(self, implicit, paramstyle):
        key = (implicit, paramstyle)
        if key not in self.engines:
            from sqlalchemy import create_engine
            from sqlalchemy.pool import StaticPool
            from sqlalchemy.sql.compiler import InsertmanyvaluesSentinelOpts
            script = C.Script()
            script.active = False
            e = create_engine("sqlite://", creator=C.make_creator(script, paramstyle), poolclass=StaticPool, paramstyle=paramstyle)
            if implicit == "implicit":
                e.dialect.insertmanyvalues_implicit_sentinel = InsertmanyvaluesSentinelOpts.AUTOINCREMENT
            elif implicit == "counter":
                e.dialect.insertmanyvalues_implicit_sentinel = (InsertmanyvaluesSentinelOpts.AUTOINCREMENT
                                                                | InsertmanyvaluesSentinelOpts.USE_INSERT_FROM_SELECT)
            self.md.create_all(e)
            self.engines[key] = (e, script)
        return self.engines[key]

    def pk_to_spec(self, style, *vals):
        if style == "uuid":
            return C.UUID_BACK[vals[0] if isinstance(vals[0], uuid.UUID) else uuid.UUID(vals[0])]
        if style == "composite":
            b = vals[1] if isinstance(vals[1], uuid.UUID) else uuid.UUID(vals[1])
            return vals[0] * 100 + C.UUID_BACK[b]
        return vals[0]


class _RowCap(int):
    """stands for insertmanyvalues_max_parameters: truthy, and (cap - outside) // per_row == rows"""
    def __new__(cls, rows):
        o = int.__new__(cls, 1 << 20)
        o.rows = rows
        return o

    def __sub__(self, other):
        return self

    def __floordiv__(self, other):
        return self.rows


def env():
    global _ENV
    if _ENV is None:
        _ENV = Env()
    return _ENV


def run_behaviour(beh, api, paramstyle):
    """beh: dict(cfg=init state, steps=[act...], final=state).  Returns list of mismatch strings."""
    from sqlalchemy import insert, select
    from sqlalchemy.orm import Session
    E = env()
    cfg = beh["cfg"]
    n, page, style, sort, ret = cfg["n"], cfg["page"], cfg["style"], cfg["sort"], cfg["ret"]
    t = E.tables[style]
    cls = E.classes[style]
    eng, script = E.engine(style if style in ("implicit", "counter") else "", paramstyle)
    pkcols = list(t.primary_key.columns)
    pknames = ", ".join(c.name for c in pkcols)
    execs = [a for a in beh["steps"] if a["a"] == "Exec"]
    fetches = [a for a in beh["steps"] if a["a"] == "Fetch"]
    perms = [[j - 1 for j in f["perm"]] for f in fetches]
    params = [{"d": "d%d" % i} for i in range(1, n + 1)]
    opts = {"insertmanyvalues_page_size": page}
    mism = []
    # dialect.insertmanyvalues_max_parameters (SQL Server: 2099, SQLite: 32766) shrinks the page so that a statement never has more
    # bound parameters than that; expressed here as "rows allowed per statement" through an int that answers
    # (max_params - outside) // per_row with cfg["cap"], so the shrink bites at the spec's small scale
    saved_max = eng.dialect.insertmanyvalues_max_parameters
    if cfg.get("cap"):
        eng.dialect.insertmanyvalues_max_parameters = _RowCap(cfg["cap"])
    E.keys.reset()
    script.begin(perms, "SELECT %s, d FROM %s ORDER BY rowid" % (pknames, t.name))
    got = None
    try:
        with warnings.catch_warnings():
            warnings.simplefilter("ignore")
            if api in ("core_returning", "core_return_defaults"):
                with eng.connect() as conn:
                    stmt = insert(t)
                    if api == "core_returning":
                        if ret:
                            stmt = stmt.returning(*pkcols, t.c.d, sort_by_parameter_order=sort)
                        res = conn.execute(stmt, params, execution_options=opts)
                        if ret:
                            got = [(C.d_index(r[-1]), E.pk_to_spec(style, *r[:-1])) for r in res.all()]
                    else:
                        stmt = stmt.return_defaults(sort_by_parameter_order=sort)
                        res = conn.execute(stmt, params, execution_options=opts)
                        ipk = res.inserted_primary_key_rows
                        rdr = res.returned_defaults_rows
                        script.active = False
                        tab = {E.pk_to_spec(style, *r[:-1]): C.d_index(r[-1]) for r in conn.execute(select(*pkcols, t.c.d)).all()}
                        got = []
                        for k, r in enumerate(ipk):
                            pk = E.pk_to_spec(style, *r)
                            got.append((tab.get(pk, -1), pk))
                            if rdr is not None:
                                rd = rdr[k]._mapping
                                if rd["x"] != 7:
                                    mism.append("returned_defaults_rows[%d].x = %r, stored 7" % (k, rd["x"]))
                                for c in pkcols:
                                    if c.name in rd and rd[c.name] != r._mapping[c.name]:
                                        mism.append("returned_defaults_rows[%d].%s = %r but inserted_primary_key_rows has %r"
                                                    % (k, c.name, rd[c.name], r._mapping[c.name]))
                    script.active = False
                    conn.rollback()
            elif api == "orm_bulk":
                with Session(eng) as s:
                    stmt = insert(cls)
                    if ret:
                        stmt = stmt.returning(cls, sort_by_parameter_order=sort)
                    res = s.execute(stmt, params, execution_options=opts)
                    if ret:
                        objs = res.scalars().all()
                        got = [(C.d_index(o.d), E.pk_to_spec(style, *[getattr(o, c.name) for c in pkcols])) for o in objs]
                        for o in objs:
                            if o.x != 7:
                                mism.append("ORM bulk: returned entity for d=%r has x=%r, stored 7" % (o.d, o.x))
                    script.active = False
                    s.rollback()
            elif api == "orm_flush":
                with Session(eng) as s:
                    s.connection(execution_options=opts)
                    objs = [cls() for _ in range(n)]
                    for i, o in enumerate(objs):
                        o.d = "d%d" % (i + 1)
                    s.add_all(objs)
                    s.flush()
                    got = [(C.d_index(o.d), E.pk_to_spec(style, *[getattr(o, c.name) for c in pkcols])) for o in objs]
                    script.active = False
                    s.rollback()
    except Exception as ex:  # the property never predicts an exception
        script.active = False
        import traceback
        return ["%s raised %s: %s\n%s" % (api, type(ex).__name__, str(ex)[:300], traceback.format_exc()[-800:])], None
    finally:
        script.active = False
        eng.dialect.insertmanyvalues_max_parameters = saved_max
    mism.extend(script.errors)
    # ---- every step: pages sent, table after each statement
    ins = script.inserts()
    sent = [C.batch_of(e) for e in ins]
    want = [[i for i in a["batch"] if i != 0] for a in execs]
    if sent != want:
        mism.append("pages sent %r, InsertMany.tla Exec edges %r" % (sent, want))
    else:
        table = []
        for k, (e, a) in enumerate(zip(ins, execs)):
            if bool(e["many"]) != bool(a["many"]):
                mism.append("statement %d: cursor.executemany=%r, spec %r" % (k, e["many"], a["many"]))
            snap = [(C.d_index(r[-1]), E.pk_to_spec(style, *r[:-1])) for r in e["snap"]]
            table = beh["tables"][k]
            if snap != table:
                mism.append("table after statement %d is %r, spec %r" % (k, snap, table))
            if e["returning"] and e["nret"] is not None and e["nret"] != len(a["batch"]):
                mism.append("statement %d returned %d rows for %d parameter sets" % (k, e["nret"], len(a["batch"])))
    # ---- delivered rows
    final = beh["final"]
    if ret:
        want_res = [tuple(r) for r in final["result"]]
        if api == "core_return_defaults" and not sort:
            # inserted_primary_key_rows of client-side keys come from the parameters: without sort_by_parameter_order only
            # "one row per parameter set" is promised
            if sorted(got) != sorted(want_res):
                mism.append("delivered rows %r are not a rearrangement of the spec result %r" % (got, want_res))
        elif got != want_res:
            mism.append("delivered rows %r, spec result %r" % (got, want_res))
    return mism, got


def behaviours(g, cap, rng):
    """every maximal path of the state graph, as dict(cfg, steps, tables, final); beyond `cap` paths per initial state: sampled"""
    out = []
    for ik in g.inits:
        paths = []
        stack = [(ik, [])]
        while stack:
            sk, path = stack.pop()
            outs = g.out[sk]
            if not outs:
                paths.append(path)
                continue
            for ei in outs:
                stack.append((g.edges[ei][2], path + [ei]))
            if len(paths) + len(stack) > 50 * cap:
                break
        if len(paths) > cap:
            paths = rng.sample(paths, cap)
        for p in paths:
            steps = [g.edges[ei][1] for ei in p]
            tables = [[(r["p"], r["pk"]) for r in g.states[g.edges[ei][2]]["table"]] for ei in p if g.edges[ei][1]["a"] == "Exec"]
            fin = g.states[g.edges[p[-1]][2]]
            out.append(dict(cfg=g.states[ik], steps=steps, tables=tables, edges=p,
                            final=dict(result=[(r["p"], r["pk"]) for r in fin["result"]],
                                       table=[(r["p"], r["pk"]) for r in fin["table"]])))
    return out


def apis_for(cfg):
    out = ["core_returning", "orm_bulk"]
    if cfg["ret"]:
        out.append("core_return_defaults")
        if cfg["sort"] and cfg["n"] >= 1:
            out.append("orm_flush")
    return out


_BEHS = None


def _work(args):
    wid, idxs, paramstyles = args
    res = []
    for bi in idxs:
        beh = _BEHS[bi]
        for api in apis_for(beh["cfg"]):
            for ps in paramstyles(bi, api):
                m, got = run_behaviour(beh, api, ps)
                res.append((bi, api, ps, m))
    return res


def _values_tuples(sql):
    """contents of the VALUES tuples of a statement (balanced parentheses: pyformat placeholders contain some)"""
    pos = sql.index("VALUES ") + 7
    out = []
    while pos < len(sql) and sql[pos] == "(":
        depth, j = 0, pos
        while True:
            if sql[j] == "(":
                depth += 1
            elif sql[j] == ")":
                depth -= 1
                if depth == 0:
                    break
            j += 1
        body = sql[pos + 1:j]
        items, d0, cur = [], 0, ""
        for ch in body:
            if ch == "(":
                d0 += 1
            elif ch == ")":
                d0 -= 1
            if ch == "," and d0 == 0:
                items.append(cur.strip())
                cur = ""
            else:
                cur += ch
        items.append(cur.strip())
        out.append(items)
        pos = j + 1
        if sql[pos:pos + 2] == ", ":
            pos += 2
        else:
            break
    return out


def pg_shape(chk, rng, maxn, maxpage):
    """PostgreSQL / MariaDB / SQL Server batching is not executable here: check the SHAPE of what
    SQLCompiler._deliver_insertmanyvalues_batches produces against the spec's pages (PagesOK): page k holds the parameter sets
    k*page+1 .. in order, the i-th VALUES tuple is bound to the values of the i-th set of the page and - where the dialect
    orders by an embedded counter (INSERT .. SELECT .. FROM (VALUES ..) ORDER BY sen_counter) - carries the literal i."""
    import re
    from sqlalchemy import Column, Integer, MetaData, String, Table, insert
    from sqlalchemy.dialects import mssql, postgresql
    from sqlalchemy.dialects.mysql import mariadbconnector
    md = MetaData()
    t = Table("pgt", md, Column("id", Integer, primary_key=True), Column("d", String), Column("e", Integer))
    mdb = mariadbconnector.dialect()
    mdb.is_mariadb = True
    mdb.server_version_info = (10, 6, 0)
    dialects = [("postgresql+psycopg2", postgresql.psycopg2.dialect(), True), ("postgresql+asyncpg", postgresql.asyncpg.dialect(), True),
                ("postgresql+psycopg", postgresql.psycopg.dialect(), True), ("mariadb", mdb, False), ("mssql+pyodbc", mssql.pyodbc.dialect(), True)]
    n_cases = 0
    for name, dialect, counter in dialects:
        sig0 = {"spec": "InsertMany", "action": "Shape", "kind": "conformance", "dialect": name}
        try:
            stmt = insert(t).returning(t.c.id, t.c.d, sort_by_parameter_order=True)
            comp = stmt.compile(dialect=dialect, column_keys=["d", "e"], for_executemany=True)
        except Exception as ex:
            chk.machinery("cannot compile the insertmanyvalues statement for %s: %r" % (name, ex))
        imv = comp._insertmanyvalues
        if imv is None or not imv.implicit_sentinel or imv.num_sentinel_columns != 1:
            chk.violation(sig0, "%s: autoincrement primary key is not used as implicit sentinel: %s" % (name, comp.string))
            continue
        if bool(imv.embed_values_counter) != counter:
            chk.violation(sig0, "%s: embed_values_counter=%r, expected %r: %s" % (name, imv.embed_values_counter, counter, comp.string))
        if counter and "ORDER BY sen_counter" not in comp.string:
            chk.violation(sig0, "%s: statement embeds a counter but does not order by it: %s" % (name, comp.string))
        for n in range(2, maxn + 1):
            for page in range(1, maxpage + 1):
                vals = [{"d": "d%d" % i, "e": 1000 + i} for i in range(1, n + 1)]
                cparams = [comp.construct_params(v, escape_names=False, _group_number=i) for i, v in enumerate(vals)]
                if comp.positional:
                    dparams = [tuple(cp[k] for k in comp.positiontup) for cp in cparams]
                else:
                    dparams = [dict(cp) for cp in cparams]
                want_pages = [list(range(s, min(s + page, n + 1))) for s in range(1, n + 1, page)]
                sig = dict(sig0, n=n, page=page)
                try:
                    batches = list(comp._deliver_insertmanyvalues_batches(comp.string, dparams, cparams, None, page, True, None))
                except Exception as ex:
                    chk.violation(sig, "%s: _deliver_insertmanyvalues_batches raised %r" % (name, ex))
                    continue
                n_cases += 1
                got_pages = []
                for b in batches:
                    sql, rp = b.replaced_statement, b.replaced_parameters
                    pos = 0
                    pg = []
                    for i, items in enumerate(_values_tuples(sql)):
                        if imv.embed_values_counter:
                            if items[-1] != str(i):
                                chk.violation(sig, "%s n=%d page=%d: VALUES tuple %d carries counter %r: %s" % (name, n, page, i, items[-1], sql))
                            items = items[:-1]
                        vals_i = []
                        for it in items:
                            if comp.positional:
                                mm = re.match(r"[$:](\d+)", it)
                                vals_i.append(rp[int(mm.group(1)) - 1] if mm else rp[pos])
                                pos += 1
                            else:
                                mm = re.search(r"%\((\w+)\)s|:(\w+)", it)
                                vals_i.append(rp[mm.group(1) or mm.group(2)])
                        ds = [v for v in vals_i if isinstance(v, str)]
                        es = [v for v in vals_i if isinstance(v, int)]
                        if len(ds) != 1 or len(es) != 1 or es[0] != 1000 + int(ds[0][1:]):
                            chk.violation(sig, "%s n=%d page=%d: VALUES tuple %d mixes parameter sets: %r (%s)" % (name, n, page, i, vals_i, sql))
                            pg.append(-1)
                        else:
                            pg.append(int(ds[0][1:]))
                    got_pages.append(pg)
                    if list(b.sentinel_values):
                        chk.violation(sig, "%s: implicit sentinel statement remembers client-side sentinel values %r" % (name, b.sentinel_values))
                    if b.is_downgraded:
                        chk.violation(sig, "%s: implicit sentinel statement is downgraded to row-at-a-time" % name)
                if got_pages != want_pages:
                    chk.violation(sig, "%s n=%d page=%d: pages %r, InsertMany.tla pages %r" % (name, n, page, got_pages, want_pages))
    return n_cases


def main(chk):
    global _BEHS
    rng = random.Random(chk.seed)
    q = tlc.q
    if chk.quick:
        consts = dict(MaxN=5, MaxPage=3, Caps={0, 1, 2})
        cap = 400
    else:
        consts = dict(MaxN=7, MaxPage=4, Caps={0, 1, 2, 3})
        cap = 3000
    consts.update(Styles={q(s) for s in STYLES}, Sorts={True, False}, Rets={True, False})
    cfgt = tlc.cfg(constants=consts, init="InitEmit", invariants=INVS, properties=PROPS, view="View", action_constraints=["Emit"])
    g = graph.dump("InsertMany", cfgt, chk.work, timeout=2400)
    r = g.tlc
    if r.violated:
        chk.violation({"spec": "InsertMany", "action": "TLC", "invariant": r.violated}, "TLC: %s violated in InsertMany.tla" % r.violated)
    behs = behaviours(g, cap, rng)
    _BEHS = behs
    covered = set()
    for b in behs:
        covered.update(b["edges"])
    if len(covered) != len(g.edges):
        chk.machinery("behaviour enumeration covers %d of %d edges" % (len(covered), len(g.edges)))
    # paramstyle schedule: every behaviour with qmark; the other five styles rotate over behaviours (seeded)
    others = [p for p in C.PARAMSTYLES if p != "qmark"]
    offs = rng.randrange(len(others))
    n_extra = 1 if chk.quick else 2

    def paramstyles(bi, api):
        k = (bi + offs + APIS.index(api)) % len(others)
        return ["qmark"] + [others[(k + j) % len(others)] for j in range(n_extra)]

    nproc = max(1, min(tlc.NPROC, 16, len(behs)))
    chunks = [list(range(i, len(behs), nproc)) for i in range(nproc)]
    if nproc == 1:
        results = [_work((0, chunks[0], paramstyles))]
    else:
        ctx = mp.get_context("fork")
        global _PS
        _PS = paramstyles
        with ctx.Pool(nproc) as pool:
            results = pool.map(_work_ps, [(i, chunks[i]) for i in range(nproc)])
    runs = 0
    cov = {}
    nontriv = set()
    for res in results:
        for bi, api, ps, m in res:
            runs += 1
            beh = behs[bi]
            cfg = beh["cfg"]
            cov[api] = cov.get(api, 0) + 1
            cov["paramstyle_" + ps] = cov.get("paramstyle_" + ps, 0) + 1
            for text in m:
                chk.violation({"spec": "InsertMany", "action": "Behaviour", "kind": "conformance", "api": api, "style": cfg["style"],
                               "sort": cfg["sort"], "ret": cfg["ret"], "n": cfg["n"], "page": cfg["page"], "paramstyle": ps},
                              "real engine diverges from InsertMany.tla (%s, style=%s, sort=%s, n=%d, page=%d, %s): %s"
                              % (api, cfg["style"], cfg["sort"], cfg["n"], cfg["page"], ps, text),
                              dict(cfg=cfg, steps=beh["steps"], final=beh["final"], api=api, paramstyle=ps, mismatch=text))
    for bi, beh in enumerate(behs):
        if any(a["a"] == "Fetch" and list(a["perm"]) != sorted(a["perm"]) for a in beh["steps"]):
            nontriv.add(bi)
    # vacuity: every style, both sort values, a sentinel lookup that has to undo a permutation, a downgrade, a plain executemany
    acts = {}
    for e in g.edges:
        s0 = g.states[e[0]]
        key = "%s/%s/%s" % (e[1]["a"], s0["style"], "sort" if s0["sort"] else ("ret" if s0["ret"] else "noret"))
        acts[key] = acts.get(key, 0) + 1
        if e[1]["a"] == "Fetch" and list(e[1]["perm"]) != sorted(e[1]["perm"]):
            k2 = "permuted/%s/%s" % (s0["style"], "sort" if s0["sort"] else "ret")
            acts[k2] = acts.get(k2, 0) + 1
        if e[1]["a"] == "Exec" and e[1]["many"]:
            acts["plainmany"] = acts.get("plainmany", 0) + 1
    for s in STYLES:
        for k in ("Exec/%s/sort", "Fetch/%s/sort", "Exec/%s/ret", "Fetch/%s/ret", "Exec/%s/noret", "permuted/%s/ret"):
            if not acts.get(k % s):
                chk.machinery("vacuous: no edge %s" % (k % s))
    for s in ("implicit", "counter", "uuid", "composite", "explicit"):
        if not acts.get("permuted/%s/sort" % s):
            chk.machinery("vacuous: no permuted page under sort_by_parameter_order for style %s" % s)
    if not acts.get("plainmany"):
        chk.machinery("vacuous: no plain executemany edge")
    shape_cases = pg_shape(chk, rng, consts["MaxN"], consts["MaxPage"])
    samples = []
    for bi in sorted(nontriv)[:: max(1, len(nontriv) // 4)][:4]:
        b = behs[bi]
        samples.append(dict(cfg={k: b["cfg"][k] for k in ("n", "page", "style", "sort", "ret")},
                            steps=["%s%s%s" % (a["a"], a["batch"], "/perm%s" % a["perm"] if a["a"] == "Fetch" else "") for a in b["steps"]],
                            result=b["final"]["result"]))
    return chk.finish(
        dict(states=r.distinct, transitions=r.generated, traces_validated_against_impl=runs, distinct_nontrivial=len(nontriv),
             evaluations=runs, behaviours=len(behs), edges=len(g.edges), inits=len(g.inits), api_runs=cov, edge_classes=len(acts),
             pg_mysql_mssql_shape_cases=shape_cases, samples=samples, exhaustive=True,
             rule="one case = one maximal path of InsertMany.tla's state graph (configuration + one permutation per page), executed once "
                  "per API variant and paramstyle; non-trivial = at least one page comes back in a non-identity permutation",
             checker_cmd="tlc InsertMany.tla (VIEW View, ACTION_CONSTRAINT Emit)", constants={k: v for k, v in consts.items() if isinstance(v, int)}),
        assumptions=["SQLite only executes; the database adversary is the permuting cursor",
                     "implicit sentinel executed by forcing the dialect flag on SQLite (keys handed out in VALUES order: true for SQLite, assumed for MariaDB)",
                     "PostgreSQL / SQL Server statement form executed on SQLite via the alias-rewriting cursor; on the real dialects: shape of the batched statements only",
                     "upsert clauses under sort_by_parameter_order are covered by C56 (Upsert.tla)"])


_PS = None


def _work_ps(args):
    wid, idxs = args
    return _work((wid, idxs, _PS))
