"""C15 reflection reproduces the schema that was created (SQLite clause) - Reflect.tla.

TLC: every table definition of a bounded family (Mode col | pk | fk1 | fk2 | uq | ix | all | self | lit) is an initial state; Reflect.tla
defines Norm(d) = what reflection is REQUIRED to give back and checks Preserved(d, Norm(d)) (the property's list, declaratively),
Recreate (Norm(Norm(d)) = Norm(d)) and WellNorm, and prints one case per state.
Binding (spec -> code), for every printed case on a fresh in-memory SQLite database (optionally inside an ATTACHed schema):
  build the real Table objects -> create_all -> (a) inspect(): get_columns / get_pk_constraint / get_foreign_keys /
  get_unique_constraints / get_indexes and (b) Table(name, MetaData(), autoload_with=...) are each projected to the abstract record
  and must EQUAL the spec's Norm(d) (and the types' _type_affinity the spec's Aff) -> drop -> create_all FROM THE REFLECTED Table
  objects -> both reflections again must EQUAL the first ones.
"""
import random

from engine import tlc

LEVEL = "model_checking"
MANIFEST = dict(
    text="Reflect.tla states, for an abstract table definition (1-3 columns over 21 generic/native types x nullability x 18 server "
         "defaults, every ordered primary key incl. the rowid alias, named/unnamed single and composite foreign keys with all 6x6 "
         "ON DELETE/ON UPDATE actions, named/unnamed unique constraints, unique and plain indexes, plain / delimited / reserved / "
         "mixed-case / regex-keyword names, main or ATTACHed schema), what SQLite reflection must give back (Norm) and TLC checks "
         "on every definition of the family that Norm preserves the property's list and is idempotent. Every enumerated definition "
         "is created on SQLite, reflected through the Inspector and through Table(autoload_with=), compared with Norm, dropped, "
         "re-created from the reflected Table objects and reflected again (must be identical).",
    design_ref="5 (C15, revised: claimed for the SQLite clause), 0.3",
    note="trusted: TLC, SQLite 3.40 as the backend; PostgreSQL / MariaDB clauses cannot execute here (bound); comments are not "
         "supported by SQLite; CHECK constraints, computed columns, partial / expression indexes, DEFERRABLE, views not enumerated; "
         "names containing a double quote or $ are C06's (known finding C06-sqlite-reflect-constraint-names)",
    technique="TLA+ spec (Reflect.tla) + TLC exhaustive enumeration of the bounded definition family; spec->code replay of every "
              "enumerated case against SQLite (create, reflect two ways, re-create from the reflection, reflect again)")

MODES = ("col", "pk", "fk1", "fk2", "uq", "ix", "all", "self", "lit")


# ----------------------------------------------------------------------------------------------- building real objects
def _types():
    import sqlalchemy as sa
    return {
        "Integer": sa.Integer, "BigInteger": sa.BigInteger, "SmallInteger": sa.SmallInteger, "String5": lambda: sa.String(5),
        "String": sa.String, "Unicode7": lambda: sa.Unicode(7), "Text": sa.Text, "Numeric10_2": lambda: sa.Numeric(10, 2),
        "Numeric": sa.Numeric, "Boolean": sa.Boolean, "Float": sa.Float, "Double": sa.Double, "DateTime": sa.DateTime,
        "Date": sa.Date, "Time": sa.Time, "LargeBinary": sa.LargeBinary, "JSON": sa.JSON,
        "INTEGER": sa.INTEGER, "BIGINT": sa.BIGINT, "SMALLINT": sa.SMALLINT, "VARCHAR5": lambda: sa.VARCHAR(5), "VARCHAR": sa.VARCHAR,
        "VARCHAR7": lambda: sa.VARCHAR(7), "TEXT": sa.TEXT, "NUMERIC10_2": lambda: sa.NUMERIC(10, 2), "NUMERIC": sa.NUMERIC,
        "BOOLEAN": sa.BOOLEAN, "FLOAT": sa.FLOAT, "DOUBLE": sa.DOUBLE, "DATETIME": sa.DATETIME, "DATE": sa.DATE, "TIME": sa.TIME,
        "BLOB": sa.BLOB, "JSON_": sa.JSON, "CHAR3": lambda: sa.CHAR(3), "DECIMAL8_3": lambda: sa.DECIMAL(8, 3), "REAL": sa.REAL,
    }


def _type_token(t):
    """reflected type object -> the spec's Native token"""
    n = type(t).__name__
    ln = getattr(t, "length", None)
    pr, sc = getattr(t, "precision", None), getattr(t, "scale", None)
    if n in ("VARCHAR", "CHAR"):
        return n + (str(ln) if ln is not None else "")
    if n in ("NUMERIC", "DECIMAL"):
        return n + ("%s_%s" % (pr, sc) if pr is not None or sc is not None else "")
    if n in ("FLOAT", "DOUBLE", "REAL") and pr is not None:
        return "%s(%s)" % (n, pr)
    if n == "JSON":
        return "JSON_"
    return n


def _type_args(t):
    n = type(t).__name__
    if n in ("VARCHAR", "CHAR"):
        return [t.length] if t.length is not None else []
    if n in ("NUMERIC", "DECIMAL"):
        return [x for x in (t.precision, t.scale) if x is not None]
    return []


def build(d, md):
    """the real Table objects for definition d (child + the fixed parent of its pstyle)"""
    import sqlalchemy as sa
    T = _types()
    schema = d["schema"] or None
    par = d["parent"]
    pc = par["cols"]
    sa.Table(par["name"], md, sa.Column(pc[0], sa.Integer, primary_key=True), sa.Column(pc[1], sa.Integer),
             sa.Column(pc[2], sa.String(5)), sa.UniqueConstraint(pc[1], pc[2]), schema=schema)
    items = []
    for c in d["cols"]:
        df = c["default"]
        sd = None if df["k"] == "none" else (df["s"] if df["k"] == "str" else sa.text(df["s"]))
        items.append(sa.Column(c["name"], T[c["type"]](), nullable=c["nullable"], server_default=sd))
    if d["pk"]:
        items.append(sa.PrimaryKeyConstraint(*d["pk"], name=d["pkname"] or None))
    pref = (d["schema"] + "." if d["schema"] else "")
    for f in d["fks"]:
        # target given as Column objects' "table.col" strings is ambiguous for dotted names: use the parent's Column objects
        if f["rtable"] == d["tname"]:       # self-referential (Mode self: no dotted names among the referred ones)
            refs = [pref + d["tname"] + "." + r for r in f["rcols"]]
        else:
            ptab = md.tables[(pref + f["rtable"])]
            refs = [ptab.c[r] for r in f["rcols"]]
        items.append(sa.ForeignKeyConstraint(f["cols"], refs, name=f["name"] or None,
                                             ondelete=f["ondelete"] or None, onupdate=f["onupdate"] or None))
    for u in d["uqs"]:
        items.append(sa.UniqueConstraint(*u["cols"], name=u["name"] or None))
    t = sa.Table(d["tname"], md, *items, schema=schema)
    for i in d["ixs"]:
        sa.Index(i["name"], *[t.c[x] for x in i["cols"]], unique=i["unique"])
    return t


# ----------------------------------------------------------------------------------------------- projections
def _srt(xs, key):
    return sorted(xs, key=lambda r: repr([r[k] for k in key]))


def proj_inspector(insp, d):
    name, schema = d["tname"], d["schema"] or None
    cols = []
    affs = []
    for c in insp.get_columns(name, schema=schema):
        cols.append({"name": c["name"], "type": _type_token(c["type"]), "nullable": bool(c["nullable"]),
                     "default": {"k": "none", "s": ""} if c["default"] is None else {"k": "text", "s": c["default"]}})
        affs.append((c["type"]._type_affinity.__name__, _type_args(c["type"])))
    pk = insp.get_pk_constraint(name, schema=schema)
    fks = [{"name": f["name"] or "", "cols": list(f["constrained_columns"]), "rtable": f["referred_table"],
            "rschema": f["referred_schema"] or "", "rcols": list(f["referred_columns"]),
            "ondelete": f["options"].get("ondelete", ""), "onupdate": f["options"].get("onupdate", ""),
            "extra": sorted(k for k in f["options"] if k not in ("ondelete", "onupdate"))}
           for f in insp.get_foreign_keys(name, schema=schema)]
    uqs = [{"name": u["name"] or "", "cols": list(u["column_names"])} for u in insp.get_unique_constraints(name, schema=schema)]
    ixs = [{"name": i["name"] or "", "unique": bool(i["unique"]), "cols": list(i["column_names"])}
           for i in insp.get_indexes(name, schema=schema)]
    return {"cols": cols, "pk": list(pk["constrained_columns"]), "pkname": pk["name"] or "",
            "fks": _srt(fks, ("cols", "rcols", "name")), "uqs": _srt(uqs, ("cols", "name")), "ixs": _srt(ixs, ("name",))}, affs


def proj_table(t):
    import sqlalchemy as sa
    cols = []
    affs = []
    for c in t.columns:
        sd = c.server_default
        if sd is None:
            df = {"k": "none", "s": ""}
        else:
            a = sd.arg
            df = {"k": "text", "s": a.text if isinstance(a, sa.sql.elements.TextClause) else "?" + repr(a)}
        cols.append({"name": c.name, "type": _type_token(c.type), "nullable": bool(c.nullable), "default": df})
        affs.append((c.type._type_affinity.__name__, _type_args(c.type)))
    fks = []
    for f in t.foreign_key_constraints:
        fks.append({"name": f.name or "", "cols": [c.name for c in f.columns], "rtable": f.referred_table.name,
                    "rschema": f.referred_table.schema or "", "rcols": [e.column.name for e in f.elements],
                    "ondelete": f.ondelete or "", "onupdate": f.onupdate or "",
                    "extra": sorted(k for k in ("deferrable", "initially", "match") if getattr(f, k) is not None)})
    uqs = [{"name": u.name or "", "cols": [c.name for c in u.columns]} for u in t.constraints if isinstance(u, sa.UniqueConstraint)]
    ixs = [{"name": i.name or "", "unique": bool(i.unique), "cols": [c.name for c in i.columns]} for i in t.indexes]
    other = [type(c).__name__ for c in t.constraints
             if not isinstance(c, (sa.UniqueConstraint, sa.PrimaryKeyConstraint, sa.ForeignKeyConstraint))]
    p = {"cols": cols, "pk": [c.name for c in t.primary_key.columns], "pkname": t.primary_key.name or "",
         "fks": _srt(fks, ("cols", "rcols", "name")), "uqs": _srt(uqs, ("cols", "name")), "ixs": _srt(ixs, ("name",))}
    if other:
        p["other"] = other
    return p, affs


def want_of(case):
    n = case["norm"]
    fks = [{"name": f["name"], "cols": f["cols"], "rtable": f["rtable"], "rschema": n["schema"], "rcols": f["rcols"],
            "ondelete": f["ondelete"], "onupdate": f["onupdate"], "extra": []} for f in n["fks"]]
    return {"cols": [dict(c) for c in n["cols"]], "pk": n["pk"], "pkname": n["pkname"],
            "fks": _srt(fks, ("cols", "rcols", "name")), "uqs": _srt([dict(u) for u in n["uqs"]], ("cols", "name")),
            "ixs": _srt([dict(i) for i in n["ixs"]], ("name",))}


# ----------------------------------------------------------------------------------------------- feature classes (signature)
def _name_class(nm):
    import re
    if nm == "":
        return "none"
    if re.fullmatch(r"[a-z_][a-z0-9_]*", nm):
        from sqlalchemy.dialects.sqlite.base import SQLiteIdentifierPreparer
        return "reserved" if nm in SQLiteIdentifierPreparer.reserved_words else "plain"
    if re.fullmatch(r"[A-Za-z_][A-Za-z0-9_]*", nm):
        return "mixedcase"
    return "delimited"


def diff_parts(want, got):
    """[(part, detail)] for every part of the abstract record that differs"""
    out = []
    if [c["name"] for c in want["cols"]] != [c["name"] for c in got["cols"]]:
        out.append(("column_names", "%r != %r" % ([c["name"] for c in got["cols"]], [c["name"] for c in want["cols"]])))
    else:
        for w, g in zip(want["cols"], got["cols"]):
            for k in ("type", "nullable", "default"):
                if w[k] != g[k]:
                    out.append(("column_" + k, "column %r: %r, required %r" % (w["name"], g[k], w[k])))
    for k, part in (("pk", "primary_key"), ("pkname", "primary_key_name"), ("fks", "foreign_keys"), ("uqs", "unique_constraints"),
                    ("ixs", "indexes")):
        if want[k] != got[k]:
            out.append((part, "%r, required %r" % (got[k], want[k])))
    if got.get("other"):
        out.append(("other_constraints", repr(got["other"])))
    return out


def _feature(case, part, want, got):
    d = case["d"]
    f = {"mode": case["mode"], "schema": "attached" if d["schema"] else "main"}
    if part.startswith("column_"):
        bad = [w for w, g in zip(want["cols"], got["cols"]) if w != g]
        if bad:
            src = [c for c in d["cols"] if c["name"] == bad[0]["name"]][0]
            f.update(coltype=src["type"], default_kind=src["default"]["k"], default=src["default"]["s"],
                     name_class=_name_class(src["name"]), in_pk=src["name"] in d["pk"])
    elif part == "foreign_keys":
        f.update(n=len(d["fks"]), name_class=sorted(_name_class(x["name"]) for x in d["fks"]),
                 col_class=sorted({_name_class(c) for x in d["fks"] for c in x["cols"] + x["rcols"]}),
                 rtable_class=_name_class(d["parent"]["name"]), composite=any(len(x["cols"]) > 1 for x in d["fks"]),
                 got_n=len(got["fks"]))
    elif part == "unique_constraints":
        f.update(n=len(d["uqs"]), name_class=sorted(_name_class(x["name"]) for x in d["uqs"]),
                 col_class=sorted({_name_class(c) for x in d["uqs"] for c in x["cols"]}),
                 equals_pk=any(x["cols"] == d["pk"] for x in d["uqs"]), rowid=case["rowid"], got_n=len(got["uqs"]))
    elif part == "indexes":
        f.update(n=len(d["ixs"]), name_class=sorted(_name_class(x["name"]) for x in d["ixs"]), got_n=len(got["ixs"]))
    elif part.startswith("primary_key"):
        f.update(pk_len=len(d["pk"]), name_class=_name_class(d["pkname"]), rowid=case["rowid"],
                 col_class=sorted({_name_class(c) for c in d["pk"]}))
    return f


# ----------------------------------------------------------------------------------------------- one case
def run_case(engine, case):
    """-> list of (sig, what); raises only for machinery problems"""
    import sqlalchemy as sa
    import warnings
    d = case["d"]
    out = []
    want = want_of(case)
    schema = d["schema"] or None

    def bad(step, part, detail, w, g):
        sig = {"spec": "Reflect", "action": step, "part": part}
        sig.update(_feature(case, part, w, g))
        out.append((sig, "%s: %s differs for %s: %s" % (step, part, _short(d), detail), {"case": case}))

    def reflect_both(conn, label, ref_i, ref_t):
        """both reflections; compare each with its reference.  -> (inspector proj, table proj, affs, affs, reflected MetaData)"""
        res = {}
        with warnings.catch_warnings(record=True) as wl:
            warnings.simplefilter("always")
            for how in ("inspector", "autoload"):
                try:
                    if how == "inspector":
                        res[how] = proj_inspector(sa.inspect(conn), d) + (None,)
                    else:
                        m2 = sa.MetaData()
                        res[how] = proj_table(sa.Table(d["tname"], m2, schema=schema, autoload_with=conn)) + (m2,)
                except Exception as e:  # noqa
                    out.append(({"spec": "Reflect", "action": label + "." + how, "part": "raises", "exc": type(e).__name__,
                                 "mode": case["mode"], "dotted_referred_name": _dotted_ref(d)},
                                "%s.%s raised %r for %s" % (label, how, e, _short(d)), {"case": case}))
        for w in wl:
            if issubclass(w.category, sa.exc.SAWarning):
                out.append(({"spec": "Reflect", "action": label, "part": "warning", "mode": case["mode"],
                             "warning": str(w.message)[:60]}, "%s warned %s for %s" % (label, w.message, _short(d)), {"case": case}))
        for how, ref in (("inspector", ref_i), ("autoload", ref_t)):
            if how in res and ref is not None:
                for part, det in diff_parts(ref, res[how][0]):
                    bad(label + "." + how, part, det, ref, res[how][0])
        if len(res) < 2:
            return None
        return res["inspector"][0], res["autoload"][0], res["inspector"][1], res["autoload"][1], res["autoload"][2]

    md = sa.MetaData()
    build(d, md)
    with engine.connect() as conn:
        try:
            md.create_all(conn)
        except Exception as e:  # noqa
            out.append(({"spec": "Reflect", "action": "create", "part": "raises", "exc": type(e).__name__, "mode": case["mode"]},
                        "create_all raised %r for %s" % (e, _short(d)), {"case": case}))
            conn.rollback()
            _wipe(conn, schema)
            return out
        r1 = reflect_both(conn, "reflect", want, want)
        if r1 is not None:
            pi, pt, ai, at, m2 = r1
            wa = [(a, list(g)) for a, g in zip(case["affs"], case["args"])]
            for label, got in (("reflect.inspector", ai), ("reflect.autoload", at)):
                if [(a, list(g)) for a, g in got] != wa and len(got) == len(wa):
                    i = [k for k in range(len(wa)) if (got[k][0], list(got[k][1])) != wa[k]][0]
                    out.append(({"spec": "Reflect", "action": label, "part": "type_affinity", "coltype": d["cols"][i]["type"],
                                 "mode": case["mode"]},
                                "%s: type affinity %r, required %r for column %d of %s" % (label, got[i], wa[i], i, _short(d)),
                                {"case": case}))
            # second clause: re-create from the REFLECTED Table objects, reflect again, must be identical
            md.drop_all(conn)
            left = _tables(conn, schema)
            if left:
                raise RuntimeError("drop_all left %r" % (left,))
            try:
                m2.create_all(conn)
            except Exception as e:  # noqa
                out.append(({"spec": "Reflect", "action": "recreate", "part": "raises", "exc": type(e).__name__, "mode": case["mode"]},
                            "create_all of the reflected tables raised %r for %s" % (e, _short(d)), {"case": case}))
                conn.rollback()
                _wipe(conn, schema)
                return out
            reflect_both(conn, "recreate", pi, pt)
            m2.drop_all(conn)
        _wipe(conn, schema)
        conn.commit()
    return out


def _tables(conn, schema):
    pre = ('"%s".' % schema) if schema else ""
    return [r[0] for r in conn.exec_driver_sql("select name from %ssqlite_master where type in ('table','index') "
                                               "and name not like 'sqlite_%%'" % pre)]


def _wipe(conn, schema):
    pre = ('"%s".' % schema) if schema else ""
    for (n,) in conn.exec_driver_sql("select name from %ssqlite_master where type = 'table'" % pre).fetchall():
        conn.exec_driver_sql('drop table %s"%s"' % (pre, n.replace('"', '""')))


def _short(d):
    return "%s%s(%s)%s%s%s%s" % (
        d["schema"] + "." if d["schema"] else "", d["tname"],
        ", ".join("%s %s%s%s" % (c["name"], c["type"], "" if c["nullable"] else " NOT NULL",
                                 "" if c["default"]["k"] == "none" else " DEFAULT %s:%r" % (c["default"]["k"], c["default"]["s"]))
                  for c in d["cols"]),
        " PK%r%s" % (d["pk"], "[" + d["pkname"] + "]" if d["pkname"] else "") if d["pk"] else "",
        "".join(" FK[%s]%r->%s%r/%s/%s" % (f["name"], f["cols"], f["rtable"], f["rcols"], f["ondelete"], f["onupdate"]) for f in d["fks"]),
        "".join(" UQ[%s]%r" % (u["name"], u["cols"]) for u in d["uqs"]),
        "".join(" %sIX[%s]%r" % ("U" if i["unique"] else "", i["name"], i["cols"]) for i in d["ixs"]))


def _engine():
    import sqlalchemy as sa
    from sqlalchemy.pool import StaticPool
    e = sa.create_engine("sqlite://", poolclass=StaticPool)

    @sa.event.listens_for(e, "connect")
    def _attach(dbapi_conn, rec):  # noqa
        dbapi_conn.execute("ATTACH DATABASE ':memory:' AS aux")
    return e


def _ddl_text_in_default(d):
    import re
    return any(c["default"]["k"] != "none" and re.search(r"UNIQUE\s*\(|PRIMARY\s+KEY|FOREIGN\s+KEY", c["default"]["s"], re.I)
               for c in d["cols"])


def _work(cases):
    e = _engine()
    res = []
    try:
        for c in cases:
            r = run_case(e, c)
            if r and _ddl_text_in_default(c["d"]):
                for sig, _, _ in r:
                    sig["ddl_text_in_default"] = True
            res.extend(r)
    finally:
        e.dispose()
    return res


def replay_all(chk, cases):
    import multiprocessing as mp
    n = max(1, tlc.NPROC)
    chunks = [cases[i:i + 200] for i in range(0, len(cases), 200)]
    if n == 1 or len(chunks) <= 1:
        results = [_work(c) for c in chunks]
    else:
        with mp.get_context("fork").Pool(n) as pool:
            results = pool.map(_work, chunks, chunksize=1)
    for res in results:
        for sig, what, rp in res:
            chk.violation(sig, what, rp)


# ----------------------------------------------------------------------------------------------- plans
STYLES = ["plain", "space", "reserved", "mixed", "kw", "bag"]
PSTYLES = ["plain", "space", "reserved", "mixed"]


def _set(xs):
    return "{" + ", ".join(tlc.q(x) for x in xs) + "}"


def plans(chk):
    rng = random.Random(chk.seed)
    pick = lambda xs, k: rng.sample(xs, k)  # noqa
    sch = lambda: [rng.choice(["", "aux"])]  # noqa
    P = []
    if chk.quick:
        P.append(("col", pick(STYLES, 1), ["plain"], sch(), [3]))
        P.append(("pk", pick(STYLES, 1), ["plain"], sch(), [1]))
        P.append(("fk1", pick(STYLES, 1), pick(PSTYLES, 1), sch(), [1]))
        P.append(("uq", pick(STYLES, 1), ["plain"], sch(), [1]))
        P.append(("ix", pick(STYLES, 1), ["plain"], sch(), [1]))
        P.append(("self", pick(STYLES, 1), pick(PSTYLES, 1), sch(), [1]))
        P.append(("lit", ["plain"], ["plain"], sch(), [1]))
    else:
        P.append(("col", pick(STYLES, 1), ["plain"], [""], [1, 2, 3]))
        P.append(("col", pick(STYLES, 1), ["plain"], ["aux"], [3]))
        P.append(("pk", STYLES, ["plain"], sch(), [1]))
        P.append(("fk1", pick(STYLES, 1), pick(PSTYLES, 2), ["", "aux"], [1]))
        P.append(("fk2", pick(STYLES, 1), pick(PSTYLES, 1), sch(), [1]))
        P.append(("uq", pick(STYLES, 2), ["plain"], sch(), [1]))
        P.append(("ix", pick(STYLES, 2), ["plain"], sch(), [1]))
        P.append(("all", pick(STYLES, 1), pick(PSTYLES, 1), sch(), [1]))
        P.append(("self", pick(STYLES, 2), pick(PSTYLES, 2), sch(), [1]))
        P.append(("lit", ["plain"], ["plain"], ["", "aux"], [1]))
    return P


def _tlc_one(args):
    i, (mode, styles, pstyles, schemas, shapes), work, timeout = args
    c = dict(Mode=tlc.q(mode), Styles=_set(styles), PStyles=_set(pstyles), Schemas=_set(schemas),
             Shapes="{" + ", ".join(str(s) for s in shapes) + "}")
    cfgt = tlc.cfg(constants=c, init="InitEmit", next_="Stutter", invariants=["PreservedOK", "Recreate", "WellNorm"])
    label = "%s styles=%s pstyles=%s schemas=%s shapes=%s" % (mode, ",".join(styles), ",".join(pstyles),
                                                             ",".join(s or "main" for s in schemas), shapes)
    try:
        r = tlc.run("Reflect", cfgt, "%s/tlc%d" % (work, i), workers=1, timeout=timeout, keep_stdout=False, heap="4g")
    except tlc.TLCError as e:
        return label, None, str(e)
    return label, r, None


def _dotted_ref(d):
    return any("." in x for f in d["fks"] for x in [f["rtable"]] + f["rcols"])


def main(chk):
    from concurrent.futures import ThreadPoolExecutor
    P = plans(chk)
    jobs = [(i, p, chk.work, 900 if chk.quick else 3000) for i, p in enumerate(P)]
    with ThreadPoolExecutor(max_workers=max(1, min(tlc.NPROC, len(jobs)))) as ex:
        done = list(ex.map(_tlc_one, jobs))
    states = trans = 0
    runs, cases = [], []
    for label, r, err in done:
        if r is None:
            chk.machinery("TLC failed for %s: %s" % (label, err[-600:]))
        if r.violated:
            chk.violation({"spec": "Reflect", "action": "TLC", "invariant": r.violated, "cfg": label},
                          "TLC: %s violated in the specification (%s)" % (r.violated, label))
        elif not r.ok:
            chk.machinery("TLC failed for " + label)
        if not r.json or len(r.json) != r.distinct:
            chk.machinery("TLC printed %d cases for %d states (%s)" % (len(r.json), r.distinct, label))
        states += r.distinct
        trans += r.generated
        runs.append({"cfg": label, "distinct": r.distinct, "cases": len(r.json), "wall_s": round(r.wall, 1)})
        cases.extend(r.json)
        r.json = None
    # vacuity: the features of the property's list all occur
    feat = dict(
        definitions=len(cases), rowid_alias=sum(1 for c in cases if c["rowid"]), composite_pk=sum(1 for c in cases if len(c["d"]["pk"]) > 1),
        pk_nullable=sum(1 for c in cases if any(x["nullable"] and x["name"] in c["d"]["pk"] for x in c["d"]["cols"])),
        named_pk=sum(1 for c in cases if c["d"]["pkname"]),
        server_default=sum(1 for c in cases if any(x["default"]["k"] != "none" for x in c["d"]["cols"])),
        default_normalised=sum(1 for c in cases if any(x["default"] != y["default"] for x, y in zip(c["d"]["cols"], c["norm"]["cols"]))),
        fk=sum(1 for c in cases if c["d"]["fks"]), fk_composite=sum(1 for c in cases if any(len(f["cols"]) > 1 for f in c["d"]["fks"])),
        fk_named=sum(1 for c in cases if any(f["name"] for f in c["d"]["fks"])),
        fk_options=sum(1 for c in cases if any(f["ondelete"] or f["onupdate"] for f in c["d"]["fks"])),
        fk_no_action=sum(1 for c in cases if any("NO ACTION" in (f["ondelete"], f["onupdate"]) for f in c["d"]["fks"])),
        unique=sum(1 for c in cases if c["d"]["uqs"]), unique_named=sum(1 for c in cases if any(u["name"] for u in c["d"]["uqs"])),
        unique_equals_pk=sum(1 for c in cases if any(u["cols"] == c["d"]["pk"] for u in c["d"]["uqs"])),
        index=sum(1 for c in cases if c["d"]["ixs"]), unique_index=sum(1 for c in cases if any(i["unique"] for i in c["d"]["ixs"])),
        index_same_cols_as_unique=sum(1 for c in cases if any(i["cols"] == u["cols"] for i in c["d"]["ixs"] for u in c["d"]["uqs"])),
        fk_self_referential=sum(1 for c in cases if any(f["rtable"] == c["d"]["tname"] for f in c["d"]["fks"])),
        ddl_text_in_default=sum(1 for c in cases if _ddl_text_in_default(c["d"])),
        attached_schema=sum(1 for c in cases if c["d"]["schema"]),
        names_needing_quotes=sum(1 for c in cases if any(_name_class(x["name"]) != "plain" for x in c["d"]["cols"])))
    need = ["rowid_alias", "composite_pk", "pk_nullable", "named_pk", "server_default", "default_normalised", "fk", "fk_composite",
            "fk_named", "fk_options", "fk_no_action", "unique", "unique_named", "unique_equals_pk", "index", "unique_index",
            "index_same_cols_as_unique", "fk_self_referential", "ddl_text_in_default"]
    missing = [k for k in need if not feat[k]]
    if missing:
        chk.machinery("vacuous: no enumerated definition has %r" % missing)
    replay_all(chk, cases)
    samples = [_short(cases[(len(cases) * k) // 7]["d"]) for k in range(1, 7)]
    nontriv = sum(1 for c in cases if c["d"]["pk"] or c["d"]["fks"] or c["d"]["uqs"] or c["d"]["ixs"]
                  or any(x["default"]["k"] != "none" for x in c["d"]["cols"]))
    return chk.finish(
        dict(states=states, transitions=trans, traces_validated_against_impl=len(cases), distinct_nontrivial=nontriv,
             evaluations=4 * len(cases), samples=samples, tlc_runs=runs, features=feat, exhaustive=True,
             rule="one case per TLC initial state (a table definition); each is created, reflected by Inspector and by "
                  "Table(autoload_with), re-created from the reflection and reflected again (4 reflections compared per case); "
                  "non-trivial = has a primary key, foreign key, unique constraint, index or server default",
             checker_cmd="tlc Reflect.tla (INIT InitEmit, Mode col|pk|fk1|fk2|uq|ix|all|self|lit)"),
        assumptions=["SQLite clause only: PostgreSQL and MariaDB reflection queries cannot execute in this sandbox",
                     "comments: SQLite has none; CHECK constraints, computed / identity columns, partial and expression indexes, "
                     "DEFERRABLE / INITIALLY, views, temporary tables, WITHOUT ROWID / STRICT not enumerated",
                     "bounded: 1-3 columns, <= 2 foreign keys / unique constraints / indexes per table, six naming styles; quick tier "
                     "draws the naming style and schema of each mode from the seed",
                     "names containing a double quote or $ are covered by C06 (known finding C06-sqlite-reflect-constraint-names)",
                     "the schema is created by SQLAlchemy's own DDL compiler (hand-written CREATE TABLE text is not enumerated)"])
