"""C19 dependency sorting - TopoSort.tla (DESIGN 3.1, Appendix C).

TLC: (a) every (items order, deps) up to the bound is an initial state; SortOK is checked against the
declarative graph definitions and one JSON case per state is printed; (b) find_cycles as a step machine with
nondeterministic set-iteration order, CyclesOK/CyclesSound for every order.
Binding (spec -> code): every printed case is run through the real sort_as_subsets / sort / find_cycles with
several node representations and tuple orders; layers / exception / cycle set must EQUAL the spec's values.
"""
import random

from engine import tlc

LEVEL = "model_checking"


class _Obj:
    """node objects whose hashes collide pairwise, to vary real set iteration order"""
    __slots__ = ("i", "h")

    def __init__(self, i, h):
        self.i, self.h = i, h

    def __hash__(self):
        return self.h

    def __eq__(self, o):
        return self is o

    def __repr__(self):
        return "o%d" % self.i


def _variants(rng, n_all, k):
    out = [lambda i: i, lambda i: "n%d" % i]
    for v in range(k):
        salt = rng.randrange(1 << 30)
        objs = {i: _Obj(i, (i * 7919 + salt) % (3 + v)) for i in range(1, n_all + 2)}
        out.append(objs.__getitem__)
    return out


def replay_cases(chk, cases, rng, nvariants, label):
    from sqlalchemy.util import topological
    from sqlalchemy.exc import CircularDependencyError
    nontrivial = set()
    n = 0
    for case in cases:
        items, deps = case["items"], [tuple(d) for d in case["deps"]]
        n_all = max([0] + items + [x for d in deps for x in d])
        inner = [d for d in deps if d[0] in items and d[1] in items]
        if inner:
            nontrivial.add((tuple(items), tuple(sorted(deps))))
        for vi, f in enumerate(_variants(rng, n_all, nvariants)):
            tuples = [(f(a), f(b)) for a, b in deps]
            rng.shuffle(tuples)
            its = [f(i) for i in items]
            back = {f(i): i for i in range(1, n_all + 1)}
            n += 1
            sig = {"spec": "TopoSort", "items": items, "deps": sorted(deps), "variant": vi, "cfg": label}
            # sort_as_subsets
            try:
                got = [[back[x] for x in layer] for layer in topological.sort_as_subsets(tuples, its)]
                exc = None
            except CircularDependencyError as e:
                got, exc = None, e
            if case["cyclic"]:
                if exc is None:
                    chk.violation(dict(sig, action="sort_as_subsets"), "no CircularDependencyError for cyclic deps; got %r" % (got,))
                else:
                    cyc = {back[x] for x in exc.cycles}
                    if cyc != set(case["cycles"]):
                        chk.violation(dict(sig, action="sort.cycles"), "error reports cycles %r, spec %r" % (sorted(cyc), case["cycles"]))
                    edges = {(back[a], back[b]) for a, b in exc.edges}
                    if edges != set(deps):
                        chk.violation(dict(sig, action="sort.edges"), "error reports edges %r, given %r" % (sorted(edges), sorted(deps)))
            else:
                if exc is not None:
                    chk.violation(dict(sig, action="sort_as_subsets"), "CircularDependencyError without a cycle among the items")
                elif got != case["layers"]:
                    chk.violation(dict(sig, action="sort_as_subsets"), "layers %r, spec %r" % (got, case["layers"]))
                flat = [x for layer in case["layers"] for x in layer]
                got2 = [back[x] for x in topological.sort(tuples, its)]
                if got2 != flat:
                    chk.violation(dict(sig, action="sort"), "sort() %r, spec %r" % (got2, flat))
            cyc = {back[x] for x in topological.find_cycles(tuples, its)}
            if cyc != set(case["cycles"]):
                chk.violation(dict(sig, action="find_cycles"), "find_cycles %r, spec %r" % (sorted(cyc), sorted(case["cycles"])))
    return n, len(nontrivial)


def main(chk):
    rng = random.Random(chk.seed)
    runs = []
    if chk.quick:
        plans = [("InitSort", dict(N=3, Extra=0), "Stutter", ["SortOK"], 1),
                 ("InitSort", dict(N=2, Extra=1), "Stutter", ["SortOK"], 1),
                 ("InitCycles", dict(N=3, Extra=0), "Next", ["CyclesOK", "CyclesSound"], 16),
                 ("InitRandom", dict(N=5, Extra=1, RandomGraphs=60, RandomEdges=6), "Stutter", ["SortOK"], 1)]
        nvar = 2
    else:
        plans = [("InitSort", dict(N=3, Extra=1), "Stutter", ["SortOK"], 1),
                 ("InitSort", dict(N=4, Extra=0), "Stutter", ["SortOK"], 1),
                 ("InitCycles", dict(N=3, Extra=0), "Next", ["CyclesOK", "CyclesSound"], 16),
                 ("InitCycles", dict(N=4, Extra=0), "Next", ["CyclesOK", "CyclesSound"], 16),
                 ("InitRandom", dict(N=6, Extra=1, RandomGraphs=3000, RandomEdges=8), "Stutter", ["SortOK"], 1)]
        nvar = 1
    states = trans = replayed = nontriv = 0
    samples = []
    for init, consts, nxt, invs, workers in plans:
        c = dict(N=0, Extra=0, RandomGraphs=1, RandomEdges=1)
        c.update(consts)
        cfgt = tlc.cfg(constants=c, init=init, next_=nxt, invariants=invs)
        label = "%s %s" % (init, consts)
        r = tlc.run("TopoSort", cfgt, chk.work, workers=workers, timeout=1500 if not chk.quick else 300,
                    extra=["-seed", str(chk.seed)] if init == "InitRandom" else [], keep_stdout=False)
        if r.violated:
            chk.violation({"spec": "TopoSort", "action": "TLC", "invariant": r.violated, "cfg": label},
                          "TLC: %s violated in the specification (%s)" % (r.violated, label))
        if not r.json:
            chk.machinery("TLC printed no cases for " + label)
        states += r.distinct
        trans += r.generated
        runs.append({"cfg": label, "distinct": r.distinct, "generated": r.generated, "depth": r.depth, "cases": len(r.json),
                     "wall_s": round(r.wall, 1)})
        a, b = replay_cases(chk, r.json, rng, nvar, label)
        replayed += a
        nontriv += b
        good = [c for c in r.json if c["deps"] and len(c["items"]) >= 2]
        samples.extend(good[len(good) // 3::max(1, len(good) // 3)][:2])
    return chk.finish(
        dict(states=states, transitions=trans, traces_validated_against_impl=replayed, distinct_nontrivial=nontriv,
             evaluations=replayed, samples=samples[:8], tlc_runs=runs, exhaustive=True,
             rule="one case per TLC initial state (items order x deps set); non-trivial = at least one dependency pair among the items; "
                  "each case replayed with int / str / hash-colliding object nodes and shuffled tuple order",
             checker_cmd="tlc TopoSort.tla (INIT InitSort|InitCycles|InitRandom)"),
        assumptions=["bounded: exhaustive up to the N given in tlc_runs, random graphs beyond",
                     "find_cycles set-iteration order over-approximated by full nondeterminism in the spec"])
