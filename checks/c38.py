"""C38 instrumented collections behave exactly like the Python types they wrap - PySlice.tla / PyCollections.tla (DESIGN 3.10, App. D).

TLC enumerates (container, operation, arguments) as initial states, computes the expected contents / return value /
exception class and the items added / removed with the transcribed Python semantics, checks the declarative accounting law
and the slice laws, prints one JSON case per state.  Every case is first run on the builtin list / set / dict (calibration,
exit 2 on disagreement) and then on every relationship collection flavour with recorded append / remove events.
Operation SEQUENCES: the list / set / dict sequence machines are dumped edge by edge and every edge is replayed on one
collection instance per walk.
"""
import random

from engine import graph
from checks import pycoll_common as pc

LEVEL = "model_checking"
MANIFEST = dict(
    text="PyCollections.tla/PySlice.tla transcribe CPython list/set/dict semantics (slice clamping for every start/stop/step, extended-slice "
         "size rule, insert/pop/remove/index with negative and out-of-range arguments, set operators and in-place variants over iterables "
         "with duplicates, dict pop/popitem/setdefault/update) as pure functions returning contents, return value, exception class and the "
         "items added/removed. TLC enumerates the whole argument space (lists <=3-4, indices -5..5/-6..6 and None, steps +-1..3, ~140k-400k "
         "cases), checks the accounting law Bag(new)=Bag(old)+added-removed, 'exceptions do not act' and the slice laws; every case is "
         "calibrated against the builtin type (exit 2 on disagreement) and replayed on InstrumentedList/Set, attribute/keyfunc/column keyed "
         "dicts, user subclasses and a bare @collection class, with and without a backref, comparing contents, return, exception and the "
         "recorded append/remove/bulk_replace events; operation sequences are replayed edge by edge from the dumped state graphs.",
    design_ref="3.10, 4 (C38), 6 (C38), Appendix D",
    note="trusted: TLC, the builtin list/set/dict as calibration oracle; bounded container size and argument ranges; items are mapped "
         "objects compared by identity; no database involved (in-memory collection + attribute events)",
    technique="TLA+ spec (PyCollections.tla + PySlice.tla) + TLC exhaustive enumeration of the operation/argument space with declarative laws; "
              "oracle calibration against CPython builtins; spec->code replay of every case and of every edge of the sequence state graphs")

LIST_FOOT = ["getitem", "setitem", "delitem", "insert", "pop", "remove", "append", "extend", "iadd", "clear", "sort", "reverse", "index",
             "count", "contains", "imul", "assign", "getslice", "setslice", "delslice"]
SET_FOOT = ["add", "discard", "remove", "pop", "clear", "update", "difference_update", "intersection_update", "symmetric_difference_update",
            "ior", "isub", "iand", "ixor", "union", "difference", "intersection", "symmetric_difference", "or", "sub", "and", "xor",
            "issubset", "issuperset", "isdisjoint", "contains", "assign"]
DICT_FOOT = ["getitem", "get", "contains", "setitem", "delitem", "pop", "popd", "popitem", "setdefault", "update", "ior", "assign", "clear",
             "keys", "values", "kset", "kremove"]
EXC_FOOT = {"list": {"IndexError", "ValueError"}, "set": {"KeyError", "TypeError"}, "dict": {"KeyError", "InvalidRequestError"}}


def _sig(name, backref, op, cls, exp, n_old, argform):
    s = {"spec": "PyCollections", "kind": "conformance", "coll": name, "backref": backref, "cls": cls, "exc": exp.get("exc")}
    s.update(pc.op_sig(op, n_old, argform))
    return s


def vacuity(chk, kind, cases, foot):
    seen, excs = {}, set()
    addn = remn = 0
    for c in cases:
        seen[c["op"]["n"]] = seen.get(c["op"]["n"], 0) + 1
        excs.add(c["exp"]["exc"])
        addn += bool(c["exp"]["add"])
        remn += bool(c["exp"]["rem"])
    for a in foot:
        if not seen.get(a):
            chk.machinery("vacuous: %s operation %s never enumerated" % (kind, a))
    missing = EXC_FOOT[kind] - excs
    if missing:
        chk.machinery("vacuous: %s cases never raise %s" % (kind, sorted(missing)))
    if not addn or not remn:
        chk.machinery("vacuous: no %s case adds / removes an item" % kind)
    return seen


def main(chk):
    from checks import pycoll_orm as po
    rng = random.Random(chk.seed)
    q = chk.quick
    cs = pc.consts(MaxLen=3, Hi=5, MaxVal=2, K=3) if q else pc.consts(MaxLen=4, Hi=6, MaxVal=3, K=3)
    cset = dict(cs, K=3) if q else dict(cs, K=4, MaxLen=4)
    cdict = dict(cs, K=3, MaxLen=3)
    plans = [("InitSlice", ["SliceCaseOK"], cs, "list"), ("InitListOps", ["ListCaseOK"], cs, "list"),
             ("InitSetOps", ["SetCaseOK"], cset, "set"), ("InitDictOps", ["DictCaseOK"], cdict, "dict")]
    states = trans = 0
    runs, samples = [], []
    by_kind = {"list": [], "set": [], "dict": []}
    outs = pc.tlc_cases_parallel(chk, [(p[0], p[1], p[2]) for p in plans])
    vclasses = {}
    for (init, invs, c, kind), (cases, r) in zip(plans, outs):
        if r.violated:
            chk.violation({"spec": "PyCollections", "action": "TLC", "invariant": r.violated, "cfg": init},
                          "TLC: %s violated in PyCollections.tla (%s)" % (r.violated, init))
        ncal = pc.calibrate(chk, cases, init)
        states += r.distinct
        trans += r.generated
        runs.append({"cfg": init, "constants": {k: c[k] for k in ("MaxLen", "Hi", "MaxVal", "K")}, "distinct": r.distinct,
                     "generated": r.generated, "cases": len(cases), "calibrated_against_builtin": ncal, "wall_s": round(r.wall, 1)})
        by_kind[kind] += cases
        good = [x for x in cases if x["exp"]["add"] and x["exp"]["rem"]]
        samples.append(good[(chk.seed * 7919 + 13) % len(good)] if good else cases[0])
    cov = {}
    for kind, foot in (("list", LIST_FOOT), ("set", SET_FOOT), ("dict", DICT_FOOT)):
        cov[kind] = vacuity(chk, kind, by_kind[kind], foot)
    # ---- spec -> code, single operations on fresh collections
    cc = po.collection_classes()
    evaluations = 0
    nontrivial = set()
    per_coll = {}
    primary = ("InstrumentedList", "InstrumentedSet", "attribute_keyed_dict", "ObjList(@collection)")
    for name, (kind, cls) in cc.items():
        # quick: the user subclasses and the other keyed-dict factories share the wrappers of the primary flavours and run without a
        # backref only; thorough runs every flavour both ways
        for backref in (False, True) if (name in primary or not q) else (False,):
            fx = po.Fixture(name, kind, cls, backref=backref)
            n = 0
            for i, case in enumerate(by_kind[kind]):
                op, exp = case["op"], case["exp"]
                if name.startswith("ObjList"):
                    # a bare @collection class: only the methods it defines; its own methods raise AFTER the decorator fired the
                    # event (documented contract of collection.adds/replaces), so failing calls are not comparable
                    if op["n"] not in po.OBJLIST_OPS or exp["exc"] != "none":
                        continue
                if kind != "dict" and op["n"] in ("kset", "kremove"):
                    continue
                if exp["add"] or exp["rem"] or exp["exc"] != "none":
                    nontrivial.add((kind, str(case["val"]), str(sorted(op.items()))))
                forms = ("list", "iter", "tuple") if op["n"] in ("extend", "iadd", "setslice") else ("list",)
                for form in forms:
                    m = fx.run_case(case, argform=form)
                    n += 1
                    if not m:
                        continue
                    sig = _sig(name, backref, op, m[0], exp, len(case["val"]), form)
                    sig["legacy_algorithm"] = fx.legacy
                    vk = "%s%s %s %s" % (name, "+backref" if backref else "", op["n"], m[0])
                    vclasses[vk] = vclasses.get(vk, 0) + 1
                    chk.violation(sig, "%s%s: %s on %r: %s" % (name, " +backref" if backref else "", op["n"], case["val"], m[1]),
                                  {"sig": sig, "coll": name, "backref": backref, "case": case, "argform": form, "mismatch": m[1]})
            per_coll["%s%s" % (name, "+backref" if backref else "")] = n
            evaluations += n
    # ---- spec -> code, operation sequences (state graphs, every edge)
    gcs = pc.consts(MaxLen=3, K=2, MaxDepth=6) if q else pc.consts(MaxLen=4, K=2, MaxDepth=8)
    graphs = []
    walks_total = steps_total = 0
    gplans = [("InitListE", "NextList", "ListEdgeOK", "list", ["InstrumentedList", "MyList(list)"], gcs),
              ("InitSetE", "NextSet", "SetEdgeOK", "set", ["InstrumentedSet"], dict(gcs, K=3)),
              ("InitDictE", "NextDict", "DictEdgeOK", "dict", ["attribute_keyed_dict", "keyfunc_mapping"], dict(gcs, MaxLen=3))]
    gs = pc.dump_graphs_parallel(chk, [(p[0], p[1], p[5], [], [p[2]]) for p in gplans])
    for (init, nxt, prop, kind, names, c), g in zip(gplans, gs):
        r = g.tlc
        if r.violated:
            chk.violation({"spec": "PyCollections", "action": "TLC", "invariant": r.violated, "cfg": nxt},
                          "TLC: %s violated in PyCollections.tla (%s)" % (r.violated, nxt))
        states += r.distinct
        trans += r.generated
        maxlen = c["MaxDepth"]
        walks, plan = graph.plan_tours(g, maxlen, rng)
        extra = graph.random_walks(g, 150 if q else 1500, maxlen, rng)
        acts = {}
        for e in g.edges:
            acts[e[1]["op"]["n"]] = acts.get(e[1]["op"]["n"], 0) + 1
        if plan["edges_covered"] + plan["edges_filtered"] < plan["edges"] - plan["edges_beyond_depth"]:
            chk.machinery("tour planner left edges uncovered: %r" % plan)
        for name in names:
            for backref in (True, False) if name == names[0] else (False,):
                fx = po.Fixture(name, kind, cc[name][1], backref=backref)
                steps, mism = pc.replay_walks(g, walks + extra, po.SeqDriver(fx, rng))
                steps_total += steps
                walks_total += len(walks) + len(extra)
                for m in mism:
                    op = m["act"]["op"]
                    sig = _sig(name, backref, op, m["cls"], m["act"].get("exp", {}), len(m["from"] or ()), m.get("argform"))
                    sig["kind"] = "conformance-seq"
                    sig["legacy_algorithm"] = m.get("legacy")
                    vk = "seq %s%s %s %s" % (name, "+backref" if backref else "", op["n"], m["cls"])
                    vclasses[vk] = vclasses.get(vk, 0) + 1
                    chk.violation(sig, "%s%s, step %d of a sequence: %s: %s" % (name, " +backref" if backref else "", m["step"], op["n"], m["mismatch"]), m)
        graphs.append({"cfg": nxt, "distinct": r.distinct, "generated": r.generated, "edges": len(g.edges), "plan": plan, "ops": acts})
        w = walks[len(walks) // 2]
        samples.append({"sequence": [g.edges[ei][1]["op"]["n"] for ei in w], "final": g.states[g.edges[w[-1]][2]]})
    return chk.finish(
        dict(states=states, transitions=trans, traces_validated_against_impl=evaluations + walks_total,
             distinct_nontrivial=len(nontrivial), evaluations=evaluations + steps_total, samples=samples[:8], tlc_runs=runs, graphs=graphs,
             cases_per_collection=per_coll, sequence_walks=walks_total, sequence_steps=steps_total,
             operation_coverage=cov, exhaustive=True, mismatch_classes=vclasses,
             rule="one case per TLC initial state (container x operation x arguments); non-trivial = the operation adds or removes an item "
                  "or raises; each case calibrated against the builtin and replayed on every collection flavour with and without backref; "
                  "every edge of the list/set/dict sequence graphs replayed on one collection per walk",
             checker_cmd="tlc PyCollections.tla (INIT InitSlice|InitListOps|InitSetOps|InitDictOps; InitListE/NextList ... with VIEW+Emit)"),
        assumptions=["bounded: containers <= %d items, indices -%d..%d and None, steps None,+-1,+-2,+-3, assigned values <= %d items" % (
                        cs["MaxLen"], cs["Hi"], cs["Hi"], cs["MaxVal"]),
                     "the bare @collection class is compared on non-raising calls only (its decorators fire before the user's method runs)",
                     "whole-collection assignment is accounted on membership (bulk_replace), not multiplicity",
                     "set.pop() may take any member: the edge's choice is re-labelled to the member actually popped"])
