"""Deterministic baton scheduler + harness for C52 (scoped_session under thread schedules).  Nothing in /repo is modified.

Real `threading.Thread`s, exactly one runnable at any moment: the controller hands the baton to one worker and waits until that
worker reaches its next YIELD POINT.  Yield points (all installed from here):

  mode "line"  (code -> spec exploration): every source LINE of lib/sqlalchemy/orm/scoping.py and lib/sqlalchemy/util/_collections.py
               executed by a worker (sys.settrace inside each worker thread; other files are not traced), plus the harness points
               below.  One scheduler step = one line of the anchored code.
  mode "reg"   (spec -> code replay): the CALL of a registry method (__call__ / has / set / clear of ScopedRegistry /
               ThreadLocalRegistry, i.e. just before every access to the shared registry), plus the harness points.  One scheduler
               step = one action of Scoped.tla.
  harness points: the counting Session factory (before allocating the session number: "f_in"; after the Session exists: "f_out"),
               Session.close() ("close", before anything happens), operation boundaries ("call" / "ret").

A watchdog (wall clock, used ONLY as a failure detector) turns "worker did not reach its next yield point" into SchedError - a
machinery failure, never a property verdict.
"""
import os
import sys
import threading
import _thread

WATCHDOG_S = 60.0
REG_FUNCS = frozenset(["__call__", "has", "set", "clear", "setdefault"])


class SchedError(Exception):
    """machinery failure of the scheduler (watchdog, misuse)"""


class _Abort(BaseException):
    """raised inside a parked worker to unwind it when a run is abandoned"""


class Worker:
    def __init__(self, sched, name, index, fn):
        self.sched = sched
        self.name = name
        self.index = index
        self.fn = fn
        self.go = _thread.allocate_lock()      # binary semaphore: the baton (raw locks: one native hand-off per switch)
        self.go.acquire()
        self.state = "new"          # new | ready | done
        self.at = ("new",)          # description of the yield point the worker is parked at
        self.exc = None
        self.thread = None
        self.local = None           # published by the worker itself at every park (thread-local registry slot)
        self.abort = False


class Scheduler:
    def __init__(self, files, mode, watchdog=WATCHDOG_S, on_park=None):
        assert mode in ("line", "reg")
        self.files = frozenset(files)
        self.collections_file = [f for f in files if f.endswith("_collections.py")][0]
        self.mode = mode
        self.watchdog = watchdog
        self.on_park = on_park
        self.workers = []
        self.by_ident = {}
        self.back = _thread.allocate_lock()
        self.back.acquire()
        self.steps = 0
        self.line_yields = 0

    # ---- worker side
    def me(self):
        return self.by_ident.get(threading.get_ident())

    def _park(self, w, at):
        w.at = at
        if self.on_park is not None:
            self.on_park(w)
        self.back.release()
        w.go.acquire()
        if w.abort:
            raise _Abort()

    def point(self, kind, **info):
        """harness yield point of the calling worker (no-op outside workers, e.g. while the controller builds the fixture)"""
        w = self.me()
        if w is None:
            return
        self._park(w, (kind, info))

    def _gtrace(self, frame, event, arg):
        fn = frame.f_code.co_filename
        if fn in self.files:
            if self.mode == "line":
                return self._ltrace
            if fn == self.collections_file and frame.f_code.co_name in REG_FUNCS:
                w = self.me()
                if w is not None:
                    self._park(w, ("reg", {"fn": frame.f_code.co_name}))
        return None

    def _ltrace(self, frame, event, arg):
        if event == "line":
            w = self.me()
            if w is not None:
                self.line_yields += 1
                co = frame.f_code
                self._park(w, ("line", {"file": os.path.basename(co.co_filename), "line": frame.f_lineno, "fn": co.co_name}))
        return self._ltrace

    def _boot(self, w):
        self.by_ident[threading.get_ident()] = w
        w.go.acquire()
        sys.settrace(self._gtrace)
        try:
            if not w.abort:
                w.state = "ready"
                w.fn()
        except _Abort:
            pass
        except BaseException as e:     # noqa  - worker programs catch what they expect; anything else is reported by the controller
            w.exc = e
        finally:
            sys.settrace(None)
            w.state = "done"
            w.at = ("done",)
            self.back.release()

    # ---- controller side
    def spawn(self, name, fn):
        w = Worker(self, name, len(self.workers), fn)
        t = threading.Thread(target=self._boot, args=(w,), name="sched-" + name, daemon=True)
        w.thread = t
        self.workers.append(w)
        t.start()
        return w

    def runnable(self):
        return [w for w in self.workers if w.state != "done"]

    def step(self, w):
        """run worker w from its current yield point to the next one"""
        if w.state == "done":
            raise SchedError("step() on a finished worker %s" % w.name)
        self.steps += 1
        w.go.release()
        if not self.back.acquire(timeout=self.watchdog):
            raise SchedError("watchdog: worker %s did not reach a yield point within %ss (last at %r)" % (w.name, self.watchdog, w.at))
        if w.exc is not None:
            raise SchedError("worker %s died: %r" % (w.name, w.exc))
        return w.at

    def kill(self):
        """abandon the run: unwind every parked worker"""
        for w in self.workers:
            if w.state != "done":
                w.abort = True
                w.go.release()
                if not self.back.acquire(timeout=self.watchdog):
                    raise SchedError("watchdog: worker %s did not unwind" % w.name)
        for w in self.workers:
            w.thread.join(5)


# ----------------------------------------------------------------------------- the fixture: a real scoped_session
OPS = ("call", "callkw", "proxy", "pclose", "remove")


def anchored_files():
    import sqlalchemy.orm.scoping as sc
    import sqlalchemy.util._collections as co
    return [sc.__file__, co.__file__]


def make_engine(path):
    import sqlalchemy as sa
    return sa.create_engine("sqlite:///" + path, connect_args={"check_same_thread": False})


class Fixture:
    """A real scoped_session over a sessionmaker bound to a SQLite engine.  Sessions are numbered in creation order by the
    counting Session class; every Session opens a connection/transaction when it is made, so close() has a real effect
    (in_transaction() turns False), recorded as `closed` together with the closing thread."""

    def __init__(self, kind, scope_of, workdir, sched_mode, tag="x", engine=None):
        import sqlalchemy as sa
        from sqlalchemy import orm
        self.kind = kind                      # "scoped" | "tlocal"
        self.scope_of = dict(scope_of)        # thread number -> scope number
        self.nthreads = len(scope_of)
        os.makedirs(workdir, exist_ok=True)
        self.path = os.path.join(workdir, "c52_%s.sqlite" % tag)
        self.own_engine = engine is None
        self.engine = engine if engine is not None else make_engine(self.path)
        self.sessions = {}                    # number -> Session
        self.closed = []                      # (session number, thread number) in close() order
        self.creator = {}                     # session number -> thread number
        self.ncreated = 0
        self.proxy_log = []
        self.sched = Scheduler(anchored_files(), sched_mode, on_park=self._publish)
        fx = self

        class CountingSession(orm.Session):
            def __init__(self, *a, **kw):
                fx.sched.point("f_in")
                super().__init__(*a, **kw)
                fx.ncreated += 1
                self.sid = fx.ncreated
                fx.sessions[self.sid] = self
                w = fx.sched.me()
                fx.creator[self.sid] = w.index + 1 if w is not None else 0
                self.info["sid"] = self.sid
                self.connection()              # a real SQLite connection + transaction, released by close()
                fx.sched.point("f_out")

            def close(self):
                fx.sched.point("close")
                w = fx.sched.me()
                super().close()
                fx.closed.append((self.sid, w.index + 1 if w is not None else 0))

            def expire_all(self):              # the proxied METHOD used by the "proxy" operation
                w = fx.sched.me()
                fx.proxy_log.append((self.sid, w.index + 1 if w is not None else 0))
                return super().expire_all()

        self.session_class = CountingSession
        self.factory = orm.sessionmaker(bind=self.engine, class_=CountingSession)
        if kind == "scoped":
            self.scoped = orm.scoped_session(self.factory, scopefunc=self._scopefunc)
        else:
            self.scoped = orm.scoped_session(self.factory)
        self.flip = 0

    def _scopefunc(self):
        w = self.sched.me()
        return self.scope_of[w.index + 1]

    def _publish(self, w):
        if self.kind == "tlocal":
            try:
                v = getattr(self.scoped.registry.registry, "value", None)
            except Exception:
                v = None
            w.local = getattr(v, "sid", None) if v is not None else None

    # ---- operations (run inside worker threads); -> result string
    def do(self, op, variant=0):
        from sqlalchemy import exc as sa_exc
        S = self.scoped
        w = self.sched.me()
        me = w.index + 1 if w is not None else 0
        try:
            if op == "call":
                return str(S().sid)
            if op == "callkw":
                return str(S(autoflush=False).sid)
            if op == "proxy":
                if variant % 2 == 0:
                    return str(S.info["sid"])              # proxied attribute
                n = len(self.proxy_log)
                S.expire_all()                             # proxied method
                mine = [sid for sid, by in self.proxy_log[n:] if by == me]
                return str(mine[0]) if len(mine) == 1 else "proxy-log-%d" % len(mine)
            if op == "pclose":
                n = len(self.closed)
                S.close()
                mine = [sid for sid, by in self.closed[n:] if by == me]
                return str(mine[0]) if len(mine) == 1 else "close-log-%d" % len(mine)
            if op == "remove":
                S.remove()
                return "ok"
        except sa_exc.InvalidRequestError:
            return "InvalidRequestError"
        raise ValueError(op)

    # ---- observation (controller, all workers parked)
    def observe(self):
        ns = self.nthreads
        if self.kind == "scoped":
            d = self.scoped.registry.registry
            reg = [getattr(d.get(s), "sid", 0) if s in d else 0 for s in range(1, ns + 1)]
            extra = [k for k in d if k not in range(1, ns + 1)]
            if extra:
                reg.append(-1)
        else:
            reg = [(w.local or 0) for w in self.sched.workers]
            reg += [0] * (ns - len(reg))
        return {"reg": reg, "closed": sorted(set(s for s, _ in self.closed)), "n": self.ncreated}

    def dispose(self):
        for s in list(self.sessions.values()):
            try:
                orm_close = super(self.session_class, s).close
                orm_close()
            except Exception:
                pass
        if self.own_engine:
            self.engine.dispose()
            try:
                os.unlink(self.path)
            except OSError:
                pass


# ----------------------------------------------------------------------------- code -> spec: one explored schedule
class Monitor:
    """harness-side statement of the property on the real objects, evaluated after every scheduler step"""

    def __init__(self, fx):
        self.fx = fx
        ns = fx.nthreads
        self.cur = {s: set() for s in range(1, ns + 1)}
        self.ever = {s: set() for s in range(1, ns + 1)}
        self.problems = []
        self.prev = None
        self.shared = {s for s in self.cur if sum(1 for t in fx.scope_of if fx.scope_of[t] == s) > 1}

    def scope(self, t):
        return self.fx.scope_of[t] if self.fx.kind == "scoped" else t

    def bad(self, inv, text, **sig):
        self.problems.append((dict(sig, invariant=inv, kind="harness"), text))

    def after_step(self, t, at, obs):
        fx = self.fx
        s = self.scope(t)
        if self.prev is not None:
            for i, (a, b) in enumerate(zip(self.prev["reg"], obs["reg"])):
                if a != b and i + 1 != s:
                    self.bad("OtherScopesUntouched", "a step of thread %d (scope %d, at %r) changed the registry entry of scope %d: %r -> %r" % (
                        t, s, at, i + 1, a, b))
        self.prev = obs
        for sid, by in fx.closed:
            own = self.scope(fx.creator[sid])
            if self.scope(by) != own:
                self.bad("ClosedOnlyByOwnScope", "session %d of scope %d was closed by thread %d of scope %d" % (sid, own, by, self.scope(by)))
        closed = set(obs["closed"])
        for sid, sess in fx.sessions.items():
            # a session is in fx.sessions only once its connection() is open; close() and its record happen within one step
            if (sid in closed) != (not sess.in_transaction()):
                self.bad("HandedStaysOpen", "session %d: close() %s called on it but in_transaction() is %r" % (
                    sid, "was" if sid in closed else "was never", sess.in_transaction()))
        for i, sid in enumerate(obs["reg"]):
            if sid > 0 and self.scope(fx.creator[sid]) != i + 1:
                self.bad("RegistryOwned", "registry entry of scope %d is session %d made by scope %d" % (i + 1, sid, self.scope(fx.creator[sid])))

    def on_ret(self, t, op, res, obs):
        s = self.scope(t)
        if op == "remove":
            if s not in self.shared:
                if obs["reg"][s - 1] != 0:
                    self.bad("RemoveClosesAndDiscards", "after remove() by thread %d the registry still holds session %d for scope %d" % (
                        t, obs["reg"][s - 1], s), op=op)
                for sid in self.cur[s]:
                    if sid not in obs["closed"]:
                        self.bad("RemoveClosesAndDiscards", "remove() by thread %d did not close session %d of scope %d" % (t, sid, s), op=op)
            self.cur[s] = set()
            return
        if not res.isdigit():
            return
        sid = int(res)
        self.cur[s].add(sid)
        self.ever[s].add(sid)
        if len(self.cur[s]) > 1:
            self.bad("SameScopeOneSession", "scope %d was handed sessions %r without a remove() in between" % (s, sorted(self.cur[s])), op=op)
        for s2 in self.ever:
            if s2 != s and sid in self.ever[s2]:
                self.bad("ScopesDisjoint", "session %d was handed to scope %d and to scope %d" % (sid, s2, s), op=op)
        if s not in self.shared and obs["reg"][s - 1] != sid:
            self.bad("ReturnedIsRegistered", "thread %d got session %d but the registry of scope %d holds %d" % (t, sid, s, obs["reg"][s - 1]), op=op)


def policy_random(rng, p_switch):
    state = {"cur": None}

    def pol(r):
        cur = state["cur"]
        if cur in r and rng.random() >= p_switch:
            return cur
        state["cur"] = rng.choice(r)
        return state["cur"]
    return pol


def policy_preempt(points):
    """bounded pre-emption: the current thread keeps the baton until it finishes, except at the given global step numbers,
    where the baton moves to another runnable thread.  points: {step_no: which of the others}"""
    state = {"cur": None, "n": 0}

    def pol(r):
        state["n"] += 1
        cur = state["cur"]
        if cur in r and state["n"] not in points:
            return cur
        others = [w for w in r if w is not cur] or r
        state["cur"] = others[points.get(state["n"], 0) % len(others)]
        return state["cur"]
    return pol


def explore(job, workdir):
    """job: dict(tid, kind, sc=[scope of thread 1, ...], programs=[[op, ...] per thread], policy=[...]) -> dict(trace, problems, stats)
    One event per scheduler step: t, k (call | run | ret), op, res, o = observation after the step."""
    import random
    kind, sc = job["kind"], job["sc"]
    fx = Fixture(kind, {i + 1: s for i, s in enumerate(sc)}, workdir, "line", tag="e%d_%d" % (os.getpid(), job["tid"]))
    sched = fx.sched
    mon = Monitor(fx)
    pol = job["policy"]
    policy = policy_random(random.Random(pol[1]), pol[2]) if pol[0] == "random" else policy_preempt({int(k): v for k, v in pol[1].items()})

    def program(t, ops):
        def run():
            for i, op in enumerate(ops):
                sched.point("call", op=op)
                res = fx.do(op, variant=(t + i))
                sched.point("ret", op=op, res=res)
        return run
    for i, ops in enumerate(job["programs"]):
        sched.spawn("t%d" % (i + 1), program(i + 1, ops))
    events = []
    stats = {"steps": 0, "events": 0, "compressed": 0}
    curop = {}
    try:
        while True:
            r = sched.runnable()
            if not r:
                break
            w = policy(r)
            at = sched.step(w)
            t = w.index + 1
            if at[0] == "done":
                continue
            obs = fx.observe()
            stats["steps"] += 1
            mon.after_step(t, at, obs)
            if at[0] == "call":
                curop[t] = at[1]["op"]
                ev = {"t": t, "k": "call", "op": at[1]["op"], "res": "-", "o": obs}
            elif at[0] == "ret":
                mon.on_ret(t, at[1]["op"], at[1]["res"], obs)
                ev = {"t": t, "k": "ret", "op": at[1]["op"], "res": at[1]["res"], "o": obs}
            else:
                ev = {"t": t, "k": "run", "op": curop.get(t, "-"), "res": "-", "o": obs}
                # consecutive steps of one thread without an observable change are ONE event (the trace spec may place any number
                # of unobservable actions of that thread before an event of it)
                if events and events[-1]["k"] == "run" and events[-1]["t"] == t and events[-1]["o"] == obs:
                    stats["compressed"] += 1
                    continue
            events.append(ev)
    except SchedError:
        sched.kill()
        fx.dispose()
        raise
    stats["events"] = len(events)
    stats["line_yields"] = sched.line_yields
    stats["created"] = fx.ncreated
    fx.dispose()
    return {"trace": {"id": job["tid"], "kind": kind, "sc": sc, "ev": events}, "problems": mon.problems, "stats": stats}


# ----------------------------------------------------------------------------- spec -> code: graph replay driver
def _items(f):
    if isinstance(f, list):
        return [(i + 1, v) for i, v in enumerate(f)]
    return [(int(k), v) for k, v in f.items()]


class Driver:
    """Replays walks of the Scoped.tla state graph on the real scoped_session: every edge names a thread; the scheduler runs that
    thread from its yield point to the next one (mode "reg": one access to the shared registry per step) and the registry / closed
    set / number of sessions created must equal the successor state; Ret edges compare what the operation returned."""

    # spec action -> the yield points at which the thread may be parked afterwards
    def __init__(self, wid, workdir):
        self.wid = wid
        self.workdir = workdir
        self.fx = None
        self.n = 0
        self.cmd = {}
        os.makedirs(workdir, exist_ok=True)
        self.path = os.path.join(workdir, "c52_r%d.sqlite" % wid)
        self.engine = make_engine(self.path)

    def _teardown(self):
        if self.fx is not None:
            for t in self.cmd:
                self.cmd[t] = None
            self.fx.sched.kill()
            self.fx.dispose()
            self.fx = None

    def reset(self, state):
        self._teardown()
        K = state["K"]
        sc = [s for _, s in sorted(_items(K["sc"]))]
        self.n += 1
        self.fx = Fixture(K["kind"], {i + 1: s for i, s in enumerate(sc)}, self.workdir, "reg", tag="r%d" % self.wid, engine=self.engine)
        self.cmd = {t: None for t in range(1, len(sc) + 1)}
        self.variant = 0
        fx = self.fx

        def program(t):
            def run():
                while True:
                    fx.sched.point("idle")
                    op = self.cmd[t]
                    if op is None:
                        return
                    self.variant += 1
                    res = fx.do(op, variant=self.variant)
                    fx.sched.point("ret", op=op, res=res)
            return run
        self.workers = {}
        for t in sorted(self.cmd):
            w = fx.sched.spawn("t%d" % t, program(t))
            self.workers[t] = w
            at = fx.sched.step(w)
            if at[0] != "idle":
                raise SchedError("worker did not reach idle: %r" % (at,))

    EXPECT = {"Start": ("reg",), "Read": ("f_in", "ret", "close"), "Create": ("f_out",), "SetDef": ("ret", "close"),
              "KHas": ("ret", "f_in"), "KSet": ("ret", "close"), "KClose": ("ret",), "RHas": ("reg",), "Close": ("reg", "ret"),
              "Clear": ("ret",)}

    def _run_to(self, t, kinds, skip=("reg",)):
        """step thread t until it parks at one of `kinds`; yield points in `skip` that are not expected are passed over when the
        registry access they announce is not a spec action of its own (set() inside the keyword call: scopefunc + store is KSet)"""
        w = self.workers[t]
        for _ in range(6):
            at = self.fx.sched.step(w)
            if at[0] in kinds:
                return at
            if at[0] in skip:
                continue
            return at
        return at

    def step(self, frm, act, to):
        a, t = act["a"], act["t"]
        w = self.workers[t]
        fx = self.fx
        if a == "Ret":
            if w.at[0] != "ret":
                return "thread %d is at %r where the specification returns %r from %s" % (t, w.at, act["ret"], act["op"])
            got = w.at[1]["res"]
            if got != act["ret"]:
                return "%s by thread %d returned %r, spec %r" % (act["op"], t, got, act["ret"])
            at = fx.sched.step(w)
            if at[0] != "idle":
                return "thread %d did not return to idle: %r" % (t, at)
        elif a == "Start":
            if w.at[0] != "idle":
                return "thread %d is not idle at Start: %r" % (t, w.at)
            self.cmd[t] = act["op"]
            at = fx.sched.step(w)
            if at[0] != "reg":
                return "Start(%s) by thread %d: first yield point %r, expected a registry access" % (act["op"], t, at)
        else:
            exp = self.EXPECT[a]
            if a == "KSet":
                # registry.set(sess): the yield point announcing it is passed, the store itself is the step
                at = self._run_to(t, ("ret", "close"))
            elif a == "Create":
                if w.at[0] != "f_in":
                    return "thread %d is at %r where the specification creates a session" % (t, w.at)
                at = fx.sched.step(w)
            else:
                at = fx.sched.step(w)
            if at[0] not in exp:
                return "%s by thread %d (%s): parked at %r, expected one of %r" % (a, t, act["op"], at, exp)
            # the successor pc of the specification tells which of the expected points it must be
            pc = dict(_items(to["T"]))[t]["pc"]
            want = {"create": "f_in", "kcreate": "f_in", "setdef": "f_out", "kset": "f_out", "close": "close", "kclose": "close",
                    "ret": "ret", "read": "reg", "clear": "reg", "rhas": "reg", "khas": "reg"}[pc]
            if at[0] != want:
                return "%s by thread %d (%s): parked at %r, the specification is at pc %s (%s)" % (a, t, act["op"], at, pc, want)
        obs = fx.observe()
        R = to["R"]
        exp_obs = {"reg": [v for _, v in sorted(_items(R["reg"]))], "closed": sorted(R["closed"]), "n": R["n"]}
        if obs != exp_obs:
            return "after %s by thread %d (%s): registry/closed/created %r, spec %r" % (a, t, act["op"], obs, exp_obs)
        return None

    def finish(self, state):
        """drain: let every thread finish the operation it is in (fixed order), then the real registry must still be consistent with
        what the sessions themselves say"""
        fx = self.fx
        for t in sorted(self.workers):
            w = self.workers[t]
            for _ in range(40):
                if w.at[0] in ("idle", "ret", "done"):
                    break
                fx.sched.step(w)
            else:
                return "drain: thread %d never finished its operation (at %r)" % (t, w.at)
        obs = fx.observe()
        closed = set(obs["closed"])
        for sid, s in fx.sessions.items():
            if (sid in closed) != (not s.in_transaction()):
                return "drain: session %d closed=%r but in_transaction()=%r" % (sid, sid in closed, s.in_transaction())
        return None

    def close(self):
        self._teardown()
        self.engine.dispose()
        try:
            os.unlink(self.path)
        except OSError:
            pass


# ----------------------------------------------------------------------------- which keyword-call variant does the tree have
def probe_tree(workdir):
    """Runs the has()/set() race of the keyword call on the real code: two threads of ONE scope call scoped(**kw), both pass has()
    before either stores.  -> {"kw_atomic": False} when both are handed a session of their own (the pinned tree),
    {"kw_atomic": True} when the second one gets InvalidRequestError (repaired form).  Decides the spec variant, never a verdict."""
    fx = Fixture("scoped", {1: 1, 2: 1}, workdir, "reg", tag="probe%d" % os.getpid())
    sched = fx.sched
    res = {}

    def prog(t):
        def run():
            sched.point("idle")
            res[t] = fx.do("callkw")
            sched.point("ret")
        return run
    ws = [sched.spawn("t%d" % t, prog(t)) for t in (1, 2)]
    try:
        for w in ws:
            sched.step(w)                     # idle
        plan = [(0, "reg"), (0, "f_in"), (1, "reg"), (1, "f_in"), (0, "f_out"), (1, "f_out")]
        for i, want in plan:
            at = sched.step(ws[i])
            if at[0] != want:
                raise SchedError("probe: thread %d parked at %r, expected %s" % (i + 1, at, want))
        for w in ws:
            for _ in range(8):
                if sched.step(w)[0] == "ret":
                    break
            else:
                raise SchedError("probe: thread %s never returned" % w.name)
        obs = fx.observe()
    finally:
        sched.kill()
        fx.dispose()
    if res.get(1) == "1" and res.get(2) == "2" and obs["reg"][0] == 2:
        return {"kw_atomic": False, "probe": dict(res=res, obs=obs)}
    if res.get(1) == "1" and res.get(2) == "InvalidRequestError" and obs["reg"][0] == 1 and obs["closed"] == [2]:
        return {"kw_atomic": True, "probe": dict(res=res, obs=obs)}
    raise SchedError("probe: keyword-call race has an outcome neither variant of Scoped.tla describes: %r %r" % (res, obs))
