"""C53 horizontal sharding routes reads and writes per the shard choosers - Sharding.tla (DESIGN 3.14, 4 C52/C53).

The chooser functions (shard_chooser: grp -> shard; execute_chooser: statement class -> shards in merge order; identity_chooser:
pk -> shards in lookup order) and the initial data set are tables of a PROFILE; the check generates profiles (hand-made corner
cases + seeded random ones), TLC enumerates every history of Add / Flush / Commit / Rollback / Query (all | grp filter | explicit
shard) / Get / Modify / Delete / expunge_all up to a depth for every profile and checks the routing invariants; every labelled edge
is then replayed on a real ShardedSession over 2-3 SQLite files.
"""
import itertools
import json
import os
import random

import sqlalchemy  # noqa: F401  (imported before the replay workers fork)
import sqlalchemy.ext.horizontal_shard  # noqa: F401

from engine import graph, tlc
from checks.sharding_driver import Driver

LEVEL = "model_checking"
MANIFEST = dict(
    text="Sharding.tla models one ShardedSession over 2-3 databases with the three chooser functions and the initial data set as constant tables "
         "(profiles: hand-made corner cases - same primary key in several shards, choosers that select shards without matching rows or miss "
         "shards, reversed merge order, empty identity chooser, rows living in a shard other than shard_chooser's - plus seeded random tables). "
         "TLC enumerates every history of add/flush/commit/rollback/query(all, filter, explicit shard)/get (plain, with identity_token, with a bind/option shard id)/merge of a detached edited copy/modify/delete/expunge_all up to depth "
         "5-7 per profile and checks: rows written by a flush live exactly in the shard shard_chooser selected, UPDATE/DELETE/commit/rollback "
         "change only what they must, a query returns exactly (as a bag, in merge order) the matching rows of the shards execute_chooser "
         "selects, identity keys carry the shard the row lives in, Session.get consults identity_chooser's shards in order before any database, an object addressed with its shard (get(identity_token=), merge()) is that shard's object and a flush writes each shard only for objects of that shard. "
         "Every edge is replayed on a real ShardedSession over SQLite files comparing, after each step, the call outcome, which file holds which "
         "row (raw sqlite3), what the session's transaction sees per shard, the identity map's (pk, identity_token) keys, Python object "
         "identity per key, and attribute values.",
    design_ref="3.14 (Sharding), 4 (C52, C53)",
    note="trusted: TLC, SQLite files as the shard databases (raw sqlite3 connections read the committed rows), profiles are sampled (all "
         "hand-made ones + seeded random ones per run), autoflush off, one mapped class without relationships (lazy loads / relationship "
         "loaders with set_shard_id, bulk ORM UPDATE/DELETE through execute_chooser, the deprecated id_chooser/query_chooser are not covered); "
         "the program never creates two rows with one primary key in one database",
    technique="TLA+ spec (Sharding.tla) + TLC exhaustive histories per chooser profile; spec->code replay of every state-graph edge on a real "
              "ShardedSession over SQLite files")

INVS = ["RowsWhereChosen", "RowOnce", "PkUniquePerShard", "KeysAreHome"]
PROPS = ["WritesOnlyByFlush", "QueryIsUnion", "GetOrder", "TokenHonoured", "FlushWritesHome"]
FOOTPRINT = ["Add", "Flush", "Commit", "Rollback", "Expunge", "Modify", "Delete", "QueryAll", "QueryGrp", "QueryShard", "Get", "GetTok", "GetBind", "Merge"]


def row(pk, g, v=0):
    return {"pk": pk, "g": g, "v": v}


def handmade():
    """2 shards, 2 grp values, primary keys {1, 2}"""
    return [
        # the natural sharding function; the same primary key lives in both shards
        dict(name="natural", sc=[1, 2], qall=[1, 2], qgrp=[[1], [2]], qget=[1, 2], ic=[[1, 2], [1, 2]],
             init=[[row(1, 1), row(2, 1)], [row(1, 2)]]),
        # reversed merge order, identity chooser narrower than the data
        dict(name="reversed", sc=[2, 1], qall=[2, 1], qgrp=[[2], [1]], qget=[2, 1], ic=[[2], [1, 2]],
             init=[[row(1, 2)], [row(1, 1)]]),
        # everything goes to shard 1; the query chooser also names a shard without matching rows, the identity chooser may name nothing
        dict(name="one-target", sc=[1, 1], qall=[1], qgrp=[[1, 2], [2]], qget=[1], ic=[[], [2, 1]],
             init=[[row(1, 1), row(2, 2)], []]),
        # a data set written under an older sharding function: row (1, grp 1) lives in shard 2 although shard_chooser now says 1
        dict(name="misplaced", sc=[1, 2], qall=[2, 1], qgrp=[[2, 1], [2]], qget=[2], ic=[[1], [2]],
             init=[[], [row(1, 1), row(2, 2)]]),
        # empty start: everything is built by add/flush
        dict(name="empty", sc=[2, 1], qall=[1, 2], qgrp=[[2], [1]], qget=[1, 2], ic=[[1, 2], [2, 1]], init=[[], []]),
    ]


def handmade3():
    """3 shards, 3 grp values"""
    return [
        dict(name="natural3", sc=[1, 2, 3], qall=[1, 2, 3], qgrp=[[1], [2], [3]], qget=[3, 2, 1], ic=[[1, 2, 3], [3, 1]],
             init=[[row(1, 1)], [row(1, 2)], [row(1, 3), row(2, 3)]]),
        dict(name="two-of-three", sc=[3, 3, 1], qall=[3, 1], qgrp=[[3, 2], [2, 3], [1]], qget=[1, 3], ic=[[2], []],
             init=[[row(2, 3)], [row(1, 1)], [row(1, 2)]]),
    ]


def seqs(ns, allow_empty=False):
    out = [[]] if allow_empty else []
    for k in range(1, ns + 1):
        for c in itertools.permutations(range(1, ns + 1), k):
            out.append(list(c))
    return out


def random_profile(rng, ns, ng, npk, i):
    sc = [rng.randint(1, ns) for _ in range(ng)]
    S = seqs(ns)
    SE = seqs(ns, True)
    init = [[] for _ in range(ns)]
    slots = [(pk, g) for pk in range(1, npk + 1) for g in range(1, ng + 1)]
    rng.shuffle(slots)
    misplaced = rng.random() < 0.35
    for pk, g in slots[:rng.randint(1, 3)]:
        sh = rng.randint(1, ns) if misplaced else sc[g - 1]
        if all(r["pk"] != pk for r in init[sh - 1]):
            init[sh - 1].append(row(pk, g))
    for rows in init:
        rows.sort(key=lambda r: r["pk"])
    return dict(name="random%d" % i, sc=sc, qall=rng.choice(S), qgrp=[rng.choice(S) for _ in range(ng)], qget=rng.choice(S),
                ic=[rng.choice(SE) for _ in range(npk)], init=init)


def run_family(chk, rng, label, profiles, ns, ng, depth, out, dump=True, workers=1):
    only = os.environ.get("VERIF_C53_DEV_FAMILIES")        # development aid only (mutant iteration); never set by ./check or tools/
    if only and label not in only.split(","):
        return
    work = os.path.join(chk.work, label)
    os.makedirs(work, exist_ok=True)
    with open(os.path.join(work, "profiles.json"), "w") as f:
        json.dump([{k: v for k, v in p.items() if k != "name"} for p in profiles], f)
    consts = dict(NS=ns, PKs={1, 2}, NG=ng, MaxDepth=depth, MaxVal=1)
    if not dump:
        r = tlc.run("Sharding", tlc.cfg(constants=consts, invariants=INVS, properties=PROPS, view="View", constraints=["Depth"]), work,
                    workers=workers, timeout=2400, keep_stdout=False, coverage=True, env={"SHARD_PROFILES": "../profiles.json"})
        if r.violated:
            chk.violation({"spec": "Sharding", "action": "TLC", "invariant": r.violated, "family": label},
                          "TLC: %s violated in Sharding.tla (%s)" % (r.violated, label))
        out["states"] += r.distinct
        out["trans"] += r.generated
        out["runs"].append(dict(family=label, profiles=len(profiles), depth=depth, distinct=r.distinct, generated=r.generated, replayed=False))
        return
    os.environ["SHARD_PROFILES"] = "../profiles.json"
    cfgt = tlc.cfg(constants=consts, init="InitEmit", invariants=INVS, properties=PROPS, view="View", action_constraints=["Emit"],
                   constraints=["Depth"])
    g = graph.dump("Sharding", cfgt, work, timeout=2400, heap="6g")
    r = g.tlc
    if r.violated:
        chk.violation({"spec": "Sharding", "action": "TLC", "invariant": r.violated, "family": label},
                      "TLC: %s violated in Sharding.tla (%s)" % (r.violated, label))
    out["states"] += r.distinct
    out["trans"] += r.generated
    cov = out["cov"]
    nontriv = 0
    for fk, act, tk in g.edges:
        cov[act["a"]] = cov.get(act["a"], 0) + 1
        st = g.states[fk]["st"]
        if act["a"] in ("GetTok", "Merge"):
            # the explicit token matters: a same-primary-key object of ANOTHER shard is in the identity map, the addressed one is not
            im = {tuple(k) for k in st["im"]}
            if (act["x"], act["y"]) not in im and any(k[0] == act["x"] and k[1] != act["y"] for k in im):
                out["collide_" + act["a"]] = out.get("collide_" + act["a"], 0) + 1
        if act["a"].startswith("Query") or act["a"] in ("Get", "GetTok", "GetBind", "Merge"):
            # the answer depends on the choosers: rows exist in more than one shard, or the same primary key in two shards
            if sum(1 for rows in st["work"] if rows) > 1:
                nontriv += 1
            if act["ret"] == "MultipleResultsFound":
                out["multi"] += 1
            if isinstance(act["ret"], list) and len({e["pk"] for e in act["ret"]}) < len(act["ret"]):
                out["samepk"] += 1
        elif act["a"] in ("Flush", "Commit") and (st["pend"] or st["dirty"] or st["del"]):
            nontriv += 1
    walks, plan = graph.plan_tours(g, depth, rng)
    extra = graph.random_walks(g, 100 if chk.quick else 1000, depth, rng)
    steps, mism = graph.replay(g, walks + extra, lambda wid, wd: Driver(wid, wd), os.path.join(work, "replay"), nproc=16)
    names = {json.dumps({k: v for k, v in p.items() if k != "name"}, sort_keys=True): p["name"] for p in profiles}
    for m in mism:
        a = m["act"] if isinstance(m["act"], dict) else {"a": m["act"]}
        P = (m["to"] or {}).get("P")
        pname = names.get(json.dumps(P, sort_keys=True), "?") if P else "?"
        chk.violation({"spec": "Sharding", "action": a.get("a"), "kind": "conformance", "family": label, "profile": pname},
                      "real ShardedSession diverges from Sharding.tla (%s, profile %s): %s" % (label, pname, m["mismatch"]),
                      {"profile": P, "walk": [{k: v for k, v in w.items() if k != "obs"} for w in m["walk"]] if isinstance(m["walk"], list) else m["walk"],
                       "step": m["step"], "mismatch": m["mismatch"]})
    out["walks"] += len(walks) + len(extra)
    out["steps"] += steps
    out["edges"] += len(g.edges)
    out["nontriv"] += nontriv
    out["runs"].append(dict(family=label, profiles=[p["name"] for p in profiles], depth=depth, distinct=r.distinct, generated=r.generated,
                            edges=len(g.edges), plan=plan, random_walks=len(extra), mismatches=len(mism), replayed=True))
    if walks and len(out["samples"]) < 4:
        w = max(walks, key=lambda w: sum(1 for ei in w if g.edges[ei][1]["a"] in ("QueryAll", "Get", "Flush")))
        out["samples"].append({"family": label, "profile": g.states[g.edges[w[0]][0]]["P"],
                               "walk": ["%s(%s,%s)->%s" % (g.edges[ei][1]["a"], g.edges[ei][1]["x"], g.edges[ei][1]["y"],
                                                            json.dumps(g.edges[ei][1]["ret"])) for ei in w]})


def main(chk):
    rng = random.Random(chk.seed)
    out = dict(states=0, trans=0, cov={}, walks=0, steps=0, edges=0, nontriv=0, multi=0, samepk=0, runs=[], samples=[])
    hm, hm3 = handmade(), handmade3()
    if chk.quick:
        run_family(chk, rng, "hand-made-2-shards", hm, 2, 2, 5, out)
        run_family(chk, rng, "random-2-shards", [random_profile(rng, 2, 2, 2, i) for i in range(4)], 2, 2, 4, out)
        run_family(chk, rng, "3-shards", hm3[:1] + [random_profile(rng, 3, 3, 2, i) for i in range(2)], 3, 3, 4, out)
        run_family(chk, rng, "model-check-only", hm + [random_profile(rng, 2, 2, 2, 100 + i) for i in range(20)], 2, 2, 6, out, dump=False,
                   workers=tlc.NPROC)
    else:
        run_family(chk, rng, "hand-made-2-shards", hm, 2, 2, 6, out)
        run_family(chk, rng, "random-2-shards", [random_profile(rng, 2, 2, 2, i) for i in range(16)], 2, 2, 5, out)
        run_family(chk, rng, "3-shards", hm3 + [random_profile(rng, 3, 3, 2, i) for i in range(6)], 3, 3, 4, out)
        run_family(chk, rng, "model-check-only", hm + [random_profile(rng, 2, 2, 2, 100 + i) for i in range(120)], 2, 2, 7, out, dump=False,
                   workers=tlc.NPROC)
        run_family(chk, rng, "model-check-only-3-shards", hm3 + [random_profile(rng, 3, 3, 2, 100 + i) for i in range(60)], 3, 3, 6, out,
                   dump=False, workers=tlc.NPROC)
    cov = out["cov"]
    for a in FOOTPRINT:
        if not cov.get(a):
            chk.machinery("vacuous: no edge with action %s" % a)
    if not out["samepk"]:
        chk.machinery("vacuous: no query returned the same primary key from two shards")
    for a in ("GetTok", "Merge"):
        if not out.get("collide_" + a):
            chk.machinery("vacuous: no %s edge addresses a shard while only the same primary key's object of another shard is loaded" % a)
    if not out["multi"]:
        chk.machinery("vacuous: no Get met the same primary key in two of execute_chooser's shards")
    return chk.finish(
        dict(states=out["states"], transitions=out["trans"], traces_validated_against_impl=out["walks"], evaluations=out["steps"],
             graph_edges=out["edges"], distinct_nontrivial=out["nontriv"], same_pk_from_two_shards_results=out["samepk"],
             get_multiple_results_edges=out["multi"], token_collision_gettok_edges=out.get("collide_GetTok", 0),
             token_collision_merge_edges=out.get("collide_Merge", 0), action_coverage=cov, tlc_runs=out["runs"], samples=out["samples"], exhaustive=True,
             rule="every labelled edge (one session operation in one state of one chooser/data-set profile) replayed on a real ShardedSession; "
                  "non-trivial = a query/get issued while rows exist in more than one shard, or a flush/commit that writes",
             checker_cmd="tlc Sharding.tla (VIEW View, ACTION_CONSTRAINT Emit, CONSTRAINT Depth; profiles via IOEnv.SHARD_PROFILES)"),
        assumptions=["SQLite files as shards; 2-3 shards, primary keys {1,2}, 2-3 grp values, val in 0..1; histories up to depth 4-7",
                     "chooser tables and data sets are sampled: the hand-made profiles plus seeded random ones",
                     "autoflush=False; expire_on_commit default (attribute reads after commit/rollback refresh from the object's own shard)"])
