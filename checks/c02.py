"""C02 the compiled-statement cache is transparent - StmtCache.tla over StmtShapes.tla (DESIGN 3.13, 4 C02)."""
import random

from engine import graph, tlc
from checks import stmtcache_driver as sd

LEVEL = "model_checking"
MANIFEST = dict(
    text="StmtShapes.tla is a grammar of ~800 well-formed Core/ORM statement shapes (select / joins / subquery / CTE / union / EXISTS / "
         "LIMIT / labels / DISTINCT / loader options / INSERT-UPDATE-DELETE with RETURNING / TextualSelect / cast, type_coerce, literal and typed "
         "bindparam over types that differ in one constructor argument) with their meaning over a fixed 5-row database: "
         "bound values in placeholder order (declaratively and via extracted-parameter positions; TLC checks both agree), result ids, "
         "rowcount, secondary selectin statement. StmtCache.tla is the engine's compiled cache as a state machine (squishy LRU of capacity 2, "
         "entries remember the execution that populated them, hits rebind by position); TLC checks in every reachable cache state that the "
         "delivered SQL class, values and rows equal the cache-free meaning, that equal keys imply equal SQL and placeholder layout, that a hit "
         "never delivers the populating values, and the LRU bounds; three seeded design faults must be rejected. Binding: every shape x 4 "
         "valuations is built and executed cold on a cache-less engine and compared with the specification (plus: equal real cache keys => "
         "identical SQL and bind types over all shapes); every edge of the cache graphs of sampled groups of one-attribute neighbours is "
         "replayed on an engine with query_cache_size=2 and in lockstep on a cache-less engine, comparing SQL text, parameters, cache_hit, rows "
         "and the real LRU content with the specification after every step.",
    design_ref="3.13, 4 (C02)",
    note="trusted: TLC, SQLite as the database, the shape builder checks/stmt_common.py; SQLite dialect only; integer table columns (bind "
         "types are compared by repr); groups of 4 shapes sampled per run, not all pairs share a cache",
    technique="TLA+ specs (StmtShapes.tla, StmtCache.tla) + TLC exhaustive over the cache graph; spec->code: TLC-enumerated shape table "
              "executed on real engines + replay of every state-graph edge")
INVS = ["Transparent", "NoStaleValues", "KeysSound", "LruSane", "OnlyDocumentedError", "NoErrorWithoutMaps"]
PROPS = ["CacheMoves"]
KINDS = ["sel", "orm", "ins", "upd", "del", "txt", "typ"]
TYP_C = ["cast", "tcoerce", "literal", "bind"]
TYP_O = ["n10", "n10_0", "n10_2", "n10_f", "n10_d0", "s", "s0", "s5"]
TXT_GROUP = ["txt|a|none|none|none|named", "txt|a|none|none|none|pos", "txt|a|eq|none|none|named", "txt|a|eq|none|none|pos"]
SELFTEST_GROUP = ["sel|a|eq|none|none|none", "sel|a|in|none|limit|none", "upd|a|eqand|none|none|ret", "orm|a|eq|none|none|selectin"]


def neighbours(name, names):
    a = name.split("|")
    out = []
    for n in names:
        b = n.split("|")
        if sum(1 for x, y in zip(a, b) if x != y) == 1:
            out.append(n)
    return out


def nkeys(name):
    k, f, c, w, d, o = name.split("|")
    return (2 if (c in ("eq", "eqand", "orin") and k != "ins") else 1) + (1 if o == "selectin" else 0)


def pick_groups(names, rng, n, size=4):
    """each group: a base shape + shapes that differ from it in exactly ONE attribute (the missing-_traverse_internals detector);
    the bases rotate over the statement kinds so every run has Core selects, ORM selects with loader options and DML"""
    by_kind = {}
    for nm in names:
        by_kind.setdefault(nm.split("|")[0], []).append(nm)
    order = ["sel", "orm", "upd", "sel", "orm", "del", "sel", "orm", "ins"]
    groups = []
    tries = 0
    while len(groups) < n and tries < 50 * n:
        tries += 1
        kind = order[len(groups) % len(order)]
        base = rng.choice(by_kind[kind])
        if kind == "orm" and len(groups) % 2 == 1 and "selectin" not in base:
            continue
        nb = neighbours(base, names)
        if len(nb) < size - 1:
            continue
        # prefer neighbours along different attributes
        rng.shuffle(nb)
        chosen, dims = [], set()
        for x in nb:
            dim = [i for i, (p, q_) in enumerate(zip(base.split("|"), x.split("|"))) if p != q_][0]
            if dim not in dims:
                dims.add(dim)
                chosen.append(x)
            if len(chosen) == size - 1:
                break
        for x in nb:
            if len(chosen) == size - 1:
                break
            if x not in chosen:
                chosen.append(x)
        g = frozenset([base] + chosen)
        if sum(nkeys(x) for x in g) < 4:          # eviction (capacity 2: pruning at the 4th entry) must be reachable
            continue
        if g not in groups:
            groups.append(g)
    return groups


def table_phase(chk, kinds, nv, maps, lam_none_bind=False, schema_only=False, tag=""):
    """TLC enumerates the shapes; each is executed cold on the cache-less engine.  -> (tlc result, table dict, TableChecker, mismatches)"""
    r = sd.tlc_table(chk, kinds, nv, maps, chk.work + "/table" + tag, lam_none_bind=lam_none_bind, schema_only=schema_only)
    if r.violated:
        chk.violation({"spec": "StmtShapes", "action": "TLC", "invariant": r.violated}, "TLC: %s violated by a shape of StmtShapes.tla" % r.violated)
    if not r.json:
        chk.machinery("TLC printed no shapes")
    table = {c["name"]: c for c in r.json}
    vals = r.json[0]["vals"]
    ctx = sd.Ctx(chk.work + "/tab-eng" + tag, 2)
    tc = sd.TableChecker(ctx, vals)
    mism = []
    for c in r.json:
        for p, bym in enumerate(c["cases"], 1):
            for m, case in bym.items():
                for cat, fld, txt in tc.case(c["name"], p, m, case):
                    mism.append(dict(cat=cat, field=fld, shape=c["name"], p=p, m=m, text=txt))
    ctx.close()
    r.json = []
    return r, table, vals, tc, mism


def faulty_selftest(chk, group, nv, maps, cap, lam_none_bind=False, faults=("stale_params", "key_ignores_struct", "key_ignores_mapflag")):
    """the invariants must reject the three classic design errors (non-vacuity of the TLC side)"""
    out = {}
    for faulty, expect in (("stale_params", ("Transparent", "NoStaleValues")), ("key_ignores_struct", ("Transparent", "KeysSound")),
                           ("key_ignores_mapflag", ("Transparent", "KeysSound", "OnlyDocumentedError"))):
        if faulty not in faults or (faulty == "key_ignores_mapflag" and len(maps) < 2):
            continue
        cfgt = tlc.cfg(constants=sd.consts(group=group, nv=nv, maps=maps, cap=cap, depth=4, faulty=faulty, lam_none_bind=lam_none_bind),
                       invariants=INVS,
                       view="View", constraints=["Depth"])
        r = tlc.run("StmtCache", cfgt, chk.work + "/faulty", workers=2, timeout=900, keep_stdout=False, heap="2g")
        out[faulty] = r.violated
        if not r.violated or not any(e in str(r.violated) for e in expect):
            chk.machinery("vacuous: StmtCache.tla with Faulty=%s is not rejected by %s (got %r)" % (faulty, expect, r.violated))
    return out


def graph_phase(chk, plans, cap, vals, table, rng, extra_random, maxlen, lam_none_bind=False):
    """plans: list of (group, nv, maps, modes, depth).  One TLC run per plan (invariants + action properties + edge dump), run
    concurrently (each is single-threaded); the graphs are merged and every edge is replayed."""
    from concurrent.futures import ThreadPoolExecutor
    jobs = []
    for i, (group, nv, maps, modes, depth) in enumerate(plans):
        cfgt = tlc.cfg(constants=sd.consts(group=group, nv=nv, maps=maps, modes=modes, cap=cap, depth=depth, lam_none_bind=lam_none_bind),
                       init="InitEmit",
                       invariants=INVS, properties=PROPS, view="View", action_constraints=["Emit"], constraints=["Depth"])
        jobs.append((cfgt, chk.work + "/graph%d" % i, 2400))
    with ThreadPoolExecutor(max(1, min(len(jobs), tlc.NPROC))) as ex:
        graphs = list(ex.map(sd.dump_group, jobs))
    runs = []
    for (group, nv, maps, modes, depth), g in zip(plans, graphs):
        r = g.tlc
        if r.violated:
            chk.violation({"spec": "StmtCache", "action": "TLC", "invariant": r.violated, "group": sorted(group)},
                          "TLC: %s violated in StmtCache.tla (group %s)" % (r.violated, sorted(group)))
        runs.append(dict(group=sorted(group), nv=nv, maps=list(maps), modes=list(modes), distinct=r.distinct, generated=r.generated,
                         edges=len(g.edges), depth=r.depth, wall_s=round(r.wall, 1)))
    G = sd.merge(graphs)
    walks, plan = graph.plan_tours(G, maxlen, rng)
    extra = graph.random_walks(G, extra_random, maxlen + 3, rng)
    steps, mism = graph.replay(G, walks + extra, lambda wid, wd: sd.Driver(wid, wd, cap, vals, table), chk.work + "/replay", nproc=16)
    return G, graphs, runs, walks, extra, plan, steps, mism


def edge_stats(g):
    cov = {}
    for fk, act, tk in g.edges:
        if act["a"] != "Exec":
            cov["Clear"] = cov.get("Clear", 0) + 1
            continue
        k = "%s/%s" % (act["mode"], act["hit"]) if act["out"] == "ok" else "error/" + act["out"]
        cov[k] = cov.get(k, 0) + 1
        fc, tc_ = g.states[fk]["c"], g.states[tk]["c"]
        if act["out"] == "ok" and act["hit"] == "hit":
            ent = tc_[-1 if act["hit2"] == "-" else -2]
            # hit on an entry populated by a DIFFERENT valuation / map: the poisoning hazard
            if ent[1] != act["p"]:
                cov["hit_other_values"] = cov.get("hit_other_values", 0) + 1
            if ent[2] != act["m"]:
                cov["hit_other_map"] = cov.get("hit_other_map", 0) + 1
        if act["mode"] == "cached" and act["out"] == "ok":
            misses = (1 if act["hit"] == "miss" else 0) + (1 if act["hit2"] == "miss" else 0)
            if len(tc_) < len(fc) + misses:
                cov["evicting"] = cov.get("evicting", 0) + 1
        if act.get("hit2") in ("hit", "miss"):
            cov["secondary/" + act["hit2"]] = cov.get("secondary/" + act["hit2"], 0) + 1
    return cov


def interesting(G):
    """sample selection: the walk with most hits on entries populated by other values/maps, distinct shapes and evictions"""
    def score(w):
        n = 0
        for ei in w:
            fk, act, tk = G.edges[ei]
            if act["a"] != "Exec" or act["out"] != "ok":
                n += 1 if act["a"] == "Exec" else 0
                continue
            if act["hit"] == "hit":
                ent = G.states[tk]["c"][-1 if act["hit2"] == "-" else -2]
                n += 2 if (ent[1] != act["p"] or ent[2] != act["m"]) else 0
            if len(G.states[tk]["c"]) < len(G.states[fk]["c"]) + 1 and act["hit"] == "miss":
                n += 2
        return n + len({G.edges[ei][1]["sh"] for ei in w})
    return score


def report_mismatches(chk, mism, what):
    for m in mism:
        a = m["act"] if isinstance(m["act"], dict) else {"a": m["act"]}
        chk.violation({"spec": "StmtCache", "action": a.get("a"), "kind": "conformance", "shape": a.get("sh"), "mode": a.get("mode"),
                       "stmt_kind": (a.get("sh") or "-").split("|")[0],
                       "p": a.get("p"), "m": a.get("m"), "hit": a.get("hit"), "field": m["mismatch"].split(":")[0]},
                      what + m["mismatch"], m)


def main(chk):
    rng = random.Random(chk.seed)
    nv, cap = 4, 2
    # 1. shape table: TLC-enumerated shapes executed cold
    rt, table, vals, tc, tm = table_phase(chk, KINDS, nv, ["none"])
    for m in tm:
        if m["cat"] == "key":
            chk.violation({"spec": "StmtShapes", "action": "cache_key", "kind": "key-collision", "shape": m["shape"], "field": m["field"],
                           "stmt_kind": m["shape"].split("|")[0]},
                          "two statements with equal cache keys do not compile to identical SQL / bind types: " + m["text"], m)
    calib = [m for m in tm if m["cat"] != "key"]
    if calib:
        chk.machinery("oracle calibration: StmtShapes.tla disagrees with a cold, cache-less execution on %d case(s), e.g. %s" % (
            len(calib), "; ".join("%s V%d %s: %s" % (m["shape"], m["p"], m["field"], m["text"][:200]) for m in calib[:3])))
    if chk.violations:
        # the cold executions already violate the property: the verdict is decided, the (long) graph replay adds nothing to it
        return chk.finish(dict(states=rt.distinct, transitions=rt.generated, traces_validated_against_impl=0, evaluations=tc.n,
                               shape_cases_executed_cold=tc.n, samples=[v[1] for v in chk.violations[:3]],
                               graph_phase="skipped: the shape table already shows violations"), assumptions=[])
    names = sorted(table)
    # 2. cache graphs of sampled groups of one-attribute neighbours
    ngroups = 6 if chk.quick else 12
    depth = 5 if chk.quick else 6
    gnames = [n for n in names if not n.startswith(("txt", "typ"))]      # (the TextualSelect pair gets a graph of its own below)
    groups = pick_groups(gnames, rng, ngroups, size=3 if chk.quick else 4)
    selftest = faulty_selftest(chk, SELFTEST_GROUP, 3, ["none"], cap)
    plans = [(g_, 3, ["none"], ["cached"], depth) for g_ in groups]
    if not chk.quick:
        plans += [(g_, 4, ["none"], ["cached"], depth) for g_ in pick_groups(gnames, rng, 2, size=3)]
    # one small graph in which bypassing the cache (compiled_cache=None) is an action of its own
    plans.append((sorted(groups[1])[:3], 2, ["none"], ["cached", "nocache"], depth))
    # typed constructs whose types differ in ONE constructor argument (absent / falsy / truthy), same construct, one shared cache:
    # every pair is executed in both orders on the graph
    for i in range(2 if chk.quick else 4):
        c_ = TYP_C[(chk.seed + i) % len(TYP_C)] if chk.quick else TYP_C[i]
        others = rng.sample([o_ for o_ in TYP_O if o_ not in ("n10", "n10_0")], 2) if i % 2 == 0 else ["s", "s0"]
        plans.append((["typ|a|%s|none|none|%s" % (c_, o_) for o_ in ["n10", "n10_0"] + others], 2, ["none"], ["cached"], depth))
    # TextualSelect, by-name and positional, sharing one cache
    plans.append((TXT_GROUP, 2, ["none"], ["cached"], depth))
    G, graphs, runs, walks, extra, plan, steps, mism = graph_phase(chk, plans, cap, vals, table, rng, 200 if chk.quick else 2000, depth)
    cov = edge_stats(G)
    for need in ("cached/hit", "cached/miss", "nocache/off", "hit_other_values", "evicting", "Clear", "secondary/hit", "secondary/miss"):
        if not cov.get(need):
            chk.machinery("vacuous: no edge of class %s" % need)
    report_mismatches(chk, mism, "engine with compiled cache diverges from StmtCache.tla / from the cache-less engine: ")
    w = max(walks, key=interesting(G))
    sample = [dict(group=runs[G.states[G.edges[w[0]][0]]["g"]]["group"],
                   walk=["%s V%d %s -> %s" % (G.edges[ei][1]["sh"], G.edges[ei][1]["p"], G.edges[ei][1]["mode"], G.edges[ei][1]["hit"])
                         for ei in w])]
    return chk.finish(
        dict(states=rt.distinct + sum(x["distinct"] for x in runs), transitions=rt.generated + sum(x["generated"] for x in runs),
             traces_validated_against_impl=len(walks) + len(extra), evaluations=steps + tc.n, shapes_enumerated=len(names),
             shape_cases_executed_cold=tc.n, distinct_real_cache_keys=len(tc.keys), tlc_runs=runs, plan=plan,
             distinct_nontrivial=cov.get("hit_other_values", 0) + cov.get("evicting", 0), edge_classes=cov, faulty_spec_rejected_by=selftest,
             samples=sample, exhaustive=True,
             rule="shape table: every well-formed shape x %d valuations executed cold; graphs: every labelled edge (cache state x execution) of "
                  "%d groups of 4 one-attribute neighbours, capacity %d, replayed on a real engine in lockstep with compiled_cache=None and a "
                  "cache-less engine; non-trivial = cache hits on an entry populated with other values, and executions that evict" % (
                      nv, len(plans), cap),
             checker_cmd="tlc StmtCache.tla (INIT TableInit | INIT InitEmit, VIEW View, ACTION_CONSTRAINT Emit)"),
        assumptions=["SQLite only; query_cache_size=%d (LRU keeps %d, prunes at %d entries)" % (cap, cap, cap + cap // 2 + 1),
                     "every execution runs in a transaction that is rolled back, so the data never changes",
                     "groups are sampled with --seed; the shape table is exhaustive over the grammar"])
