"""Driver binding PoolSeq.tla (fault sequences, C26) to the REAL pools: QueuePool, AsyncAdaptedQueuePool, NullPool, StaticPool,
SingletonThreadPool over the fake DBAPI.  Every edge of the state graph names the operation, the handle, the fault plan (one
boolean per DBAPI call in call order), the checkout-listener outcomes, the expected outcome, the connection id handed out and
the exact sequence of DBAPI calls; after EVERY step the driver compares all of them plus checkedout() / checkedin() / overflow(),
the ledger's open set, the number of connections ever opened and the connection every live checkout holds.

Virtual time: every time.time() call in pool/base.py advances the clock by one second (all stamps distinct - the code's
documented assumption); Sleep jumps past pool_recycle.  No wall clock anywhere.
"""
import gc
import sys
import warnings

from checks import pool_fakedbapi as fdb
from checks import pool_sched as ps

RECYCLE = 100000      # auto-ticks of a walk stay far below this; Sleep jumps over it


class VLoop:
    """asyncio event loop whose time is virtual: a pending timer never waits on the wall clock"""

    def __init__(self):
        import asyncio

        class _L(asyncio.SelectorEventLoop):
            def __init__(s):
                super().__init__()
                s._vt = 0.0
                orig = s._selector.select

                def select(timeout=None):
                    if timeout is None:
                        raise ps.SchedError("virtual event loop would block forever")
                    if timeout > 0:
                        s._vt += timeout
                    return orig(0)
                s._selector.select = select

            def time(s):
                return s._vt
        self.loop = _L()

    def run(self, fn):
        from sqlalchemy.util.concurrency import greenlet_spawn
        return self.loop.run_until_complete(greenlet_spawn(fn))

    def close(self):
        self.loop.close()


class SeqDriver:
    def __init__(self, wid, workdir, conf):
        """conf: dict(kind, size, maxo, lifo, preping, recycle, reset, async_, ck)  kind may be 'asyncqueue'"""
        self.conf = conf
        self.clock = ps.VClock(1000, mode="auto")
        ps.install(self.clock)
        import sqlalchemy.exc as sa_exc
        from sqlalchemy import event
        self.sa_exc = sa_exc
        self.event = event
        self.vloop = VLoop() if conf["kind"] == "asyncqueue" else None
        self.pool = None
        self.dbapi = None
        self.handles = []
        self.evs = []
        self.resets = 0
        # The state graph lives in this process.  freeze() is O(1) and keeps it out of the periodic collections below.
        gc.freeze()
        gc.disable()          # no finalizer may run at a moment the walk did not choose (Drop is an explicit step)

    # ------------------------------------------------------------------ plumbing
    def _mkpool(self):
        from checks.pool_common import make_pool
        c = self.conf
        self.dbapi = fdb.DBAPI()
        maxo = -1 if c["maxo"] == 9 else c["maxo"]
        kind = c["kind"]
        # sync pools: timeout 0 (a blocking get returns at once); asyncio queue: 1 virtual second on the virtual-time loop
        self.pool = make_pool(kind, self.dbapi, size=c["size"], maxo=maxo, lifo=c["lifo"], timeout=1 if kind == "asyncqueue" else 0,
                              recycle=RECYCLE if c["recycle"] else -1, pre_ping=c["preping"],
                              reset={"rollback": "rollback", "commit": "commit", "none": None}[c["reset"]], is_async=c["async_"])
        if c["ck"]:
            self.event.listen(self.pool, "checkout", self._on_checkout)
        if c.get("close_listener"):
            self.event.listen(self.pool, "close", self._on_close)

    def _on_close(self, dbapi_conn, rec):
        """`close` pool event: runs before the DBAPI close(); the edge's plan says whether it raises ("lclose" entry)"""
        d = self.dbapi
        d.calls.append(("lclose", getattr(dbapi_conn, "id", 0)))
        if d.plan.fault("lclose"):
            raise fdb.Error("close listener failed")

    def _on_checkout(self, dbapi_conn, rec, fairy):
        o = self.evs.pop(0) if self.evs else "ok"
        self.seen_evs.append(o)
        if o == "disc":
            raise self.sa_exc.DisconnectionError("listener says: disconnected")
        if o == "invpool":
            raise self.sa_exc.InvalidatePoolError("listener says: invalidate the pool")
        if o == "err":
            raise fdb.Error("listener failed")

    def reset(self, state):
        self._drop_all()
        self.clock.now = 1000
        self._mkpool()
        self.handles = []

    def _drop_all(self):
        if self.pool is not None:
            self.dbapi.plan.set_script([])
            self.dbapi.plan.script = None
            with warnings.catch_warnings():
                warnings.simplefilter("ignore")
                for i, h in enumerate(self.handles):
                    if h is not None:
                        try:
                            self._run(h.close)
                        except Exception:
                            pass
                self.handles = []
                try:
                    self.pool.dispose()
                except Exception:
                    pass
            self.pool = None
            self.resets += 1
            if self.resets % 300 == 0:
                gc.collect()

    def _run(self, fn):
        if self.vloop is not None:
            return self.vloop.run(fn)
        return fn()

    def _call(self, fn, in_loop=True):
        with warnings.catch_warnings(record=True) as w:
            warnings.simplefilter("always")
            try:
                res = self._run(fn) if in_loop else fn()
                ret = "ok"
            except self.sa_exc.TimeoutError:
                res, ret = None, "TimeoutError"
            except self.sa_exc.InvalidRequestError:
                res, ret = None, "InvalidRequestError"
            except fdb.Error:
                res, ret = None, "Error"
            except fdb.Interrupted:
                res, ret = None, "Base"
        self.warned = [str(x.message) for x in w]
        return ret, res

    # ------------------------------------------------------------------ one edge
    def step(self, frm, act, to):
        a, h = act["a"], act["h"]
        d = self.dbapi
        if a == "Sleep":
            self.clock.now += RECYCLE + 10
            return self._compare(act, to, "ok", None)
        d.plan.set_script([{"ok": False, "fail": True, "raise": True, "base": "base"}[x] for x in act["plan"]])
        d.take_calls()
        self.evs = list(act["evs"])
        self.seen_evs = []
        res = None
        if a == "Checkout":
            ret, res = self._call(self.pool.connect)
            if ret == "ok":
                self.handles.append(res)
        elif a == "Close":
            ret, _ = self._call(self.handles[h - 1].close)
            if ret in ("Base", "Error"):
                self.handles[h - 1] = None      # an exception escaped from close(): the caller gives the object up (spec: gone)
        elif a == "Drop":
            unraisable = []
            hook = sys.unraisablehook
            sys.unraisablehook = lambda u: unraisable.append(getattr(u.exc_type, "__name__", "?"))

            def drop():
                self.handles[h - 1] = None      # the only reference: the weakref callback runs _finalize_fairy right here
            try:
                ret, _ = self._call(drop, in_loop=False)   # the garbage collector does not run inside the event loop's greenlet
            finally:
                sys.unraisablehook = hook
            if ret == "ok" and unraisable:
                ret = "unraisable"              # an exception escaped inside the weakref callback
        elif a == "Invalidate":
            f = self.handles[h - 1]
            ret, _ = self._call(lambda: f.invalidate(soft=act["soft"]))
            if ret == "ok" and any("already-closed" in m for m in self.warned):
                ret = "warn"
        elif a == "PoolInvalidate":
            f = self.handles[h - 1]
            ret, _ = self._call(lambda: self.pool._invalidate(f))
        else:
            return "unknown action %r" % a
        m = self._compare(act, to, ret, res)
        d.plan.script = None
        return m

    def _pool_conn_ids(self):
        """ids of the connections the pool's IDLE records hold (0 entries dropped)"""
        p, k = self.pool, self.conf["kind"]
        if k == "queue":
            recs = list(p._pool.queue)
        elif k == "asyncqueue":
            recs = list(p._pool._queue._queue)
        elif k == "static":
            r = p.__dict__.get("connection")
            recs = [r] if r is not None and not r.in_use else []
        elif k == "singleton":
            ref = getattr(p._conn, "current", None)
            r = ref() if ref is not None else None
            recs = [r] if r is not None and not r.in_use else []
        else:
            recs = []
        return sorted(r.dbapi_connection.id for r in recs if r.dbapi_connection is not None)

    def _compare(self, act, to, ret, res):
        d, p = self.dbapi, self.pool
        if ret != act["ret"]:
            return "call outcome %r, spec %r (DBAPI calls %r)" % (ret, act["ret"], d.calls)
        if act["a"] != "Sleep":
            calls = [c[0] for c in d.take_calls()]
            if calls != list(act["calls"]):
                return "DBAPI call sequence %r, spec %r" % (calls, act["calls"])
            if d.plan.unused() or d.plan.overrun:
                return "fault plan not consumed exactly: %d unused, %d calls beyond it" % (d.plan.unused(), d.plan.overrun)
            if self.seen_evs != list(act["evs"]):
                return "checkout listener outcomes consumed %r, spec %r" % (self.seen_evs, act["evs"])
        if act["a"] == "Checkout" and ret == "ok":
            cid = res.dbapi_connection.id
            if cid != act["conn"]:
                return "connection %d handed out, spec %d" % (cid, act["conn"])
        o = act["obs"]
        got = {"open": d.open_ids(), "nconn": d.nconn}
        exp = {"open": sorted(o["open"]), "nconn": o["nconn"]}
        if self.conf["kind"] in ("queue", "asyncqueue"):
            got.update(checkedout=p.checkedout(), checkedin=p.checkedin(), overflow=p._overflow)
            exp.update(checkedout=o["checkedout"], checkedin=o["checkedin"], overflow=o["overflow"])
        got["idle"] = self._pool_conn_ids()
        exp["idle"] = sorted(o["idle"])
        if got != exp:
            return "observed %r, spec %r" % (got, exp)
        if len(self.handles) != len(to["hs"]):
            return "handle list out of step: program %d, spec %d" % (len(self.handles), len(to["hs"]))
        for i, hs in enumerate(to["hs"]):
            f = self.handles[i]
            if hs["gone"] != (f is None):
                return "handle %d: spec says %s, program %s" % (i + 1, "given up" if hs["gone"] else "still referenced",
                                                                "dropped it" if f is None else "holds it")
            if hs["live"]:
                if f is None or not f.is_valid:
                    return "handle %d: spec says checked out, real fairy is %s" % (i + 1, "gone" if f is None else "invalid")
                cid = f.dbapi_connection.id
                if cid != hs["rec"]["conn"]:
                    return "handle %d holds connection %d, spec %d" % (i + 1, cid, hs["rec"]["conn"])
                if d.ledger.get(cid) != "open":
                    return "handle %d holds connection %d which is %s in the ledger" % (i + 1, cid, d.ledger.get(cid))
            elif f is not None and f.is_valid:
                return "handle %d: spec says released, real fairy still valid" % (i + 1)
        if d.use_after_close:
            return "DBAPI call on a closed connection: %r" % (d.use_after_close[:3],)
        return None

    def finish(self, state):
        """drain: release every live checkout without faults, then NoLeak on the REAL ledger"""
        d, p = self.dbapi, self.pool
        d.plan.script = None
        for i, hs in enumerate(state["hs"]):
            if hs["live"]:
                ret, _ = self._call(self.handles[i].close)
                if ret != "ok":
                    return "drain: close of handle %d raised %s" % (i + 1, ret)
        aband = set(state["abandoned"])
        if self.conf["kind"] in ("queue", "asyncqueue") and p.checkedout() != 0:
            return "drain: checkedout() = %d after every holder released" % p.checkedout()
        idle = set(self._pool_conn_ids())
        opened = set(d.open_ids())
        if opened != idle | aband:
            return "drain: ledger open %r, idle in pool %r, documented-abandoned %r" % (sorted(opened), sorted(idle), sorted(aband))
        # and the pool still works: one more checkout / check-in without faults
        ret, f = self._call(p.connect)
        if ret != "ok":
            if not (ret == "TimeoutError" and False):
                return "drain: checkout after the walk raised %s" % ret
        cid = f.dbapi_connection.id
        if d.ledger.get(cid) != "open":
            return "drain: checkout after the walk handed out closed connection %d" % cid
        if cid in set(state["stale"]):
            return "drain: checkout after the walk handed out stale connection %d (invalidated / older than a pool invalidation / past recycle)" % cid
        ret, _ = self._call(f.close)
        if ret != "ok":
            return "drain: final close raised %s" % ret
        return None

    def close(self):
        self._drop_all()
        if self.vloop is not None:
            self.vloop.close()
        gc.unfreeze()
        gc.enable()
