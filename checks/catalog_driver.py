"""Driver binding Catalog.tla / TraceCatalog.tla to the real MetaData DDL machinery (C14).

A *case* is one JSON object printed by DdlGraphs.tla (GInit): the FK graph plus the facts TLC derived from it
(closed subsets, cyclic?, litestrict?).  For each case the driver builds the real MetaData and runs scenarios
against three backends, recording one trace per (case, backend, scenario):

    pg    PostgreSQL dialect on a mock connection.  engine.mock.MockConnection forces checkfirst=False, so a
          small subclass keeps the flag and a dialect subclass answers has_table / has_index from the set of
          objects created so far (every answer is logged as an HT / HI event and checked by TLC against the
          catalog, so this bookkeeping is itself validated).
    lite  the same with the SQLite dialect (supports_alter = False).
    real  SQLite executing for real (in-memory database, PRAGMA foreign_keys=ON).  When DdlGraphs says the
          graph admits a dependency-ordered DROP (litestrict) one row per table is inserted before dropping, so
          that SQLite itself refuses a wrongly ordered DROP TABLE.  After every call the inspector's view
          (tables, foreign keys, indexes) is logged as an Obs event.

DDL events are PARSED FROM THE SQL TEXT the dialect's DDL compiler produced (what the database would receive),
not taken from attributes of the DDL construct.
"""
import json
import re
import warnings

# ------------------------------------------------------------------------------------------------ naming


def tname(i):
    return "t%d" % i


def fkname(f):
    return "fk_%d_%d_%d" % (f["s"], f["d"], f["k"])


def graph_of(case):
    fks = sorted(case["fk"], key=lambda f: (f["s"], f["d"], f["k"]))
    return {
        "tb": [tname(i) for i in range(1, case["n"] + 1)],
        "fk": [{"n": fkname(f), "s": tname(f["s"]), "d": tname(f["d"]), "ua": f["ua"], "nm": f["nm"]} for f in fks],
        "ix": [{"n": "ix_t%d" % i, "t": tname(i)} for i in range(1, case["n"] + 1)],
    }


def describe(case):
    return "n=%d %s" % (case["n"], " ".join(
        "%d->%d%s%s%s" % (f["s"], f["d"], "#2" if f["k"] == 2 else "", "[use_alter]" if f["ua"] else "",
                          "" if f["nm"] else "[unnamed]")
        for f in sorted(case["fk"], key=lambda f: (f["s"], f["d"], f["k"]))))


def build_metadata(case, order):
    """order: permutation of 1..n = order in which the Table objects are defined (MetaData.tables order)."""
    from sqlalchemy import Column, ForeignKey, ForeignKeyConstraint, Index, Integer, MetaData, Table, UniqueConstraint
    md = MetaData()
    n = case["n"]
    cols = {i: [Column("id", Integer, primary_key=True), Column("id2", Integer), Column("v", Integer)] for i in range(1, n + 1)}
    extra = {i: [UniqueConstraint("id", "id2", name="uq_t%d" % i)] for i in range(1, n + 1)}
    for f in sorted(case["fk"], key=lambda f: (f["s"], f["d"], f["k"])):
        name = fkname(f)
        given = name if f["nm"] else None
        if f["mc"]:
            cols[f["s"]] += [Column(name + "_a", Integer), Column(name + "_b", Integer)]
            extra[f["s"]].append(ForeignKeyConstraint([name + "_a", name + "_b"], ["t%d.id" % f["d"], "t%d.id2" % f["d"]],
                                                      name=given, use_alter=f["ua"]))
        else:
            cols[f["s"]].append(Column(name + "_a", Integer, ForeignKey("t%d.id" % f["d"], name=given, use_alter=f["ua"])))
    for i in order:
        t = Table(tname(i), md, *cols[i], *extra[i])
        Index("ix_t%d" % i, t.c.v)
    return md


# ------------------------------------------------------------------------------------------------ SQL text -> event
_RE_CT = re.compile(r"^CREATE TABLE (\w+) \((.*)\)\s*$", re.S)
_RE_FK = re.compile(r"(?:CONSTRAINT (\w+) )?FOREIGN KEY\((\w+)(?:, \w+)*\) REFERENCES (\w+) \(")
_RE_AC = re.compile(r"^ALTER TABLE (\w+) ADD (?:CONSTRAINT (\w+) )?FOREIGN KEY\((\w+)(?:, \w+)*\) REFERENCES (\w+) \([\w, ]+\)\s*$")
_RE_DC = re.compile(r"^ALTER TABLE (\w+) DROP CONSTRAINT (\w+)\s*$")
_RE_DT = re.compile(r"^DROP TABLE (\w+)\s*$")
_RE_CI = re.compile(r"^CREATE INDEX (\w+) ON (\w+) \(\w+\)\s*$")
_RE_DI = re.compile(r"^DROP INDEX (\w+)\s*$")


def _fk_name(given, col):
    # an unnamed constraint is identified by its first column (fk_<s>_<d>_<k>_a), as the database would derive a name from it
    return given if given else col[:-2]


def parse_ddl(sql):
    s = sql.strip()
    m = _RE_CT.match(s)
    if m:
        return {"e": "CT", "t": m.group(1), "fks": [{"n": _fk_name(a, c), "d": d} for a, c, d in _RE_FK.findall(m.group(2))]}
    m = _RE_AC.match(s)
    if m:
        return {"e": "AC", "t": m.group(1), "n": _fk_name(m.group(2), m.group(3)), "d": m.group(4)}
    m = _RE_DC.match(s)
    if m:
        return {"e": "DC", "t": m.group(1), "n": m.group(2)}
    m = _RE_DT.match(s)
    if m:
        return {"e": "DT", "t": m.group(1)}
    m = _RE_CI.match(s)
    if m:
        return {"e": "CI", "n": m.group(1), "t": m.group(2)}
    m = _RE_DI.match(s)
    if m:
        return {"e": "DI", "n": m.group(1)}
    return {"e": "Bad", "sql": s[:200]}


def _warn_kind(w):
    import sqlalchemy.exc as saexc
    msg = str(w.message)
    if issubclass(w.category, saexc.SAWarning):
        if msg.startswith("Can't sort tables for DROP"):
            return "drop-cycle"
        if msg.startswith("Cannot correctly sort tables"):
            return "sort-cycle"
    return "other:%s:%s" % (w.category.__name__, msg[:60])


# ------------------------------------------------------------------------------------------------ backends
_DIALECTS = {}


def _mock_dialect(url):
    """dialect subclass whose has_table / has_index consult the recorder's bookkeeping (set by the backend)"""
    if url in _DIALECTS:
        return _DIALECTS[url]
    from sqlalchemy.engine import make_url
    base = make_url(url).get_dialect()

    class Dialect(base):
        _verif_backend = None

        def has_multi_table(self, connection, table_names, schema=None, **kw):
            b = self._verif_backend
            ans = [t in b.sim_tables for t in table_names]
            b.ev.append({"e": "HT", "ts": list(table_names), "bs": ans})
            return [((schema, t), a) for t, a in zip(table_names, ans)]

        def has_table(self, connection, table_name, schema=None, **kw):
            return dict(self.has_multi_table(connection, [table_name], schema=schema))[(schema, table_name)]

        def has_index(self, connection, table_name, index_name, schema=None, **kw):
            b = self._verif_backend
            a = index_name in b.sim_indexes
            b.ev.append({"e": "HI", "n": index_name, "b": a})
            return a

    Dialect.__name__ = base.__name__ + "Verif"
    d = Dialect()
    _DIALECTS[url] = d
    return d


class MockBackend:
    """PostgreSQL / SQLite dialect on a mock connection that keeps `checkfirst`."""
    real = False

    def __init__(self, kind):
        from sqlalchemy.engine.mock import MockConnection
        self.kind = kind
        self.dialect = _mock_dialect("postgresql+psycopg2://" if kind == "pg" else "sqlite://")
        self.dialect._verif_backend = self
        self.ev = []
        self.sim_tables = set()
        self.sim_indexes = {}
        backend = self

        class Conn(MockConnection):
            def _run_ddl_visitor(self, visitorcallable, element, **kwargs):
                # MockConnection would force checkfirst=False here
                visitorcallable(dialect=self.dialect, connection=self, **kwargs).traverse_single(element)

        def executor(sql, *multiparams, **params):
            backend._record(str(sql.compile(dialect=backend.dialect)))

        self.bind = Conn(self.dialect, executor)

    def _record(self, text):
        e = parse_ddl(text)
        self.ev.append(e)
        k = e["e"]
        if k == "CT":
            self.sim_tables.add(e["t"])
        elif k == "DT":
            self.sim_tables.discard(e["t"])
            for n in [n for n, t in self.sim_indexes.items() if t == e["t"]]:
                del self.sim_indexes[n]
        elif k == "CI":
            self.sim_indexes[e["n"]] = e["t"]
        elif k == "DI":
            self.sim_indexes.pop(e["n"], None)

    def observe(self):
        return None

    def insert_rows(self, case):
        pass

    def close(self):
        self.dialect._verif_backend = None


class RealBackend:
    """SQLite executing for real, foreign keys enforced."""
    real = True
    kind = "real"

    def __init__(self):
        import sqlalchemy as sa
        self.sa = sa
        self.ev = []
        self.bind = sa.create_engine("sqlite://")

        @sa.event.listens_for(self.bind, "connect")
        def _fk_on(dbapi_con, rec):
            dbapi_con.execute("PRAGMA foreign_keys=ON")

        @sa.event.listens_for(self.bind, "before_cursor_execute")
        def _log(conn, cursor, statement, parameters, context, executemany):
            w = statement.lstrip()[:6].upper()
            if w in ("CREATE", "ALTER ") or w.startswith("DROP"):
                self.ev.append(parse_ddl(statement))

    def observe(self):
        insp = self.sa.inspect(self.bind)
        ts = sorted(insp.get_table_names())
        fks, ixs = [], []
        for t in ts:
            for fk in insp.get_foreign_keys(t):
                fks.append({"n": fk["name"] or "?", "s": t, "d": fk["referred_table"]})
            for ix in insp.get_indexes(t):
                ixs.append({"n": ix["name"], "t": t})
        return {"e": "Obs", "ts": ts, "fks": fks, "ixs": ixs}

    def insert_rows(self, case):
        """one row per table, every FK column pointing at row 1 of its target; parents first (the graph is acyclic
        apart from self references whenever this is called)"""
        todo = list(range(1, case["n"] + 1))
        done = set()
        with self.bind.begin() as c:
            while todo:
                ready = [i for i in todo if all(f["d"] in done or f["d"] == i for f in case["fk"] if f["s"] == i)]
                if not ready:
                    raise RuntimeError("insert_rows called for a cyclic graph")
                for i in ready:
                    cols = ["id", "id2", "v"]
                    for f in case["fk"]:
                        if f["s"] == i:
                            cols.append(fkname(f) + "_a")
                            if f["mc"]:
                                cols.append(fkname(f) + "_b")
                    c.exec_driver_sql("INSERT INTO t%d (%s) VALUES (%s)" % (i, ", ".join(cols), ", ".join("1" for _ in cols)))
                    done.add(i)
                    todo.remove(i)

    def close(self):
        self.bind.dispose()


class Stop(Exception):
    pass


class Recorder:
    def __init__(self, backend):
        self.b = backend
        self.ev = backend.ev

    def call(self, c, ts, cf, fn):
        """run one public call, bracketing whatever the backend records with Call / Ret (/ Obs)"""
        self.ev.append({"e": "Call", "c": c, "ts": list(ts), "cf": bool(cf)})
        res = None
        x = ""
        with warnings.catch_warnings(record=True) as w:
            warnings.simplefilter("always")
            try:
                res = fn()
            except Exception as e:  # the outcome is an event; TLC decides whether it is allowed
                x = type(e).__name__
        ret = {"e": "Ret", "x": x, "w": [_warn_kind(i) for i in w]}
        if c == "sorted_tables":
            ret["ts"] = [t.name for t in res] if res is not None else []
        self.ev.append(ret)
        if self.b.real:
            self.ev.append(self.b.observe())
        if x:
            raise Stop()
        return res


    def rows(self, case):
        """real SQLite only, and only when DdlGraphs says a dependency-ordered DROP exists: make SQLite enforce it"""
        if not (self.b.real and case["litestrict"]):
            return
        try:
            self.b.insert_rows(case)
        except Exception as e:      # e.g. a table create_all should have created is missing: an event TLC always rejects
            self.ev.append({"e": "RowsFailed", "x": type(e).__name__})
            raise Stop()


# ------------------------------------------------------------------------------------------------ scenarios
def _names(ids):
    return [tname(i) for i in sorted(ids)]


def scenario_s1(rec, md, case, cf, with_sorted):
    """create_all / drop_all of the whole MetaData, checkfirst off or on (empty database)"""
    b = rec.b.bind
    allt = _names(range(1, case["n"] + 1))
    rec.call("create_all", allt, cf, lambda: md.create_all(b, checkfirst=cf))
    if with_sorted:
        rec.call("sorted_tables", allt, False, lambda: md.sorted_tables)
    rec.rows(case)
    rec.call("drop_all", allt, cf, lambda: md.drop_all(b, checkfirst=cf))


def scenario_s3(rec, md, case, P, D):
    """a closed subset P pre-exists (created by create_all(tables=P)); create_all(checkfirst=True) adds the rest and is
    idempotent; drop_all(tables=D) of an upward-closed D, then drop_all(checkfirst=True) removes the rest, idempotent"""
    b = rec.b.bind
    allt = _names(range(1, case["n"] + 1))
    tabs = lambda ids: [md.tables[tname(i)] for i in sorted(ids)]  # noqa: E731
    rec.call("create_all", _names(P), False, lambda: md.create_all(b, tables=tabs(P), checkfirst=False))
    rec.call("create_all", allt, True, lambda: md.create_all(b, checkfirst=True))
    rec.call("create_all", allt, True, lambda: md.create_all(b, checkfirst=True))
    rec.rows(case)
    rec.call("drop_all", _names(D), False, lambda: md.drop_all(b, tables=tabs(D), checkfirst=False))
    rec.call("drop_all", allt, True, lambda: md.drop_all(b, checkfirst=True))
    rec.call("drop_all", allt, True, lambda: md.drop_all(b, checkfirst=True))


def scenario_s2(rec, md, case, rng):
    """Table.create in sorted_tables order / Table.drop in reverse, Index.create / Index.drop, checkfirst no-ops.
    Only for graphs without use_alter and without cycles (Table.create renders every FK inline)."""
    b = rec.b.bind
    allt = _names(range(1, case["n"] + 1))
    order = rec.call("sorted_tables", allt, False, lambda: md.sorted_tables)
    for t in order:
        cf = rng.random() < 0.5
        rec.call("table_create", [t.name], cf, lambda t=t, cf=cf: t.create(b, checkfirst=cf))
    t = rng.choice(order)
    rec.call("table_create", [t.name], True, lambda: t.create(b, checkfirst=True))          # exists: nothing happens
    ix = sorted(rng.choice(order).indexes, key=lambda i: i.name)[0]
    rec.call("index_drop", [ix.name], False, lambda: ix.drop(b))
    rec.call("index_drop", [ix.name], True, lambda: ix.drop(b, checkfirst=True))            # gone: nothing happens
    rec.call("index_create", [ix.name], True, lambda: ix.create(b, checkfirst=True))
    rec.call("index_create", [ix.name], True, lambda: ix.create(b, checkfirst=True))        # exists: nothing happens
    rec.rows(case)
    for t in reversed(order):
        cf = rng.random() < 0.5
        rec.call("table_drop", [t.name], cf, lambda t=t, cf=cf: t.drop(b, checkfirst=cf))
    t = rng.choice(order)
    rec.call("table_drop", [t.name], True, lambda: t.drop(b, checkfirst=True))              # gone: nothing happens


def make_backend(kind):
    return RealBackend() if kind == "real" else MockBackend(kind)


def record(case, gid, kind, sc, order, rng, P=None, D=None):
    """-> trace dict"""
    md = build_metadata(case, order)
    be = make_backend(kind)
    rec = Recorder(be)
    try:
        if sc == "S1" or sc == "S1cf":
            scenario_s1(rec, md, case, sc == "S1cf", with_sorted=(kind == "pg"))
        elif sc == "S3":
            scenario_s3(rec, md, case, P, D)
        elif sc == "S2":
            scenario_s2(rec, md, case, rng)
        else:
            raise ValueError(sc)
    except Stop:
        pass
    except Exception as e:      # the scenario itself fell over on what the implementation returned: an event TLC always rejects
        rec.ev.append({"e": "HarnessError", "x": ("%s: %s" % (type(e).__name__, e))[:200]})
    finally:
        be.close()
    tid = "g%d:%s:%s" % (gid, kind, sc)
    if sc == "S3":
        tid += ":P%s:D%s" % (".".join(map(str, P)), ".".join(map(str, D)))
    tr = {"id": tid, "be": kind}
    tr.update(graph_of(case))
    tr["ev"] = rec.ev
    return tr


def plan(case, rng, exhaustive_subsets):
    """which (backend, scenario, P, D) are recorded for a case"""
    n = case["n"]
    out = []
    if not case["named"]:
        # unnamed constraints: PostgreSQL-mock and SQLite-mock only (reflection cannot name them)
        return [("pg", "S1", None, None), ("lite", "S1", None, None)]
    down = [sorted(p) for p in case["down"]]
    up = [sorted(p) for p in case["up"]]
    full = list(range(1, n + 1))

    def pick(sets):
        inner = [s for s in sets if s and s != full]
        return rng.choice(inner) if inner and rng.random() < 0.8 else rng.choice(sets)

    mixed = len({f["ua"] for f in case["fk"]}) == 2
    inner = any(s and s != full for s in down) or any(s and s != full for s in up)
    # use_alter only changes the sort on a backend without ALTER: for 3+ tables with mixed flags one of lite / real is recorded
    skip = rng.choice(("lite", "real")) if (n >= 3 and mixed) else None
    for kind in ("pg", "lite", "real"):
        if kind == skip:
            continue
        if kind == "pg":
            out.append((kind, "S1", None, None))
            # without a non-trivial closed subset S3 degenerates to "nothing pre-exists / everything pre-exists"
            s3 = n <= 2 or inner or rng.random() < 0.25
            if not s3 and rng.random() < 0.5:
                out.append((kind, "S1cf", None, None))
        else:
            s3 = rng.random() < 0.5
            if not s3:
                out.append((kind, "S1cf" if rng.random() < 0.5 else "S1", None, None))
        if exhaustive_subsets:
            if kind == "pg":
                out.extend((kind, "S3", p, d) for p in down for d in up)
                out.append((kind, "S1cf", None, None))
            else:
                out.extend((kind, "S3", p, rng.choice(up)) for p in down)
                out.extend((kind, "S3", rng.choice(down), d) for d in up)
        elif s3:
            out.append((kind, "S3", pick(down), pick(up)))
        if case["litestrict"]:
            out.append((kind, "S2", None, None))
    return out


def traces_for_case(gid, case, seed, exhaustive_n):
    """every trace of one case; a pure function of (gid, case, seed) so that a replay file reproduces it"""
    import random
    rng = random.Random(seed * 1000003 + gid)
    order = list(range(1, case["n"] + 1))
    rng.shuffle(order)
    for kind, sc, P, D in plan(case, rng, case["n"] <= exhaustive_n):
        yield kind, sc, record(case, gid, kind, sc, order, rng, P, D)


def record_chunk(args):
    """worker: cases[(gid, case)...] -> ndjson shard file; returns statistics"""
    chunk, seed, path, exhaustive_n = args
    stats = {"traces": 0, "events": 0, "by_kind": {}, "by_event": {}, "by_call": {}, "by_warn": {}, "candidates": [], "ac_from_cycle": 0, "rows": 0,
             "raised": 0}
    with open(path, "w") as f:
        for gid, case in chunk:
            for kind, sc, tr in traces_for_case(gid, case, seed, exhaustive_n):
                f.write(json.dumps(tr, separators=(",", ":")) + "\n")
                stats["traces"] += 1
                stats["events"] += len(tr["ev"])
                k = kind + ":" + sc
                stats["by_kind"][k] = stats["by_kind"].get(k, 0) + 1
                cur = ""
                for e in tr["ev"]:
                    if e["e"] == "Call":
                        cur = e["c"]
                        stats["by_call"][cur] = stats["by_call"].get(cur, 0) + 1
                    elif e["e"] == "Ret":
                        for w in e["w"]:
                            stats["by_warn"][w] = stats["by_warn"].get(w, 0) + 1
                        if e["x"] == "CircularDependencyError" and cur == "drop_all":
                            stats["raised"] += 1
                    key = kind + ":" + e["e"]
                    stats["by_event"][key] = stats["by_event"].get(key, 0) + 1
                if kind == "real" and case["litestrict"]:
                    stats["rows"] += 1
                if kind == "pg" and sc == "S1":
                    kinds = [e["e"] for e in tr["ev"]]
                    if "AC" in kinds and not any(fk["ua"] for fk in tr["fk"]):
                        stats["ac_from_cycle"] += 1
                    if "AC" in kinds and "DC" in kinds and len(stats["candidates"]) < 3:
                        stats["candidates"].append(tr)
    return stats


# ------------------------------------------------------------------------------------------------ binding self-test
def corruptions(tr):
    """three corrupted copies of an accepted pg trace, each with the conjunct TraceCatalog must name"""
    out = []
    ev = tr["ev"]
    # 1. an ALTER ... ADD CONSTRAINT moved in front of the CREATE TABLE of its own table
    i_ac = next(i for i, e in enumerate(ev) if e["e"] == "AC")
    i_ct = next(i for i, e in enumerate(ev) if e["e"] == "CT" and e["t"] == ev[i_ac]["t"])
    a = [dict(e) for e in ev]
    a[i_ac], a[i_ct] = a[i_ct], a[i_ac]
    out.append((dict(tr, id="selftest:swap-AddConstraint-before-CreateTable", ev=a), i_ct + 1, "AddConstraint.source_table_exists"))
    # 2. the first DROP TABLE moved in front of the first DROP CONSTRAINT that protects it
    i_dc = next(i for i, e in enumerate(ev) if e["e"] == "DC")
    fk = next(f for f in tr["fk"] if f["n"] == ev[i_dc]["n"])
    victim = fk["d"] if fk["d"] != fk["s"] else fk["s"]
    i_dt = next(i for i, e in enumerate(ev) if e["e"] == "DT" and e["t"] == victim)
    a = [dict(e) for e in ev]
    a[i_dc], a[i_dt] = a[i_dt], a[i_dc]
    why = "DropTable.no_fk_from_another_table_references_it" if fk["d"] != fk["s"] else "DropTable.use_alter_fks_dropped_by_alter_first"
    out.append((dict(tr, id="selftest:swap-DropTable-before-DropConstraint", ev=a), i_dc + 1, why))
    # 3. one deferred ADD CONSTRAINT lost
    a = [dict(e) for j, e in enumerate(ev) if j != i_ac]
    i_ret = next(i for i, e in enumerate(a) if e["e"] == "Ret")
    out.append((dict(tr, id="selftest:lost-AddConstraint", ev=a), i_ret + 1, "create_all.post.every_constraint_of_those_tables_and_no_other"))
    return out
