"""C30 flush writes exactly the in-memory object graph - OrmGraph.tla (DESIGN 3.9, 4 (C30), 6 (C30), Appendix I)."""
import random

from checks import ormgraph_common as oc

LEVEL = "model_checking"
MANIFEST = dict(
    text="OrmGraph.tla computes, for every history of add / delete / expunge / collection and scalar relationship mutations over a "
         "bidirectional one-to-many mapping (4 cascade configurations), what Session.flush() writes: the unit-of-work registration, the "
         "dependency-processor steps that synchronise the foreign key, and the resulting INSERT/UPDATE/DELETE set. TLC checks that after "
         "every successful flush the rows equal the in-memory graph over the session's members (RowsEqualGraph, FkSound, no history left) and "
         "that one flush leaves nothing pending. Every edge of the state graph is replayed against the real ORM on SQLite (foreign_keys=ON): "
         "rows through the session's connection and the emitted DML set after every flush, committed rows through a second connection and "
         "the graph loaded by a fresh session after every commit. OrmManyToMany.tla does the same for a many-to-many collection (uni- and "
         "bidirectional) with the association table as database state: list mutations, session.delete() of owners and members, flush, commit + "
         "reload; association rows must equal the membership pairs between session members and never reference a deleted row.",
    design_ref="3.9, 4 (C30), 6 (C30), Appendix I",
    note="trusted: TLC, SQLite as the database; one-to-many/many-to-one and many-to-many (secondary table) mappings with explicit integer keys only (no "
         "association objects, inheritance, composite or natural-key changes, merge); PostgreSQL/MariaDB not executable; histories end at a failed flush (C32 covers those)",
    technique="TLA+ spec (OrmGraph.tla) + TLC exhaustive model checking; spec->code replay of every state-graph edge into the real ORM")
INVS = ["TypeOK", "BothSides", "RowsEqualGraph_ExceptStaleFk", "FkSound", "FlushClearsHistory", "MarkedArePersistent"]
PROPS = ["FlushCompleteExceptReparented", "MarkedAreDeleted", "NoHistoryNoWrite", "CommittedOnlyAtFlush"]
FOOT = oc.ALL_ACTS


def nontrivial(f, act, t):
    return act["a"] in ("Flush", "CommitReload") and len(act["dml"]) > 0


def main(chk):
    rng = random.Random(chk.seed)
    q = chk.quick
    nc = 2 if q else 3
    nr = 100 if q else 1000
    mk = lambda name, casc, n, dd: dict(name=name, casc=casc, consts=oc.consts(casc, n, dd), invs=INVS, props=PROPS, maxlen=dd, nrandom=nr)
    if q:
        configs = [mk("default", "default", 2, 4), mk("orphan", "orphan", 2, 4), mk("all", "all", 2, 3), mk("none", "none", 2, 3)]
        deep = [dict(name="deep-" + n, casc=n, consts=oc.consts(n, 2, 5), invs=INVS, props=PROPS) for n in ("default", "orphan")]
    else:
        configs = [mk("default-2x3", "default", 3, 4), mk("orphan-2x2", "orphan", 2, 5), mk("all-2x2", "all", 2, 4), mk("none-2x2", "none", 2, 4)]
        deep = [dict(name="deep-%s-2x3" % n, casc=n, consts=oc.consts(n, 3, 5), invs=INVS, props=PROPS) for n in ("default", "orphan")] + \
               [dict(name="deep-%s-2x2" % n, casc=n, consts=oc.consts(n, 2, 6), invs=INVS, props=PROPS) for n in ("all", "none")]
    expose = [dict(name="single-flush", casc="default", consts=oc.consts("default", 2, 4, acts=["Delete", "Append", "SetParent", "Flush"], init="loaded"),
                   inv="FlushIsComplete", sig={"scope": "delete-marked-child-in-added-history-of-a-flushed-parent"},
                   what="one flush() does not write the pending state: a child marked with session.delete() and appended to another in-session "
                        "parent before the flush is UPDATEd, stays persistent and stays in session.deleted; only a second flush() emits the DELETE "
                        "(dependency._OneToManyDP.presort_saves registers it with cancel_delete=True). Holds for every other history "
                        "(FlushCompleteExceptReparented).")]
    expose.append(dict(name="stale-fk", casc="all", consts=oc.consts("all", 2, 6, acts=["Expunge", "SetParent", "Flush", "Add", "Append"], init="loaded"),
                       inv="RowsEqualGraph", sig={"scope": "fk-attribute-written-while-the-child-was-outside-the-session"},
                       what="rows differ from the in-memory graph after a flush: a flush that warns \"Object of type <C> not in session, add operation along "
                            "'P.children' will not proceed\" nevertheless sets c.pid on the non-member child in memory; when the child is added again and "
                            "moved back to its original parent (no net change on either relationship side) the next flush writes the stale attribute: "
                            "c in p1.children, c.parent is p1, all members, row says pid = p2. Holds for every member whose FK attribute was never "
                            "written outside the session (RowsEqualGraph_ExceptStaleFk)."))
    st = oc.run_suite(chk, rng, configs, FOOT, deep=deep, expose=expose, nontrivial=nontrivial)
    # many-to-many through a secondary table (OrmManyToMany.tla): association rows after a flush = membership pairs between members
    mm_invs = ["BothSidesMM", "NoDuplicates", "RowsEqualGraphMM", "FkSoundMM"]
    oc.run_mm(chk, rng, st, "m2m-unidirectional", False, oc.MM_MEM + ["Delete", "Flush", "CommitReload"], 4 if q else 5, mm_invs, ["RowsOnlyAtFlush"],
              init="both", nrandom=100 if q else 1000)
    oc.run_mm(chk, rng, st, "m2m-bidirectional", True, ["Append", "Remove", "Replace", "SetItem", "Delete", "Flush", "CommitReload"], 4 if q else 5, mm_invs,
              ["RowsOnlyAtFlush"], init="linked" if q else "both", nrandom=100 if q else 1000)
    return chk.finish(
        dict(states=st["states"] + st["deep_states"], transitions=st["transitions"] + st["deep_transitions"],
             traces_validated_against_impl=st["walks"], evaluations=st["steps"], distinct_nontrivial=st["nontrivial"], samples=st["samples"],
             edges_replayed=st["edges"], per_config=st["per_config"], action_coverage=st["action_coverage"], exhaustive=True,
             rule="every labelled edge of the OrmGraph state graph (all eleven actions, four cascade configurations, empty and loaded initial "
                  "database) is covered by a walk that ends with commit + reload; non-trivial = a Flush/CommitReload edge that emits DML",
             checker_cmd="tlc OrmGraph.tla (VIEW View, ACTION_CONSTRAINT Emit)"),
        assumptions=["one-to-many / many-to-one mapping, nullable FK, explicit integer primary keys; 2 parents x %d children" % nc,
                     "relationship attributes always loaded/initialised; autoflush off; SQLite file engine, foreign_keys=ON",
                     "a failed flush, a cascade into an already deleted object and delete()/expunge() of a deleted object end the history"])
