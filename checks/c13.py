"""C13 column defaults and onupdate fire exactly when the value is omitted - Defaults.tla (DESIGN 3.14, 4 C13).

TLC enumerates every case (operation x API x default kinds of two columns x per-row supplied / None / omitted) as an
initial state of Defaults.tla, computes the expected stored rows, call counts and primary keys with the transcribed
mechanism, checks them against the declarative property (AppliedIffOmitted, SuppliedNeverOverridden, OncePerRow,
ErrorsOnlyWhenDocumented) and prints one JSON case per state.  Every case is executed on SQLite through the API it names
and must reproduce the expected outcome exactly; whatever the result object / the ORM objects report back
(inserted_primary_key[_rows], returned_defaults[_rows], last_inserted_params, RETURNING rows, attribute values after
flush) must equal what was stored.
"""
import multiprocessing as mp
import random

from engine import tlc

LEVEL = "model_checking"
MANIFEST = dict(
    text="Defaults.tla enumerates INSERT and UPDATE cases: two columns whose default (onupdate for UPDATE) is a Python scalar, a callable drawing from a counter, a context-sensitive callable, an SQL expression or absent, 1-2 rows (3 in the thorough tier) each supplying a value, None or nothing per column, executed as Core single / executemany / values() / multi-VALUES / return_defaults / RETURNING, ORM unit-of-work flush (None and sql.null()), ORM bulk INSERT / UPDATE. TLC computes the expected rows with the transcribed mechanism (first parameter set fixes the column list, prefetch defaults per parameter set in order) and checks them against the declarative property: default applied iff the value is omitted, supplied values incl. None never overridden, callables called once per defaulted row, errors only in the documented heterogeneous-executemany situations. Every enumerated case is executed on SQLite; stored rows, per-function call counts, exception class, inserted primary keys, returned defaults, RETURNING rows and ORM attribute values must equal the specification's.",
    design_ref="3.14 (InsertMany defaults sub-model), 4 (C13)",
    note="trusted: TLC; SQLite only; named deviations modelled as expected outcomes: first parameter set fixes the column list (StatementError / extra key ignored), ORM INSERT treats None as omitted, multi-VALUES drops a column that has neither a first-row value nor a default; server-side defaults (server_default / FetchedValue) are not part of the property and not modelled",
    technique="TLA+ spec (Defaults.tla) + TLC exhaustive case enumeration with declarative invariants; spec->code replay of every enumerated case")
INVS = ["AppliedIffOmitted", "SuppliedNeverOverridden", "OncePerRow", "ErrorsOnlyWhenDocumented", "KeysDistinct"]
KINDS = ["scalar", "callable", "ctx", "sql", "none"]
INSERT_APIS = ["core_params", "core_values", "core_return_defaults", "core_returning", "core_multivalues", "orm_flush",
               "orm_flush_sqlnull", "orm_bulk", "orm_bulk_returning"]
UPDATE_APIS = ["core_params", "core_values", "core_return_defaults", "core_returning", "orm_flush", "orm_bulk"]


def nz(v):
    return 0 if v is None else v


def classify(case):
    """history classes of the two confirmed defects (see known_findings.d/C13.json); computed from the case alone"""
    rows = case["rows"]
    kinds = {"x": case["xk"], "y": case["yk"]}
    tags = {}
    if case["api"] == "core_multivalues":
        # a context-sensitive default evaluated for a later VALUES tuple calls get_current_parameters(), which looks up
        # <key>_m<i> for EVERY key of the first dict: a first-dict key the tuple leaves to an SQL default (or to a Python
        # default that is evaluated after this one) is not there -> KeyError
        cols0 = [c for c in ("x", "y") if rows[0][c] != "omit"]
        for i, r in enumerate(rows[1:], 1):
            for c in ("x", "y"):
                if kinds[c] == "ctx" and r[c] == "omit":
                    for o in cols0:
                        if o != c and r[o] == "omit" and (kinds[o] == "sql" or (kinds[o] in ("scalar", "callable", "ctx") and (c, o) == ("x", "y"))):
                            tags["multivalues_ctx_missing_key"] = True
    return tags


def compare(case, exp, obs):
    """list of (sig extras, text)"""
    out = []
    op, api = case["op"], case["api"]
    which = "default" if op == "insert" else "onupdate"
    other = "onupdate" if op == "insert" else "default"
    n = len(case["rows"])
    want_exc = None if exp["exc"] == "none" else exp["exc"]
    if obs["exc"] != want_exc:
        out.append(({"part": "exception", "got": obs["exc"], "expected": exp["exc"]},
                    "raised %s (%s), spec expects %s" % (obs["exc"], obs["extra"].get("exc_text", ""), exp["exc"])))
        return out
    stored = [[nz(v) for v in r] for r in obs["stored"]]
    want = [list(r) for r in exp["stored"]]
    if stored != want:
        out.append(({"part": "stored"}, "stored rows (x, y) %r, spec %r" % (stored, want)))
    if want_exc is None:
        ks = list(range(1, n + 1))
        if obs["ks"] != ks:
            out.append(({"part": "rows"}, "rows present k=%r, expected %r" % (obs["ks"], ks)))
        if obs["ids"] != list(exp["ids"]):
            out.append(({"part": "ids"}, "primary keys %r, spec %r" % (obs["ids"], list(exp["ids"]))))
        dd = [("i%d" if op == "insert" else "u%d") % k for k in ks]
        if obs["ds"] != dd:
            out.append(({"part": "rows"}, "d column %r, expected %r" % (obs["ds"], dd)))
    calls = obs["calls"]
    for c in ("x", "y"):
        got = calls.get("%s.%s" % (c, which), 0)
        if got != exp["calls"][c]:
            out.append(({"part": "calls", "col": c}, "%s %s function called %d times, spec %d" % (c, which, got, exp["calls"][c])))
        if calls.get("%s.%s" % (c, other), 0):
            out.append(({"part": "calls_other", "col": c}, "%s %s function called during %s" % (c, other, op)))
    if want_exc is None and case["pk"] == "callable" and calls.get("id.default", 0) != n:
        out.append(({"part": "calls", "col": "id"}, "primary key default called %d times for %d rows" % (calls.get("id.default", 0), n)))
    if want_exc is not None or stored != want:
        return out
    # ---- what the result object / the objects report must equal what was stored
    ex = obs["extra"]
    ids = obs["ids"]
    if "ipk" in ex and ex["ipk"] != [ids[0]]:
        out.append(({"part": "inserted_primary_key"}, "inserted_primary_key %r, stored id %r" % (ex["ipk"], ids[0])))
    if "ipk_rows" in ex and [r[0] for r in ex["ipk_rows"]] != ids:
        out.append(({"part": "inserted_primary_key_rows"}, "inserted_primary_key_rows %r, stored ids %r" % (ex["ipk_rows"], ids)))
    for key in ("lip", "lup"):
        if key in ex:
            for c, v in ex[key].items():
                ci = 0 if c == "x" else 1
                if nz(v) != stored[0][ci]:
                    out.append(({"part": key, "col": c}, "last_%s_params()[%s] = %r, stored %r" % ("inserted" if key == "lip" else "updated", c, v, stored[0][ci])))
            for ci, c in enumerate(("x", "y")):
                kind = case["xk"] if c == "x" else case["yk"]
                if exp["dflt"][0][ci] and kind in ("scalar", "callable", "ctx") and c not in ex[key]:
                    out.append(({"part": key, "col": c}, "Python-side %s of %s missing from last_*_params()" % (which, c)))
    if ex.get("rd") is not None:
        for c, v in ex["rd"].items():
            w = ids[0] if c == "id" else stored[0][0 if c == "x" else 1] if c in ("x", "y") else None
            if w is not None and nz(v) != w:
                out.append(({"part": "returned_defaults", "col": c}, "returned_defaults.%s = %r, stored %r" % (c, v, w)))
    if "rd" in ex and case["api"] == "core_return_defaults":
        for ci, c in enumerate(("x", "y")):
            kind = case["xk"] if c == "x" else case["yk"]
            if exp["dflt"][0][ci] and kind == "sql" and (ex["rd"] is None or c not in ex["rd"]):
                out.append(({"part": "returned_defaults", "col": c}, "SQL-expression %s of %s missing from returned_defaults %r" % (which, c, ex["rd"])))
    if ex.get("rd_rows") is not None:
        for r, rd in enumerate(ex["rd_rows"]):
            for c, v in rd.items():
                w = ids[r] if c == "id" else stored[r][0 if c == "x" else 1] if c in ("x", "y") else None
                if w is not None and nz(v) != w:
                    out.append(({"part": "returned_defaults_rows", "col": c, "row": r + 1}, "returned_defaults_rows[%d].%s = %r, stored %r" % (r, c, v, w)))
    if "returned" in ex:
        got = [[r[0], nz(r[1]), nz(r[2]), r[3]] for r in ex["returned"]]
        w = [[k + 1, stored[k][0], stored[k][1], ids[k]] for k in range(n)]
        if got != w:
            out.append(({"part": "returning"}, "RETURNING rows (k, x, y, id) %r, stored %r" % (got, w)))
    if "obj" in ex:
        # records of one flush are grouped into executemany batches by their parameter key sets (consecutive rows)
        def keyset(r):
            return tuple(sorted(c for c in ("x", "y") if case["rows"][r][c] != "omit"))
        for k in range(n):
            got = [ex["obj"][k][0], nz(ex["obj"][k][1]), nz(ex["obj"][k][2]), ex["obj"][k][3]]
            w = [k + 1, stored[k][0], stored[k][1], ids[k]]
            if got != w:
                later = k > 0 and keyset(k) == keyset(k - 1)
                kinds = sorted({(case["xk"] if c == "x" else case["yk"]) for ci, c in enumerate(("x", "y")) if got[1 + ci] != w[1 + ci]})
                out.append(({"part": "object_state", "row": k + 1, "later_row_of_executemany_batch": later, "diff_kinds": ",".join(kinds)},
                            "object %d after flush has (k, x, y, id) = %r, stored %r" % (k + 1, got, w)))
    return out


_CASES = None


def _work(idxs):
    from checks import insertmany_defaults as H
    res = []
    for i in idxs:
        c = _CASES[i]
        try:
            obs = H.run_case(c["case"])
            res.append((i, compare(c["case"], c["exp"], obs)))
        except Exception as ex:  # harness problem
            import traceback
            res.append((i, [({"part": "harness"}, "harness exception %r %s" % (ex, traceback.format_exc()[-600:]))]))
    return res


def main(chk):
    global _CASES
    rng = random.Random(chk.seed)
    q = tlc.q
    allpairs = [(a, b) for a in KINDS for b in KINDS]
    num = lambda p: 5 * KINDS.index(p[0]) + KINDS.index(p[1])  # noqa: E731

    def latin(k):
        """k seeded permutations of the kinds: every kind occurs k times as x kind and k times as y kind"""
        out = set()
        while len(out) < 5 * k:
            perm = KINDS[:]
            rng.shuffle(perm)
            if all((a, b) not in out for a, b in zip(KINDS, perm)):
                out.update(zip(KINDS, perm))
        return sorted(out)
    if chk.quick:
        pairs2, pairs3 = latin(2), []
    else:
        pairs2, pairs3 = allpairs, latin(1)
    consts = dict(Pairs1={num(p) for p in allpairs}, Pairs2={num(p) for p in pairs2}, Pairs3={num(p) for p in pairs3},
                  InsertApis={q(a) for a in INSERT_APIS}, UpdateApis={q(a) for a in UPDATE_APIS})
    cfgt = tlc.cfg(constants=consts, init="Init", next_="Stutter", invariants=INVS)
    r = tlc.run("Defaults", cfgt, chk.work, workers=1, timeout=2400, keep_stdout=False)
    if r.violated:
        chk.violation({"spec": "Defaults", "action": "TLC", "invariant": r.violated}, "TLC: %s violated in Defaults.tla" % r.violated)
    cases = r.json
    if len(cases) != r.distinct:
        chk.machinery("TLC printed %d cases for %d distinct states" % (len(cases), r.distinct))
    _CASES = cases
    nproc = max(1, min(tlc.NPROC, 16))
    chunks = [list(range(i, len(cases), nproc)) for i in range(nproc)]
    if nproc == 1:
        results = [_work(chunks[0])]
    else:
        with mp.get_context("fork").Pool(nproc) as pool:
            results = pool.map(_work, chunks)
    cov = {}
    nontriv = 0
    for c in cases:
        cs, ex = c["case"], c["exp"]
        key = "%s/%s" % (cs["op"], cs["api"])
        cov[key] = cov.get(key, 0) + 1
        if ex["exc"] != "none":
            cov["exc/" + ex["exc"]] = cov.get("exc/" + ex["exc"], 0) + 1
        # non-trivial: heterogeneous - within one column some row defaults and some row supplies, or an error is expected
        het = ex["exc"] != "none" or any(len({r[ci] for r in ex["dflt"]}) > 1 for ci in (0, 1))
        if het:
            nontriv += 1
        for ci, kind in enumerate((cs["xk"], cs["yk"])):
            if any(r[ci] for r in ex["dflt"]):
                cov["default_applied/" + kind] = cov.get("default_applied/" + kind, 0) + 1
    nviol = 0
    for res in results:
        for i, diffs in res:
            cs = cases[i]["case"]
            tags = classify(cs)
            for extra, text in diffs:
                sig = {"spec": "Defaults", "action": "Case", "kind": "conformance", "op": cs["op"], "api": cs["api"], "pk": cs["pk"],
                       "xk": cs["xk"], "yk": cs["yk"], "nrows": len(cs["rows"])}
                sig.update(tags)
                sig.update(extra)
                nviol += 1
                chk.violation(sig, "%s via %s (x default %s, y default %s, rows %s): %s"
                              % (cs["op"].upper(), cs["api"], cs["xk"], cs["yk"],
                                 ["x=%s,y=%s" % (r["x"], r["y"]) for r in cs["rows"]], text),
                              dict(case=cs, expected=cases[i]["exp"], mismatch=text))
    for op, apis in (("insert", INSERT_APIS), ("update", UPDATE_APIS)):
        for a in apis:
            if not cov.get("%s/%s" % (op, a)):
                chk.machinery("vacuous: no case for %s/%s" % (op, a))
    for k in KINDS:
        if not cov.get("default_applied/" + k):
            chk.machinery("vacuous: default kind %s never applied" % k)
    for e in ("StatementError", "CompileError"):
        if not cov.get("exc/" + e):
            chk.machinery("vacuous: no case expecting %s" % e)
    pick = [c for c in cases if len(c["case"]["rows"]) >= 2 and c["exp"]["exc"] == "none"
            and len({tuple(r) for r in c["exp"]["dflt"]}) > 1]
    samples = [pick[i] for i in sorted(rng.sample(range(len(pick)), min(3, len(pick))))]
    return chk.finish(
        dict(states=r.distinct, transitions=r.generated, traces_validated_against_impl=len(cases), distinct_nontrivial=nontriv,
             evaluations=len(cases), mismatches=nviol, case_classes=cov, samples=samples, exhaustive=True, tlc_wall_s=round(r.wall, 1), pairs_2rows=["%s/%s" % p for p in pairs2], pairs_3rows=["%s/%s" % p for p in pairs3],
             rule="one case per TLC initial state (operation x API x primary key kind x default kinds of x and y x per-row supply pattern); "
                  "non-trivial = within one column some rows take the default and others supply a value, or an error is expected",
             checker_cmd="tlc Defaults.tla (INIT Init, NEXT Stutter)"),
        assumptions=["SQLite only", "1 row: all 25 default-kind pairs; 2 rows: quick = 10 seeded pairs covering every kind twice per column, thorough = all 25; 3 rows: thorough only, 5 seeded pairs",
                     "Python-side, context-sensitive and SQL-expression defaults; server_default is outside the property"])
