"""C46 Expired and refreshed attributes reflect the database - OrmSessionExt.tla (DESIGN 3.8, 4 "C45-C48")."""
from checks import ormsessionext_common as X

LEVEL = "model_checking"
MANIFEST = dict(
    text="OrmSessionExt.tla adds an external writer (ExtSet/ExtDel: a second connection commits an upsert / delete), partial expiry expire(o, ['v']), attribute reads and queries with and without populate_existing to the OrmSession mechanism (expire, expire_all, refresh, commit with expire_on_commit, get, flush). TLC checks: a read of an expired attribute returns the row the session's transaction sees, a read of a loaded one returns it (pending change included) with zero SQL; after expire / expire_all / refresh / commit / populate_existing the affected objects are never stale and the next read gives the database value; a pending change on an attribute that was not expired survives operations on other attributes/objects; a loaded unmodified value not overtaken by an external write equals its row. Every edge is replayed on a real Session over a SQLite file in pysqlite legacy transaction mode (external writer never blocked while the session has not written): returned values, ObjectDeletedError / InvalidRequestError for externally deleted rows, loaded values, rows via raw connection, statement counts.",
    design_ref="3.8, 4 (C45-C48), Appendix F",
    note="trusted: TLC, SQLite's rollback-journal locking (the snapshot rule of the spec: reads see the committed rows until the session's connection writes; the external writer is enabled only while it holds no write transaction); populate_existing through select().execution_options; one class T(id, v); no relationships / lazy loaders / deferred columns",
    technique="TLA+ spec (OrmSessionExt.tla EXTENDS OrmSession.tla) + TLC exhaustive model checking; spec->code replay of every state-graph edge into a real Session with a second raw connection as the external writer")

INVS = ["WrSync", "StaleLoaded", "FreshAgree", "OneIdentity"]
PROPS = ["ReadReflectsDb", "ExpireMakesFresh", "PendingKept"]
FOOTPRINT = ["ExtSet", "ExtDel", "Expire", "ExpireAll", "ExpireV", "RefreshV", "Refresh", "Commit", "QueryAll", "Read", "SetV", "Flush", "Rollback", "Add"]


def spec(chk):
    q = chk.quick
    return dict(
        cfgs=[dict(name="ext", acts=["SetV", "Expire", "ExpireV", "Refresh", "Read", "Query", "Ext"], depth=6, edge_sample=0.12 if q else 0.6,
                   edge_probs={"Read": 0.6, "QueryAll": 0.6, "Refresh": 0.3, "ExpireV": 0.6, "RefreshV": 0.6} if q else {},
                   deep_depth=7 if q else 8, eoc=True, legacy=True, random=200 if q else 2000)],
        invs=INVS, props=PROPS, footprint=FOOTPRINT,
        nontrivial=lambda frm, act: act["a"] in ("Read", "Refresh", "QueryAll") or (act["a"] in ("ExtSet", "ExtDel") and any(x != "none" for x in frm["imap"])))


def main(chk):
    P = spec(chk)
    res = X.run_ext(chk, "C46", P)
    return X.finish(chk, "C46", P, res,
                    "every labelled edge of the OrmSessionExt state graph (external writes interleaved with expire / refresh / commit / "
                    "populate_existing / reads) replayed on a real Session; non-trivial = reads, refreshes, populate_existing queries and "
                    "external writes while the session holds an instance", INVS, PROPS,
                    ["SQLite only (file, pysqlite legacy transaction mode, NullPool): the external writer is modelled only while the session's "
                     "connection has not written in its transaction (afterwards SQLite would block it)",
                     "write-lock tracking is conservative: any flush with pending work counts as having written",
                     "one mapped class T(id, v); expire_on_commit=True"])
