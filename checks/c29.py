"""C29 The asyncio API matches the sync API and is safe under cancellation - AsyncCancel.tla / TraceAsyncCancel.tla (+ ConnTxn.tla)
(DESIGN 3.7, 4 C29, Appendix L)."""
import json
import logging
import multiprocessing as mp
import os
import random
import time
from concurrent.futures import ThreadPoolExecutor

from engine import graph, tlc

LEVEL = "model_checking"
MANIFEST = dict(
    text="(b) AsyncCancel.tla is the mechanism of one pooled connection used by one asyncio task (program ops over AsyncEngine/"
         "AsyncConnection/AsyncTransaction/AsyncSession/async_sessionmaker, one await point per driver call plus a non-database await, asyncio.shield-ed close "
         "tasks, pool invalidation/terminate, fairy finalizer) as a deterministic event machine; TLC checks exhaustively over every "
         "program of the grammar (<=4-5 ops) with a cancellation at ANY await point that the connection is returned or terminated "
         "exactly once, nothing with an open transaction is pooled, the engine stays usable and a cancelled begin-block never "
         "commits.  Every program (<=4 ops all, 5 ops sampled/all) is run on a hand-stepped event loop over a deterministic fake "
         "aiosqlite (real sqlite3 underneath), once to count its N suspension points and then N+1 times with task.cancel() (or an "
         "asyncio.timeout expiry) delivered exactly at the k-th one; each run's event trace (ops, driver calls and effects, PoolEvents, "
         "close tasks, cancellations, ledger, rows/locks seen by an independent connection, fresh checkout) is validated by TLC "
         "against TraceAsyncCancel.tla.  (a) the edge tours of ConnTxn.tla (the verified sync Connection spec) are replayed through "
         "AsyncConnection/AsyncTransaction on real aiosqlite and on the fake driver with the same expected outcomes and observations, "
         "and tours of OrmSession.tla (the verified sync Session spec) through AsyncSession.",
    design_ref="3.7, 4 (C29), Appendix L",
    note="trusted: TLC, asyncio's Task.cancel/shield semantics (real, CPython 3.12), sqlite3 as the database; crash points are "
         "enumerated on the fake driver only (real aiosqlite's worker thread is not schedulable) - real aiosqlite covers clause (a); "
         "asyncpg / psycopg-async / aiomysql: no servers in this sandbox (not covered); one task, one connection per program; one "
         "cancellation per run",
    technique="TLA+ spec (AsyncCancel.tla) + TLC exhaustive model checking; code->spec trace validation of every (program, crash point) "
              "run in batched TLC runs (TraceAsyncCancel.tla); spec->code replay of ConnTxn.tla / OrmSession.tla edge tours through AsyncConnection / AsyncSession")
INVS = ["MechanismSound", "ReturnsAtMostOnce", "NoLeakAtQuiescence", "PooledClean", "EngineUsable", "CancelledBlockNeverCommits",
        "InterruptedNeverPooled", "TypeOK"]
PROPS = ["CommitNeedsDueOp", "ShieldHolds"]
TRACE_INVS = ["ReturnsAtMostOnce", "PooledClean", "CancelledBlockNeverCommits", "InterruptedNeverPooled"]
NEED_ACTIONS = ["MechStep", "StartOp", "CancelAct", "EndAct", "GcFairy", "Quiesce"]
RESET_RULE = "Reset.interrupted_reset_still_returns_the_record"


# ----------------------------------------------------------------------------------------------- clause (b): runs
def _run_config(args):
    """one worker: for each (prog, pool, mode, post) count the suspension points, then cancel at every one of them"""
    wid, configs, workdir = args
    logging.disable(logging.CRITICAL)
    from checks.asynccancel_driver import Case, normalise, harness_invariants
    wd = os.path.join(workdir, "w%d" % wid)
    out = []
    stats = {"runs": 0, "programs": 0, "crash_points": 0, "errors": []}
    for prog, pool, mode, post in configs:
        try:
            c = Case(wd, prog, pool=pool, mode=mode, post=post)
            ev0, s0 = c.run(None)
            c.close()
        except Exception as e:      # noqa
            stats["errors"].append("%s %s %s: %r" % (",".join(prog), pool, mode, e))
            continue
        stats["programs"] += 1
        n = s0["nsusp"]
        runs = [(None, ev0, s0)]
        # a program that does not run to completion un-cancelled is not a harness error: its trace is rejected (Ended.outcome)
        for k in range(n + 1):
            try:
                c = Case(wd, prog, pool=pool, mode=mode, post=post)
                ev, s = c.run(k)
                c.close()
            except Exception as e:      # noqa
                stats["errors"].append("%s %s %s k=%d: %r" % (",".join(prog), pool, mode, k, e))
                continue
            runs.append((k, ev, s))
            stats["crash_points"] += 1
        for k, ev, s in runs:
            stats["runs"] += 1
            tid = "%s|%s|%s|%s|%s" % (",".join(prog), pool, mode, "+".join(post) or "-", "none" if k is None else k)
            se = next((e for e in ev if e["e"] == "settle"), None)
            info = {"id": tid, "prog": list(prog), "pool": pool, "mode": mode, "post": list(post), "k": k, "nsusp": n,
                    "harness": harness_invariants(ev), "unhandled": s["unhandled"],
                    "abandoned": bool(se and (set(se["open"]) - set(se["idle"]))),
                    "cancel_in_shield": _cancel_in_shield(ev), "cancel_in_call": _cancel_in_call(ev),
                    "cancel_in_sleep": _cancel_in_sleep(ev),
                    "gc_return": any(e["e"] == "pool" and e["ev"] == "detach" for e in ev),
                    "terminated": any(e["e"] == "pool" and e["ev"] == "invalidate" for e in ev)}
            out.append((info, json.dumps({"id": tid, "prog": list(prog), "pool": pool, "ev": normalise(ev)})))
    return out, stats


def _cancel_in_shield(ev):
    depth = 0
    for e in ev:
        if e["e"] == "closetask":
            depth += 1
        elif e["e"] == "closedone":
            depth -= 1
        elif e["e"] == "cancel" and e["t"] == "main":
            return depth > 0
    return False


def _cancel_in_sleep(ev):
    """the cancellation arrived while the task was suspended in `await asyncio.sleep(0)` - the connection stays alive.
    Returns "" (no), "plain", or "begin" when the sleep is inside a begin-block whose transaction must then be rolled back."""
    op = None
    stack = []
    for e in ev:
        if e["e"] == "opstart":
            op = e["op"]
        elif e["e"] == "opend":
            if e["op"] == "exit":
                stack.pop()
            elif e["op"] in ("with_connect", "engine_begin", "with_begin", "with_nested", "with_session", "sm_begin", "s_begin"):
                stack.append(e["op"])
            op = None
        elif e["e"] == "cancel" and e["t"] == "main":
            if op != "sleep":
                return ""
            return "begin" if any(b in ("engine_begin", "with_begin", "s_begin", "sm_begin") for b in stack) else "plain"
    return ""


def _cancel_in_call(ev):
    fl = None
    for e in ev:
        if e["e"] == "call":
            fl = e["k"]
        elif e["e"] == "ret":
            fl = None
        elif e["e"] == "closetask":
            return None
        elif e["e"] == "cancel" and e["t"] == "main":
            return fl
    return None


def run_programs(chk, configs, label):
    n = len(configs)
    nproc = max(1, min(tlc.NPROC, n))
    chunks = [configs[i::nproc] for i in range(nproc)]
    work = os.path.join(chk.work, "runs_" + label)
    args = [(i, chunks[i], work) for i in range(nproc)]
    if nproc == 1:
        res = [_run_config(args[0])]
    else:
        with mp.get_context("fork").Pool(nproc) as pool:
            res = pool.map(_run_config, args)
    traces, stats = [], {"runs": 0, "programs": 0, "crash_points": 0, "errors": []}
    for out, st in res:
        traces += out
        for k in ("runs", "programs", "crash_points"):
            stats[k] += st[k]
        stats["errors"] += st["errors"]
    traces.sort(key=lambda t: t[0]["id"])
    return traces, stats


def validate(chk, traces, label, batch=1200):
    """all traces through TraceAsyncCancel.tla; several single-worker TLC runs side by side.  Returns {trace id: rejection}"""
    files = []
    for i in range(0, len(traces), batch):
        p = os.path.join(chk.work, "traces_%s_%d.ndjson" % (label, i // batch))
        with open(p, "w") as f:
            for info, line in traces[i:i + batch]:
                f.write(line + "\n")
        files.append((p, len(traces[i:i + batch])))
    cfg = tlc.cfg(constants=dict(MaxOps=99, MaxRows=99, MaxCancels=9, MaxDepth=1000000, Legacy=False, Session=True),
                  init="TInit", next_="TNext", invariants=TRACE_INVS, view="TView", postcondition="Summary")

    def one(a):
        i, (p, n) = a
        r = tlc.run("TraceAsyncCancel", cfg, os.path.join(chk.work, "tlc_%s_%d" % (label, i)), workers=1, timeout=1700,
                    env={"TRACE_FILE": p}, keep_stdout=False, heap="3g")
        return r, n
    rej, states, gen = {}, 0, 0
    with ThreadPoolExecutor(max_workers=max(1, min(len(files), tlc.NPROC))) as ex:
        results = list(ex.map(one, enumerate(files)))
    for r, n in results:
        if r.violated:
            chk.violation({"spec": "TraceAsyncCancel", "action": "TLC", "invariant": r.violated, "kind": "trace-invariant"},
                          "TLC: %s violated on a state reached through an accepted trace prefix" % r.violated)
        summ = [o for o in r.json if "consumed" in o]
        if not summ or summ[0]["consumed"] != n or summ[0]["total"] != n:
            chk.machinery("trace batch not fully consumed: %r (expected %d traces)" % (summ, n))
        for o in r.json:
            if "rej" in o:
                rej[o["rej"]] = o
        states += r.distinct
        gen += r.generated
    return rej, states, gen


# ----------------------------------------------------------------------------------------------- clause (a)
def clause_a(chk, rng):
    from checks.asynccancel_sync import AsyncConnDriver
    out = {"graphs": []}
    steps_total = walks_total = 0
    plans = [("plain", dict(MaxH=3, MaxRows=2, MaxDepth=6, Ctx=False) if chk.quick else dict(MaxH=4, MaxRows=2, MaxDepth=7, Ctx=False)),
             ("ctx", dict(MaxH=2, MaxRows=2, MaxDepth=6, Ctx=True) if chk.quick else dict(MaxH=3, MaxRows=2, MaxDepth=7, Ctx=True))]
    for name, consts in plans:
        cfgt = tlc.cfg(constants=consts, init="InitEmit", view="View", action_constraints=["Emit"], constraints=["Depth"])
        g = graph.dump("ConnTxn", cfgt, os.path.join(chk.work, "conntxn_" + name), timeout=1500)
        walks, plan = graph.plan_tours(g, consts["MaxDepth"], rng)
        extra = graph.random_walks(g, 100 if chk.quick else 1000, consts["MaxDepth"], rng)
        cov = {}
        for e in g.edges:
            cov[e[1]["a"]] = cov.get(e[1]["a"], 0) + 1
        need = ["Begin", "BeginNested", "Exec", "ConnCommit", "ConnRollback", "H_commit", "H_rollback", "H_close", "Close"]
        need += ["WithEnter", "WithExit", "WithExitExc"] if consts["Ctx"] else []
        for a in need:
            if not cov.get(a):
                chk.machinery("vacuous: ConnTxn action %s never taken (%s graph)" % (a, name))
        for impl in ("aiosqlite", "fake"):
            steps, mism = graph.replay(g, walks + extra, lambda wid, wd, impl=impl: AsyncConnDriver(wid, wd, impl),
                                       os.path.join(chk.work, "replay_%s_%s" % (name, impl)), nproc=16)
            for m in mism:
                a = m["act"] if isinstance(m["act"], dict) else {"a": m["act"]}
                chk.violation({"spec": "ConnTxn", "action": a.get("a"), "ret": a.get("ret"), "kind": "sync-vs-async", "impl": impl, "cfg": name},
                              "AsyncConnection (%s) diverges from ConnTxn.tla, the spec of the sync Connection: %s" % (impl, m["mismatch"]), m)
            steps_total += steps
            walks_total += len(walks) + len(extra)
            out["graphs"].append(dict(graph=name, impl=impl, consts=str(consts), edges=len(g.edges), plan=plan, steps=steps,
                                      mismatches=len(mism), states=g.tlc.distinct))
        out.setdefault("sample", ["%s%s->%s" % (g.edges[ei][1]["a"], "(%d)" % g.edges[ei][1]["arg"] if g.edges[ei][1]["arg"] else "",
                                                g.edges[ei][1]["ret"]) for ei in walks[len(walks) // 2]])
    out["steps"] = steps_total
    out["walks"] = walks_total
    return out


def clause_a_orm(chk, rng):
    """a sample of OrmSession.tla's state graph (the sync Session's verified spec) through AsyncSession, both drivers"""
    from checks import ormsession_common as OC
    from checks.asynccancel_orm import AsyncOrmDriver
    dev = OC.probe_deviations(os.path.join(chk.work, "orm_probe")) & set(OC.DEV_ALL)
    depth = 5 if chk.quick else 6
    acts = ["SetV", "Sp", "Close", "Get", "Refresh", "Expire"]
    cs = OC.consts(2, 1, depth, True, acts, dev, vals=(1,))
    g = graph.dump(OC.SPEC, OC.mk_cfg(cs, [], [], emit=True), os.path.join(chk.work, "orm_graph"), timeout=1700, heap="4g")
    cov = {}
    for e in g.edges:
        cov[e[1]["a"]] = cov.get(e[1]["a"], 0) + 1
    for a in ("Add", "Delete", "Flush", "Commit", "Rollback", "BeginNested", "SpCommit", "SpRollback", "Close", "Get", "Refresh", "Expire", "SetV"):
        if not cov.get(a):
            chk.machinery("vacuous: OrmSession action %s never taken in the AsyncSession sample" % a)
    walks, plan = graph.plan_tours(g, depth, rng)
    if chk.quick and len(walks) > 700:
        walks = rng.sample(walks, 700)           # quick tier: a seeded sample of the tours; thorough: every edge
    out = {"graphs": [], "steps": 0, "walks": 0}
    for impl in ("aiosqlite", "fake"):
        steps, mism = graph.replay(g, walks, lambda wid, wd, impl=impl: AsyncOrmDriver(wid, wd, eoc=True, impl=impl),
                                   os.path.join(chk.work, "replay_orm_" + impl), nproc=16)
        for m in mism:
            a = m["act"] if isinstance(m["act"], dict) else {"a": m["act"]}
            chk.violation({"spec": "OrmSession", "action": a.get("a"), "ret": str(a.get("ret")), "kind": "sync-vs-async", "impl": impl},
                          "AsyncSession (%s) diverges from OrmSession.tla, the spec of the sync Session: %s  [walk: %s]"
                          % (impl, m["mismatch"][:600], OC.fmt_walk(m["walk"]) if m.get("walk") else ""), m)
        out["graphs"].append(dict(graph="OrmSession", impl=impl, consts=str(cs), edges=len(g.edges), plan=plan, walks=len(walks),
                                  steps=steps, mismatches=len(mism), states=g.tlc.distinct))
        out["steps"] += steps
        out["walks"] += len(walks)
    if walks:
        out["sample"] = OC.fmt_walk([g.edges[ei][1] for ei in walks[len(walks) // 2]])
    return out


# ----------------------------------------------------------------------------------------------- main
def main(chk):
    rng = random.Random(chk.seed)
    from checks.asynccancel_driver import programs
    logging.getLogger("sqlalchemy.pool").setLevel(logging.CRITICAL)
    # developer knob (mutant runs on a loaded box): VERIF_C29_PARTS=b skips clause (a); the evidence then says partial
    parts = set(os.environ.get("VERIF_C29_PARTS", "a,b").split(","))
    # 1. TLC: the mechanism satisfies the property for every program / crash point of the bounded grammar
    consts = dict(MaxOps=4 if chk.quick else 5, MaxRows=2, MaxCancels=1, MaxDepth=400, Legacy=False, Session=True)
    r = tlc.run("AsyncCancel", tlc.cfg(constants=consts, invariants=INVS, properties=PROPS, view="View", constraints=["Depth"]),
                os.path.join(chk.work, "mc"), workers=16, timeout=1700, coverage=True, keep_stdout=False, heap="6g")
    if r.violated:
        chk.violation({"spec": "AsyncCancel", "action": "TLC", "invariant": r.violated, "kind": "model"},
                      "TLC: %s violated in AsyncCancel.tla (Legacy = FALSE)" % r.violated)
    for a in NEED_ACTIONS:
        if not r.coverage.get(a, (0, 0))[1]:
            chk.machinery("vacuous: action %s of AsyncCancel.tla never taken (coverage %r)" % (a, r.coverage))
    # 2. clause (b): every (program, crash point) on the real code -> traces -> TLC
    p3, p4, p5 = programs(3), programs(4), programs(5)
    only5 = [p for p in p5 if len(p) == 5]
    only4 = [p for p in p4 if len(p) == 4]
    configs = [(p, "idle", "cancel", ()) for p in p4]
    POST = ("commit", "rollback", "execute", "close")
    if chk.quick:
        configs += [(p, pool, "cancel", ()) for p in p3 for pool in ("empty", "cold")]
        configs += [(p, "idle", "cancel", ()) for p in rng.sample(only5, 60)]
        configs += [(p, "empty", "cancel", ()) for p in rng.sample(only4, 25)]
        configs += [(p, "idle", "timeout", ()) for p in rng.sample(p4, 35)]
        configs += [(p, "idle", "cancel", POST) for p in rng.sample(p4, 35)]
        configs += [(p, "idle2", "cancel", ()) for p in rng.sample(p4, 30)]
    else:
        configs += [(p, "idle", "cancel", ()) for p in only5]
        configs += [(p, pool, "cancel", ()) for p in p4 for pool in ("empty", "cold")]
        configs += [(p, "idle", "timeout", ()) for p in p4]
        configs += [(p, pool, "cancel", POST) for p in p4 for pool in ("idle", "empty")]
        configs += [(p, "empty", "timeout", POST) for p in rng.sample(only5, 150)]
        configs += [(p, "idle2", "cancel", ()) for p in p3 + rng.sample(only4, 150)]
    if "b" not in parts:
        configs = configs[:40]
    stride = int(os.environ.get("VERIF_C29_STRIDE", "1"))      # developer knob (mutant runs): every n-th configuration only
    if stride > 1:
        configs = configs[::stride]
    t0 = time.time()
    traces, stats = run_programs(chk, configs, "b")
    t_runs = time.time() - t0
    for err in stats["errors"][:50]:
        # the asyncio API itself failed while the harness drove it (warm-up, a run that never finishes, an exception outside the
        # program's task): on the unchanged tree there is none; it is a failure of the code under test, not of the machinery
        chk.violation({"spec": "TraceAsyncCancel", "action": "run", "kind": "run-error", "rule": err.split(": ", 1)[-1][:60]},
                      "the program could not be run through the asyncio API: %s" % err, {"error": err})
    t0 = time.time()
    rej, tstates, tgen = validate(chk, traces, "b")
    t_tlc = time.time() - t0
    byid = {info["id"]: info for info, line in traces}
    nreset = 0
    for tid, o in sorted(rej.items()):
        info = byid[tid]
        why = sorted(o["why"])
        rule = next((w for w in why if not w.startswith("expected_")), why[0])
        legacy = rule == RESET_RULE
        nreset += legacy
        sig = {"spec": "TraceAsyncCancel", "action": o["ev"]["e"], "rule": rule, "kind": "trace", "op": o["s"]["op"],
               "pool": info["pool"], "mode": info["mode"], "during_reset": bool(o["s"]["resetting"]), "legacy_algorithm": legacy}
        what = ("%s: %s; program %s, pool %s, %s at suspension %s of %s; event #%d %s/%s rejected, state %s; harness: %s"
                % (rule, ", ".join(w for w in why if w != rule), ",".join(info["prog"]), info["pool"], info["mode"], info["k"], info["nsusp"],
                   o["at"], o["ev"]["e"], o["ev"]["a"], json.dumps(o["s"], sort_keys=True), "; ".join(info["harness"]) or "ok"))
        chk.violation(sig, what, {"prog": info["prog"], "pool": info["pool"], "mode": info["mode"], "post": info["post"], "k": info["k"],
                                  "rejection": o, "harness": info["harness"]})
    for info, line in traces:
        if info["id"] in rej:
            continue
        if info["harness"] or info["unhandled"]:
            chk.violation({"spec": "TraceAsyncCancel", "action": "harness", "kind": "harness-invariant", "pool": info["pool"], "mode": info["mode"],
                           "rule": (info["harness"] or info["unhandled"])[0][:60]},
                          "trace accepted by TLC but the harness-side invariant fails: %s; program %s pool %s %s at %s"
                          % ("; ".join(info["harness"] + info["unhandled"]), ",".join(info["prog"]), info["pool"], info["mode"], info["k"]),
                          {"prog": info["prog"], "pool": info["pool"], "mode": info["mode"], "post": info["post"], "k": info["k"]})
    legacy_model = None
    if nreset:
        # the defect's abstract counterexample: the mechanism AS CODED (Legacy = TRUE) violates the no-leak clause
        r2 = tlc.run("AsyncCancel", tlc.cfg(constants=dict(consts, MaxOps=3, Legacy=True), invariants=["NoLeakAtQuiescence"], view="View",
                                            constraints=["Depth"]),
                     os.path.join(chk.work, "mc_legacy"), workers=16, timeout=900, keep_stdout=False)
        legacy_model = r2.violated
        if r2.violated != "NoLeakAtQuiescence":
            chk.machinery("the Legacy = TRUE model does not reproduce the leak the traces show (TLC: %r)" % r2.violated)
    # vacuity of the binding: the situations the property is about really occurred
    cats = {"cancel_while_shielded_close_runs": sum(1 for i, _ in traces if i["cancel_in_shield"]),
            "cancel_in_driver_call": sum(1 for i, _ in traces if i["cancel_in_call"]),
            "cancel_in_commit_call": sum(1 for i, _ in traces if i["cancel_in_call"] == "commit"),
            "cancel_in_non_database_await": sum(1 for i, _ in traces if i["cancel_in_sleep"]),
            "cancel_in_non_database_await_inside_begin_block": sum(1 for i, _ in traces if i["cancel_in_sleep"] == "begin"),
            "terminated_after_cancel": sum(1 for i, _ in traces if i["terminated"]),
            "returned_by_finalizer": sum(1 for i, _ in traces if i["gc_return"]),
            "abandoned_while_being_created": sum(1 for i, _ in traces if i["abandoned"]),
            "timeouts": sum(1 for i, _ in traces if i["mode"] == "timeout" and i["k"] is not None),
            "terminated_next_to_an_idle_connection": sum(1 for i, _ in traces if i["pool"] == "idle2" and i["terminated"]),
            "effect_before_suspension": sum(1 for i, _ in traces if i["post"] and i["k"] is not None)}
    for k in ("cancel_while_shielded_close_runs", "cancel_in_driver_call", "cancel_in_commit_call", "terminated_after_cancel",
              "returned_by_finalizer", "timeouts", "effect_before_suspension", "cancel_in_non_database_await",
              "terminated_next_to_an_idle_connection",
              "cancel_in_non_database_await_inside_begin_block"):
        if not cats[k] and "b" in parts and stride == 1:
            chk.machinery("vacuous: no trace with %s" % k)
    # 3. clause (a)
    t0 = time.time()
    ca = clause_a(chk, rng) if "a" in parts else {"graphs": [], "walks": 0, "steps": 0, "sample": None}
    co = clause_a_orm(chk, rng) if "a" in parts else {"graphs": [], "walks": 0, "steps": 0}
    ca["graphs"] += co["graphs"]
    ca["walks"] += co["walks"]
    ca["steps"] += co["steps"]
    t_a = time.time() - t0
    nontriv = sum(1 for i, _ in traces if i["k"] is not None and (i["cancel_in_call"] or i["cancel_in_shield"] or i["cancel_in_sleep"]))
    pick = [t for t in traces if t[0]["k"] is not None and t[0]["cancel_in_shield"]][:1] + \
           [t for t in traces if t[0]["cancel_in_call"] == "commit"][:1] + \
           [t for t in traces if t[0]["cancel_in_sleep"] == "begin"][:1]
    samples = [{"trace": i["id"], "events": ["%s:%s" % (e["e"], e["a"]) for e in json.loads(line)["ev"] if e["e"] not in ("call", "ret")]}
               for i, line in pick]
    samples.append({"conntxn_walk_through_AsyncConnection": ca.get("sample")})
    samples.append({"ormsession_walk_through_AsyncSession": co.get("sample")})
    return chk.finish(
        dict(states=r.distinct + tstates + sum(g["states"] for g in ca["graphs"][::2]), transitions=r.generated + tgen,
             model=dict(consts=str(consts), distinct=r.distinct, generated=r.generated, depth=r.depth,
                        action_coverage={k: v[1] for k, v in r.coverage.items()}),
             traces_validated_against_impl=len(traces) + ca["walks"], programs=stats["programs"], crash_points=stats["crash_points"],
             runs=stats["runs"], traces_rejected=len(rej), trace_states=tstates, situation_counts=cats,
             legacy_model_violates=legacy_model, clause_a=ca["graphs"], evaluations=stats["runs"] + ca["steps"],
             distinct_nontrivial=nontriv, samples=samples, wall_runs_s=round(t_runs, 1), wall_trace_tlc_s=round(t_tlc, 1),
             wall_clause_a_s=round(t_a, 1), exhaustive=True,
             exhaustive_scope="every program of the grammar with <= %d ops on an idle pool x every suspension point (and the whole bounded "
                              "model in TLC); other pool states, timeout mode, effect-before-suspension: all programs <= %d ops%s"
                              % (4 if chk.quick else 5, 3 if chk.quick else 4, " or seeded samples" if chk.quick else ""),
             partial=("a" not in parts or "b" not in parts or stride > 1),
             rule="one trace per (program of the grammar, pool state, cancel|timeout, effect-before/after-suspension, suspension k); "
                  "non-trivial = the cancellation was delivered while a driver call on the program's connection was in flight, while "
                  "a shielded close task was running or while the task awaited something else with the connection checked out; clause (a): every edge of the ConnTxn graphs replayed through AsyncConnection, "
                  "tours of an OrmSession graph through AsyncSession (quick: seeded sample of the tours)",
             checker_cmd="tlc AsyncCancel.tla; tlc TraceAsyncCancel.tla (TRACE_FILE, -workers 1, batches); tlc ConnTxn.tla (edge dump)"),
        assumptions=["SQLite only; crash points enumerated on a deterministic fake aiosqlite (every driver call suspends exactly once, before or "
                     "after its effect) over real sqlite3; asyncpg / psycopg-async / aiomysql need servers that do not exist here",
                     "real aiosqlite (worker thread) only for clause (a)",
                     "one task, one connection or session per program, one cancellation / timeout per run; QueuePool(1, max_overflow=0) "
                     "(QueuePool(2, 0) with a second idle connection in the `idle2` runs)",
                     "a DBAPI connection abandoned while it is still being created (cancel during on-connect set-up) is counted "
                     "(situation_counts.abandoned_while_being_created), not judged: the property speaks about checked-out / pooled connections",
                     "bounds: model %s; traces: programs <= %d ops" % (consts, 5)])


def replay(chk, path):
    from checks.asynccancel_driver import Case, harness_invariants
    with open(path) as f:
        data = json.load(f)
    for case in data.get("cases", [])[:5]:
        rp = case["replay"]
        c = Case(os.path.join(chk.work, "replay"), rp["prog"], pool=rp["pool"], mode=rp["mode"], post=rp.get("post", ()))
        ev, s = c.run(rp["k"])
        c.close()
        print("program %s pool %s %s at suspension %s" % (",".join(rp["prog"]), rp["pool"], rp["mode"], rp["k"]))
        for e in ev:
            print("   ", e)
        print("   harness invariants:", harness_invariants(ev) or "ok")
    return 0
