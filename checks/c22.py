"""C22 compiling a well-formed construct never fails with an internal error - ConstructGrammar.tla (DESIGN 3.13, 4 C22).

LEVEL exploration.  The TLA+ module enumerates the derivations of a grammar of well-formed Core constructs (SELECT with joins /
subqueries / CTEs / lateral / VALUES / compounds / windows / CASE / CAST / functions, INSERT / UPDATE / DELETE with RETURNING,
upserts of three dialects, CTEs, hints, DDL from foreign-key graphs with table features and naming variants) up to Depth
non-default productions per derivation; TLC checks the sanity theorems of the enumeration.  The module is NOT an oracle: the
verdict per derivation is decided here - every derivation is built (checks/stmtshapes_common.ConstructBuilder) and compiled on
sqlite, postgresql, mysql, mariadb, mssql and oracle in dialect variants (server versions, paramstyles, asyncpg, Oracle without
ANSI joins) x compile variants (plain, literal_binds, render_postcompile, schema_translate_map with and without
render_schema_translate); only CompileError / UnsupportedCompilationError / ArgumentError / InvalidRequestError / NotImplementedError
are accepted, anything else (AttributeError, KeyError, TypeError, IndexError, AssertionError ...) is a violation.
"""
import os
import random

from engine import tlc

LEVEL = "exploration"
MANIFEST = dict(
    text="ConstructGrammar.tla enumerates every derivation with <=2 non-default productions (thorough adds all 3-combinations of a few "
         "random productions per dimension) of a grammar of Core constructs: SELECT (20 column forms x 14 FROM forms x 20 criteria x 22 modifiers x 13 wrappers), "
         "INSERT (9 sources x 5 RETURNING x 11 upserts x 7 decorations), UPDATE, DELETE, DDL (9 FK graphs x 17 table features x 12 operations "
         "x 6 naming variants). Every derivation is built and compiled on the six dialects in 16 dialect variants x 5 compile variants; any "
         "exception outside the documented classes is reported. The specification contributes the completeness of the bounded construct "
         "space, not an oracle.",
    design_ref="DESIGN 3.13, 4 C22, 6 (row C22)",
    note="exploration level: no expected output per derivation; compile only (no execution); ORM-enabled statements are not generated; "
         "the grammar and its builder are the harness' own",
    technique="TLA+ spec (ConstructGrammar.tla) + TLC enumeration of the bounded derivation space; every derivation compiled on the real "
              "compilers, exception classes checked")

KINDSETS = [["select"], ["insert", "update", "delete", "ddl", "cte"]]


def _set(xs):
    return "{" + ", ".join(tlc.q(x) for x in xs) + "}"


def _tlc_job(args):
    kinds, depth, sample, work, seed, timeout = args
    cfgt = tlc.cfg(constants=dict(Depth=depth, Kinds=_set(kinds), Sample=sample), invariants=["Typed", "Bounded"])
    r = tlc.run("ConstructGrammar", cfgt, work, workers=1, timeout=timeout, extra=["-seed", str(seed)], keep_stdout=False, heap="4g")
    return kinds, depth, sample, r


_B = _D = None


def _compile_chunk(args):
    global _B, _D
    chunk, full, seed = args
    from checks import stmtshapes_common as sc
    if _B is None:
        _B = sc.ConstructBuilder()
        _D = [(n, b, f()) for n, b, f in sc.dialect_variants()]
    base = [d for d in _D if d[0] == d[1]]
    extra = [d for d in _D if d[0] != d[1]]
    n = doc = 0
    bad, ctor = [], []
    for i, x in chunk:
        if full:
            plan = [(_D, sc.COMPILE_VARIANTS)]
        else:
            # quick: the six dialects x {plain, literal_binds} + one rotating extra compile variant on them,
            # + two rotating dialect variants x plain
            rot = sc.COMPILE_VARIANTS[2 + (i + seed) % 3]
            plan = [(base, sc.COMPILE_VARIANTS[:2] + [rot]),
                    ([extra[(i + seed) % len(extra)], extra[(i * 7 + seed + 3) % len(extra)]], sc.COMPILE_VARIANTS[:1])]
        for dl, vl in plan:
            a, b, c, ce = sc.compile_everywhere(_B, x, dl, vl)
            n += a
            doc += b
            bad += c
            if ce:
                ctor.append(("|".join(x[f] for f in "kabcde"), ce))
                break
    return n, doc, bad, ctor


def main(chk):
    from concurrent.futures import ThreadPoolExecutor
    import multiprocessing as mp
    jobs = []
    for i, kinds in enumerate(KINDSETS):
        jobs.append((kinds, 2, 0, os.path.join(chk.work, "tlc%d" % i), chk.seed + 1, 1500))
        if not chk.quick:
            # Depth 3 over 5 (select) / 4 (others) randomly chosen productions per dimension: all their three-way combinations
            jobs.append((kinds, 3, 5 if kinds == ["select"] else 4, os.path.join(chk.work, "tlc3_%d" % i), chk.seed + 1, 3000))
    derivs, runs = {}, []
    states = trans = 0
    with ThreadPoolExecutor(max_workers=max(1, min(4, tlc.NPROC))) as ex:
        for kinds, depth, sample, r in ex.map(_tlc_job, jobs):
            if r.violated:
                chk.violation({"spec": "ConstructGrammar", "action": "TLC", "invariant": r.violated}, "TLC: %s violated" % r.violated)
            if not r.json:
                chk.machinery("TLC printed no derivations for %r" % (kinds,))
            states += r.distinct
            trans += r.generated
            runs.append({"kinds": kinds, "depth": depth, "sample": sample, "distinct": r.distinct, "derivations": len(r.json), "wall_s": round(r.wall, 1)})
            for x in r.json:
                derivs["|".join(x[f] for f in "kabcde")] = x
    # vacuity: every production of every dimension occurs in some derivation
    from checks import stmtshapes_common as sc
    seen = {}
    for x in derivs.values():
        for f in "abcde":
            seen.setdefault((x["k"], f), set()).add(x[f])
    expect = {("select", "a"): 20, ("select", "b"): 14, ("select", "c"): 20, ("select", "d"): 22, ("select", "e"): 13,
              ("insert", "a"): 9, ("insert", "b"): 5, ("insert", "c"): 11, ("insert", "d"): 7,
              ("update", "a"): 9, ("update", "b"): 10, ("update", "c"): 5, ("update", "d"): 7,
              ("delete", "a"): 10, ("delete", "b"): 5, ("delete", "c"): 6,
              ("ddl", "a"): 9, ("ddl", "b"): 17, ("ddl", "c"): 12, ("ddl", "d"): 6,
              ("cte", "a"): 4, ("cte", "b"): 5, ("cte", "c"): 2, ("cte", "d"): 2, ("cte", "e"): 4}
    for k, nprod in expect.items():
        if len(seen.get(k, ())) != nprod:
            chk.machinery("vacuous: dimension %s.%s enumerates %d of %d productions" % (k[0], k[1], len(seen.get(k, ())), nprod))
    work = sorted(derivs.items())
    random.Random(chk.seed).shuffle(work)
    work = [(i, x) for i, (_, x) in enumerate(work)]
    nproc = max(1, min(tlc.NPROC, 16))
    nchunks = nproc * 6
    chunks = [(work[i::nchunks], not chk.quick, chk.seed) for i in range(nchunks) if work[i::nchunks]]
    ctx = mp.get_context("fork")
    with ctx.Pool(nproc) as pool:
        res = pool.map(_compile_chunk, chunks)
    ncomp = sum(r[0] for r in res)
    ndoc = sum(r[1] for r in res)
    ctor = [c for r in res for c in r[3]]
    nbad = 0
    classes = {}
    for r in res:
        for sig, text in r[2]:
            nbad += 1
            classes[(sig["exc"], sig["dialect"], sig["where"])] = classes.get((sig["exc"], sig["dialect"], sig["where"]), 0) + 1
            chk.violation(sig, text)
    if ctor and len(ctor) > len(derivs) // 20:
        chk.machinery("the builder's constructors refused %d derivations, e.g. %r" % (len(ctor), ctor[:3]))
    samples = [derivs[k] for k in list(derivs)[:: max(1, len(derivs) // 5)]][:5]
    return chk.finish(
        dict(states=states, transitions=trans, derivations=len(derivs), evaluations=ncomp, traces_validated_against_impl=len(derivs),
             distinct_nontrivial=sum(1 for x in derivs.values() if sum(1 for f in "abcde" if x[f] not in ("-",)) and
                                     any(x[f] not in ("-", "plain", "t", "none", "values", "single", "create_table") for f in "abcde")),
             compiles_raising_documented_error=ndoc, compiles_raising_undocumented_error=nbad,
             undocumented_error_classes=["%s on %s in %s x%d" % (k[0], k[1], k[2], v) for k, v in sorted(classes.items())],
             derivations_refused_by_constructors=len(ctor), constructor_refusals=ctor[:10],
             dialect_variants=len(sc.dialect_variants()), compile_variants=len(sc.COMPILE_VARIANTS), samples=samples, tlc_runs=runs,
             exhaustive=True,
             rule="one derivation per TLC initial state; non-trivial = at least one non-default production; each derivation compiled on "
                  "every dialect variant x compile variant (thorough) or on the six dialects x 3 compile variants + 2 rotating dialect "
                  "variants (quick)",
             checker_cmd="tlc ConstructGrammar.tla (Depth 2; thorough: + Depth 3 RandomSubset)"),
        assumptions=["exploration level: the specification enumerates, it does not predict the compiled text",
                     "bounded: <= 2 non-default productions per derivation exhaustively (all pairs of productions); thorough adds the 3-combinations of 5 / 4 random productions per dimension",
                     "compile only; Core constructs only; dialect objects are configured without a server (server_version_info set by hand)"])
