"""Binding of StmtShapes.tla / StmtCache.tla to real engines (C02, C16, C17).

Two uses:
  * shape table (function-transcription pattern): TLC prints, for every well-formed shape x valuation x schema map, F = what the
    statement means (SQL class, bound values in placeholder order, first-column ids, rowcount, secondary statement) plus the mechanism
    view (extracted parameters, placeholder positions).  `TableChecker` builds the real construct and executes it on the cache-less
    engine (and as a literal-rendered string) and compares.
  * state graph: `Driver` replays every edge of StmtCache's graph: the execution goes to the engine with the tiny LRU cache (mode
    "cached": through the cache; "nocache": compiled_cache=None on that same engine) and in lockstep to the cache-less engine; SQL text,
    parameters, cache_hit of every cursor execution are captured at before_cursor_execute; the real LRU content (entries in recency
    order, labelled when they are inserted) is compared with the specification's cache after every step.
"""
import json

import sqlalchemy as sa

from checks import stmt_common as sc
from engine import tlc

q = tlc.q
HIT = {"CACHE_HIT": "hit", "CACHE_MISS": "miss", "CACHING_DISABLED": "off", "NO_CACHE_KEY": "nokey", "NO_DIALECT_SUPPORT": "nodialect", "RAW": "raw"}
ALLMAPS = ["none", "s1s2", "n_s1", "ident", "both"]


def consts(group=(), nv=3, maps=("none",), modes=("cached", "nocache"), cap=2, depth=5, faulty="none", kinds=(), lam_none_bind=False, schema_only=False):
    return dict(LamNoneBind=lam_none_bind, TableSchemaOnly=schema_only, Group={q(n) for n in group}, NV=nv, Maps={q(m) for m in maps}, Modes={q(m) for m in modes}, Cap=cap,
                MaxDepth=depth, Faulty=q(faulty), TableKinds={q(k) for k in kinds})


TABLE_INVS = ["TableBindsAgree", "TableIdsSorted", "TableKeyFine", "TableMapOnlyShifts"]


def tlc_table(chk, kinds, nv, maps, workdir, timeout=900, lam_none_bind=False, schema_only=False):
    cfg = tlc.cfg(constants=consts(nv=nv, maps=maps, kinds=kinds, lam_none_bind=lam_none_bind, schema_only=schema_only), init="TableInit", next_="TableNext", invariants=TABLE_INVS)
    r = tlc.run("StmtCache", cfg, workdir, workers=1, timeout=timeout, keep_stdout=False)
    return r


# ----------------------------------------------------------------------------- observing one execution
def _flat(params, sh):
    out = []
    for v in params:
        if v is None:
            out.append(0 if sh["k"] == "ins" else None)     # the spec writes None as 0 in INSERT ... VALUES only
        else:
            out.append(v)
    return out


def observe(conn, log, sh, stmt, mname, nocache=False, val=None):
    opts = sc.opts_for(mname)
    if val is not None:
        sh = dict(sh, val=val)
    if nocache:
        opts["compiled_cache"] = None
    r = sc.run(conn, log, sh, stmt, opts)
    o = dict(out=r["out"], nstmts=len(r["stmts"]))
    if r["out"] != "ok":
        return o
    st = [x for x in r["stmts"] if x[2] != "RAW"]
    o["nstmts"] = len(st)
    o["sql"] = st[0][0] if st else None
    o["binds"] = _flat(st[0][1], sh) if st else None
    o["hit"] = HIT.get(st[0][2], st[0][2]) if st else None
    o["sec_sql"] = st[1][0] if len(st) > 1 else None
    o["sec"] = sorted(st[1][1]) if len(st) > 1 else None
    o["hit2"] = HIT.get(st[1][2], st[1][2]) if len(st) > 1 else "-"
    rows = r["rows"]
    o["ids"] = [x[0] for x in rows]
    o["ids2"] = sorted(x[1] for x in rows) if (((sh["f"] == "xjoin" and sh["k"] == "sel") or sh["k"] == "insm") and rows and len(rows[0]) > 1) else []
    o["rows"] = sorted(rows, key=repr)
    o["rc"] = r["rc"]
    o["lk"] = r["lk"]
    o["tv"] = r["tv"]
    return o


def compare_with_spec(o, f, sh, hit=None, hit2=None):
    """o: observation, f: the spec's F record (sql, binds, ids, ids2, c2, rc, sec).  -> list of (field, text)"""
    bad = []
    if o["out"] != "ok":
        return [("out", "raised %s, spec: ok" % o["out"])]
    want_n = 1 + (1 if f["sec"] else 0)
    if o["nstmts"] != want_n:
        bad.append(("nstmts", "%d cursor executions, spec %d" % (o["nstmts"], want_n)))
        return bad
    if o["binds"] != [None if x == -1 else x for x in f["binds"]]:
        bad.append(("binds", "bound values %r, spec %r" % (o["binds"], f["binds"])))
    ordered = sh["d"] == "limit" or sh["c"] in ("lchain3", "lchain4")
    got = o["ids"] if ordered else sorted(o["ids"])
    if got != list(f["ids"]):
        bad.append(("ids", "first-column ids %r, spec %r" % (got, f["ids"])))
    if f["c2"] and o["ids2"] != list(f["ids2"]):
        bad.append(("ids2", "partner ids %r, spec %r" % (o["ids2"], f["ids2"])))
    if f.get("lk", "-") != "-" and o["lk"] != f["lk"]:
        bad.append(("lk", "row lookup by the statement's column object: %s, spec %s" % (o["lk"], f["lk"])))
    if f.get("tv", "-") != "-" and o["tv"] != f["tv"]:
        bad.append(("tv", "class of the typed result values: %s, spec %s" % (o["tv"], f["tv"])))
    if f["rc"] >= 0 and o["rc"] != f["rc"]:
        bad.append(("rc", "rowcount %r, spec %r" % (o["rc"], f["rc"])))
    if f["sec"] and o["sec"] != sorted(f["sec"][0]):
        bad.append(("sec", "secondary (selectin) statement values %r, spec %r" % (o["sec"], sorted(f["sec"][0]))))
    if hit is not None and o["hit"] != hit:
        bad.append(("hit", "cache_hit %s, spec %s" % (o["hit"], hit)))
    if hit2 is not None and o["hit2"] != hit2:
        bad.append(("hit2", "secondary statement cache_hit %s, spec %s" % (o["hit2"], hit2)))
    return bad


def compare_obs(a, b, what):
    """two observations of the same execution on different engines/modes must agree on everything the database sees"""
    bad = []
    if a["out"] != b["out"]:
        return [("out", "%s: outcome %s vs %s" % (what, a["out"], b["out"]))]
    if a["out"] != "ok":
        return bad
    for k in ("sql", "binds", "sec_sql", "sec", "rows", "rc", "lk", "tv"):
        if a.get(k) != b.get(k):
            bad.append((k, "%s: %s differs: %r vs %r" % (what, k, a.get(k), b.get(k))))
    return bad


class Ctx:
    """per-process: engines + what has been learnt about SQL classes"""

    def __init__(self, workdir, cap):
        self.E = sc.Engines(workdir, cap)
        self.w = sc.world()
        self.sqlclass = {}          # json(SqlClass) -> SQL text
        self.translated = {}        # json(SqlClass) -> SQL text of the construct built with translated schema names
        self.sec_sql = None

    def close(self):
        self.E.close()

    # C16: the construct the property compares with - the same shape built over tables that CARRY the translated schema names
    def translated_sql(self, sh, val, sqlcls):
        k = json.dumps(sqlcls, sort_keys=True)
        t = self.translated.get(k)
        if t is None:
            eff = {None: sqlcls["e0"], "s1": sqlcls["e1"]}

            def T(schema):
                e = eff[schema]
                if e == "-":
                    return self.w.tabs[schema]
                return self.w.tabs[None if e == "main" else e]
            st = sc.build(sh, val, T)
            if sh["k"] == "insm":
                # the multi-row text only exists at execution time: run the statement with the literal schema names, no map, no cache
                t = sc.run(self.E.pconn, self.E.plog, dict(sh, val=val), st, {})["stmts"][0][0]
            else:
                t = str(st.compile(dialect=self.E.plain.dialect, compile_kwargs={"render_postcompile": True}))
            self.translated[k] = t
        return t

    def class_sql(self, sqlcls, text):
        """every execution of one SQL class must emit one text; returns the text seen first"""
        k = json.dumps(sqlcls, sort_keys=True)
        return self.sqlclass.setdefault(k, text)


def reset_lambda_state():
    from sqlalchemy.sql import lambdas
    lambdas.AnalyzedCode._fns.clear()
    lambdas._closure_per_cache_key._data.clear()


# ----------------------------------------------------------------------------- shape table
class TableChecker:
    def __init__(self, ctx, vals):
        self.ctx = ctx
        self.vals = vals            # list of valuation dicts (index 0 = V[1])
        self.n = 0
        self.keys = {}              # real cache key -> (name, p, SQL text, bind types)   (C02 clause 2)

    def case(self, name, p, mname, c):
        """-> list of (category, field, text); categories: calib | lambda | schema | key"""
        ctx, E = self.ctx, self.ctx.E
        sh = sc.parse(name)
        val = self.vals[p - 1]
        sh["val"] = val
        f = c["f"]
        out = []
        self.n += 1
        if sh["k"] == "lam":
            reset_lambda_state()
            stmt, plain = sc.build_lambda(sh, val, ctx.w.tabs.__getitem__)
        else:
            stmt = sc.build(sh, val)
            plain = None
        o = observe(E.pconn, E.plog, sh, stmt, mname)
        cat = "schema" if mname != "none" else ("lambda" if sh["k"] == "lam" else "calib")
        for fld, txt in compare_with_spec(o, f, sh, hit="nokey" if sh["k"] == "ddl" else "off"):
            out.append((cat, fld, txt))
        if o["out"] != "ok":
            return out
        first = ctx.class_sql(f["sql"], o["sql"])
        if first != o["sql"]:
            out.append((cat, "sqlclass", "SQL text differs from an earlier execution of the same SQL class: %r vs %r" % (o["sql"], first)))
        if mname != "none":
            t = ctx.translated_sql(sh, val, f["sql"])
            if t != o["sql"]:
                out.append(("schema", "sql", "emitted %r, the construct with translated schema names renders %r" % (o["sql"], t)))
        # mechanism calibration: extracted parameters in traversal order
        if sh["k"] not in ("lam", "ddl", "insm"):
            ck = stmt._generate_cache_key()
            ext = [[(0 if (x is None and sh["k"] == "ins") else x) for x in (bp.value if isinstance(bp.value, list) else [bp.value])]
                   for bp in ck.bindparams]
            if ext != [[None if y == -1 else y for y in x] for x in c["ex"]]:
                out.append(("calib", "extract", "extracted parameters %r, spec %r" % (ext, c["ex"])))
            if mname == "none":
                types = tuple(repr(bp.type) for bp in ck.bindparams)
                prev = self.keys.get(ck.key)
                if prev is None:
                    self.keys[ck.key] = (name, p, c["key"], o["sql"], types, f.get("lk", "-"), f.get("tv", "-"))
                else:
                    same_spec_key = prev[0] == name and prev[2] == c["key"]
                    # IN lists are expanded after compilation: compare the text up to the expansion
                    lk = f.get("lk", "-")
                    if (not same_spec_key) and (prev[3] != o["sql"] or prev[4] != types):
                        out.append(("key", "collision", "equal cache keys for %s/V%d and %s/V%d but SQL %r vs %r, bind types %s vs %s" % (
                            prev[0], prev[1], name, p, prev[3], o["sql"], list(prev[4]), list(types))))
                    elif (not same_spec_key) and "-" not in (f.get("tv", "-"), prev[6]) and prev[6] != f.get("tv", "-"):
                        out.append(("key", "collision", "equal cache keys for %s/V%d and %s/V%d (and equal SQL) but the compiled forms process "
                                    "result values differently: %s vs %s" % (prev[0], prev[1], name, p, prev[6], f.get("tv"))))
                    elif (not same_spec_key) and "-" not in (lk, prev[5]) and prev[5] != lk:
                        out.append(("key", "collision", "equal cache keys for %s/V%d and %s/V%d (and equal SQL) but the compiled forms match "
                                    "result columns differently: row lookup %s vs %s" % (prev[0], prev[1], name, p, prev[5], lk)))
                    elif same_spec_key and prev[4] != types:
                        out.append(("key", "types", "equal cache keys, different bind types %r vs %r" % (prev[4], types)))
        # literal-rendered string as an independent oracle for the rows
        if sh["k"] not in ("orm", "ddl", "txt", "typ", "insm") and not sc.is_orm(sh):
            try:
                lsql, lrows = sc.run_literal(E.pconn, sh, stmt, sc.MAPS[mname])
                if sh["k"] in ("sel", "lam") or sh["o"] == "ret":
                    if sorted(lrows, key=repr) != o["rows"]:
                        out.append((cat, "literal", "rows with bound parameters %r, rows of the literal rendering %r" % (o["rows"], lrows)))
            except sa.exc.SQLAlchemyError as e:
                out.append(("calib", "literal", "literal rendering failed: %r" % e))
        if plain is not None and not f["dev"]:
            # C17: the equivalent statement built directly from the current closure values
            psh = dict(sh)
            po = observe(E.pconn, E.plog, psh, plain, mname)
            for fld, txt in compare_obs(o, po, "lambda statement vs plain statement from the same values"):
                out.append(("lambda", fld, txt))
        return out


# ----------------------------------------------------------------------------- state graph
def dump_group(args):
    """one TLC run (model check + edge dump, single worker) for one group; run from a thread pool"""
    from engine import graph
    cfgt, workdir, timeout = args
    return graph.dump("StmtCache", cfgt, workdir, timeout=timeout, heap="3g")


def merge(graphs):
    """one Graph over several groups: states become {"g": group index, "c": compact cache}"""
    from engine import graph
    G = graph.Graph()
    for gi, g in enumerate(graphs):
        wrap = {}
        for k, stt in g.states.items():
            wrap[k] = {"g": gi, "c": stt}
        for k in g.inits:
            kk = graph.key(wrap[k])
            G.states.setdefault(kk, wrap[k])
            G.out.setdefault(kk, [])
            G.inits.append(kk)
        for fk, act, tk in g.edges:
            G.add_edge(wrap[fk], act, wrap[tk])
    return G


class Driver:
    def __init__(self, wid, workdir, cap, vals, table, lockstep_bypass=True):
        self.ctx = Ctx(workdir, cap)
        self.vals = vals
        self.table = table
        self.bypass = lockstep_bypass
        self.labels = {}

    def close(self):
        self.ctx.close()

    def reset(self, state):
        self.ctx.E.cached.clear_compiled_cache()
        reset_lambda_state()

    def label(self, ent):
        sh, p, m = ent
        if sh == "selectin":
            return json.dumps(["selectin", "val", "", m != "none"])
        c = self.table[sh]["cases"][p - 1][m]
        return json.dumps([sh] + list(c["key"]) + [m != "none"])

    def _real_cache(self):
        data = self.ctx.E.cached._compiled_cache._data
        return [k for k, _v in sorted(((k, item[2][0]) for k, item in data.items()), key=lambda kv: kv[1])]

    def _build(self, sh, val):
        if sh["k"] == "lam":
            return sc.build_lambda(sh, val, self.ctx.w.tabs.__getitem__)
        return sc.build(sh, val), None

    def step(self, frm, act, to):
        ctx, E = self.ctx, self.ctx.E
        if act["a"] == "Clear":
            E.cached.clear_compiled_cache()
            if len(E.cached._compiled_cache) != 0:
                return "cache not empty after clear_compiled_cache()"
            return None
        sh = sc.parse(act["sh"])
        val = self.vals[act["p"] - 1]
        sh["val"] = val
        mname, mode = act["m"], act["mode"]
        f = self.table[act["sh"]]["cases"][act["p"] - 1][mname]["f"]
        before = self._real_cache()
        bset = set(before)
        stmt, _ = self._build(sh, val)
        o = observe(E.cconn, E.clog, sh, stmt, mname, nocache=(mode == "nocache"))
        bad = []
        if o["out"] != act["out"]:
            bad.append(("out", "outcome %s, spec %s" % (o["out"], act["out"])))
        elif act["out"] == "ok":
            bad += compare_with_spec(o, f, sh, hit=act["hit"], hit2=act["hit2"])
            if not bad:
                first = ctx.class_sql(f["sql"], o["sql"])
                if first != o["sql"]:
                    bad.append(("sqlclass", "SQL text %r, an earlier execution of the same SQL class emitted %r" % (o["sql"], first)))
                if mname != "none":
                    t = ctx.translated_sql(sh, val, f["sql"])
                    if t != o["sql"]:
                        bad.append(("sql", "emitted %r, the construct with translated schema names renders %r" % (o["sql"], t)))
        # projected cache state: entries in recency order, labelled when inserted
        now = self._real_cache()
        new = [k for k in now if k not in bset]
        exp_keys = [self.label(e) for e in to["c"]]
        if mode == "cached" and act["out"] == "ok":
            old_labels = {self.label(e) for e in frm["c"]}
            want_new = [lab for lab in exp_keys if lab not in old_labels]
            if len(new) != len(want_new):
                bad.append(("cache", "%d new cache entries, spec %d %s" % (len(new), len(want_new), want_new)))
            else:
                for rk, lab in zip(new, want_new):
                    old = self.labels.get(rk)
                    if old is not None and old != lab:
                        bad.append(("cache", "one real cache key serves two keys of the specification: %s and %s" % (old, lab)))
                    self.labels[rk] = lab
        got_keys = [self.labels.get(k, "?") for k in now]
        if not bad and got_keys != exp_keys:
            bad.append(("cache", "cache content (recency order) %s, spec %s" % (got_keys, exp_keys)))
        # lockstep 1: the same engine with compiled_cache=None (must not touch the cache)
        if self.bypass and mode == "cached" and not bad:
            stmt1, _ = self._build(sh, val)
            bo = observe(E.cconn, E.clog, sh, stmt1, mname, nocache=True)
            if bo["out"] != "ok":
                bad.append(("bypass-out", "compiled_cache=None execution raised %s" % bo["out"]))
            else:
                if bo["hit"] != ("nokey" if sh["k"] == "ddl" else "off"):
                    bad.append(("bypass-hit", "compiled_cache=None execution reports cache_hit %s" % bo["hit"]))
                if act["out"] == "ok":
                    bad += compare_obs(o, bo, "through the cache vs compiled_cache=None on the same engine")
            if self._real_cache() != now:
                bad.append(("bypass-cache", "an execution with compiled_cache=None changed the cache"))
        # lockstep 2: the cache-less engine (a fresh statement object: the program builds one per call)
        stmt2, plain = self._build(sh, val)
        po = observe(E.pconn, E.plog, sh, stmt2, mname)
        if po["out"] != "ok":
            bad.append(("plain-out", "cache-less engine raised %s" % po["out"]))
        elif o["out"] == "ok" and act["out"] == "ok":
            bad += compare_obs(o, po, "engine with cache (%s) vs cache-less engine" % mode)
            if plain is not None and not f["dev"]:
                pp = observe(E.pconn, E.plog, sh, plain, mname)
                bad += compare_obs(o, pp, "lambda statement vs plain statement built from the current closure values")
        if bad:
            return "; ".join("%s: %s" % b for b in bad[:4])
        return None

    def finish(self, state):
        """drain: every entry left in the cache is hit once more with every valuation that has its key and must deliver THAT valuation's
        values and rows (hits never evict, so all entries stay)"""
        E = self.ctx.E
        for ent in state["c"]:
            name, p0, m = ent
            if name == "selectin":
                continue
            sh = sc.parse(name)
            if sh["o"] == "selectin":
                continue
            lab = self.label(ent)
            for p in range(1, len(self.vals) + 1):
                if self.label([name, p, m]) != lab:
                    continue
                f = self.table[name]["cases"][p - 1][m]["f"]
                sh["val"] = self.vals[p - 1]
                stmt, _ = self._build(sh, self.vals[p - 1])
                o = observe(E.cconn, E.clog, sh, stmt, m)
                bad = compare_with_spec(o, f, sh, hit="hit", hit2="-")
                if bad:
                    return "drain: entry %s hit with V%d: " % (ent, p) + "; ".join("%s: %s" % b for b in bad[:3])
        return None
