"""Shared binding of OrmQuery.tla (C40, C41, C42) to the real ORM on SQLite.

* `generate(chk, plans)`        runs TLC on OrmQuery.tla (several seeds / INITs in parallel: TLC computes initial states single-threaded),
                                returns the printed cases + measured counts; a violated theorem = inconsistent SPEC -> machinery failure
* `Rel`                         tables P/C/G, one imperative mapping per loader configuration (own registry, shared Table objects)
* `orm_select / orm_query`      the query record of the spec written with the ORM's relationship vocabulary (join along relationships,
                                any()/has(), entity selects, legacy Query)
* `core_select`                 the same query written by hand over the Table objects (explicit ON clauses, explicit EXISTS with aliases):
                                shares no relationship / entity machinery with the ORM form
* `snapshot_*`                  the loaded object graph as plain data (None -> 0 as in the spec)
* `pmap`                        fork-parallel case replay
"""
import os
import random
import warnings
from concurrent.futures import ThreadPoolExecutor

from engine import tlc

SPEC = "OrmQuery"
# every constant of OrmQuery.tla with a neutral value; plans override what they vary
BASE = dict(NP=3, NC=3, NG=2, MaxV=2, K=1, NQ=1, Roots='{"P", "C"}', GridSel='"all"', GridKeep=100, GridKeepF=100, NH=4, Mixed=False)


def scale():
    """development aid only (never set by ./check users): VERIF_OQ_SCALE=0.1 shrinks the number of generated cases"""
    try:
        return float(os.environ.get("VERIF_OQ_SCALE", "1"))
    except ValueError:
        return 1.0

STRATS = ["lazy", "joined", "subquery", "selectin", "immediate"]
LAZYARG = {"lazy": "select", "joined": "joined", "subquery": "subquery", "selectin": "selectin", "immediate": "immediate"}


# ============================================================================================ TLC
def _one_run(chk, idx, init, consts, invariants, seed, timeout):
    cfgt = tlc.cfg(constants=consts, init=init, invariants=invariants)
    return tlc.run(SPEC, cfgt, os.path.join(chk.work, "tlc-%d" % idx), workers=1, timeout=timeout,
                   extra=["-seed", str(seed)], keep_stdout=False)


def generate(chk, plans, invariants, timeout):
    """plans: list of (init, constants).  Each plan is one TLC process (own seed derived from chk.seed).
    Returns (cases, runs): cases are the JSON objects TLC printed (deduplicated), runs the measured figures."""
    cdir = os.environ.get("VERIF_OQ_CACHE")      # development aid only: reuse TLC output for an unchanged spec + cfg + seed
    spec_text = open(os.path.join(tlc.SPECS, SPEC + ".tla")).read()

    def job(i):
        init, consts = plans[i]
        seed = chk.seed * 1000 + i + 1
        if cdir:
            import hashlib
            import pickle
            h = hashlib.sha1((spec_text + repr((init, sorted(consts.items()), invariants, seed))).encode()).hexdigest()[:16]
            fn = os.path.join(cdir, h + ".pkl")
            if os.path.exists(fn):
                return pickle.load(open(fn, "rb"))
        r = _one_run(chk, i, init, consts, invariants, seed, timeout)
        r.stdout = ""
        if cdir:
            os.makedirs(cdir, exist_ok=True)
            pickle.dump(r, open(fn, "wb"))
        return r

    with ThreadPoolExecutor(max_workers=max(1, min(len(plans), tlc.NPROC))) as ex:
        results = list(ex.map(job, range(len(plans))))
    cases, runs, seen = [], [], set()
    for (init, consts), r in zip(plans, results):
        if r.violated:
            chk.machinery("OrmQuery.tla: %s violated (%s %s): the specification is inconsistent" % (r.violated, init, consts))
        if not r.json:
            chk.machinery("TLC printed no cases for %s %s" % (init, consts))
        n = 0
        for c in r.json:
            c.pop("k", None)
            key = repr(sorted(c["ds"].items())) + repr(sorted(c["q"].items()))
            if key in seen:
                continue
            seen.add(key)
            cases.append(c)
            n += 1
        runs.append(dict(init=init, constants={k: v for k, v in consts.items()}, distinct=r.distinct, generated=r.generated,
                         printed=len(r.json), new_cases=n, wall_s=round(r.wall, 1)))
        r.json = []
    return cases, runs


_PM = None


def _pm_run(chunk):
    return _PM(chunk)


def pmap(worker, n, nproc=None):
    """fork-parallel map over range(n): worker(list_of_indices) -> result; results in chunk order."""
    import multiprocessing as mp
    import sqlalchemy.orm      # noqa: F401  imported BEFORE the fork: compiling the library once instead of once per worker
    import sqlalchemy.dialects.sqlite      # noqa: F401
    global _PM
    nproc = max(1, min(nproc or tlc.NPROC, tlc.NPROC, n // 8 + 1))
    chunks = [list(range(i, n, nproc)) for i in range(nproc)]
    if nproc == 1:
        return [worker(chunks[0])]
    _PM = worker
    with mp.get_context("fork").Pool(nproc) as pool:
        return pool.map(_pm_run, chunks)


def z(v):
    """None -> 0 (the spec's NULL)"""
    return 0 if v is None else v


def n(v):
    return None if v == 0 else v


# ============================================================================================ part 1: P / C / G
class Rel:
    """Tables + mappings.  mapping(children=, gs=, parent=, deferred=) returns a namespace with classes P, C, G whose relationships
    carry the given mapper-level `lazy=` setting; all mappings share the Table objects (one registry each)."""

    def __init__(self, path=None):
        import sqlalchemy as sa
        from sqlalchemy import orm
        from sqlalchemy.pool import StaticPool
        self.sa, self.orm = sa, orm
        md = self.md = sa.MetaData()
        self.p = sa.Table("p", md, sa.Column("id", sa.Integer, primary_key=True), sa.Column("x", sa.Integer))
        self.c = sa.Table("c", md, sa.Column("id", sa.Integer, primary_key=True), sa.Column("y", sa.Integer),
                          sa.Column("pid", sa.Integer, sa.ForeignKey("p.id")))
        self.g = sa.Table("g", md, sa.Column("id", sa.Integer, primary_key=True), sa.Column("z", sa.Integer),
                          sa.Column("cid", sa.Integer, sa.ForeignKey("c.id")))
        if path:
            self.engine = sa.create_engine("sqlite:///" + path)
        else:
            self.engine = sa.create_engine("sqlite://", poolclass=StaticPool, connect_args={"check_same_thread": False})
        md.create_all(self.engine)
        self._maps = {}
        self.nsql = 0
        sa.event.listen(self.engine, "before_cursor_execute", self._count)

    def _count(self, *a):
        self.nsql += 1

    def mapping(self, children="lazy", gs="lazy", parent="lazy", deferred=False, expr=False):
        key = (children, gs, parent, deferred, expr)
        if key in self._maps:
            return self._maps[key]
        sa, orm = self.sa, self.orm
        reg = orm.registry()

        class P:
            pass

        class C:
            pass

        class G:
            pass
        pprops = dict(children=orm.relationship(C, lazy=LAZYARG[children], order_by=self.c.c.id.desc(), back_populates="parent"))
        cprops = dict(parent=orm.relationship(P, lazy=LAZYARG[parent], back_populates="children"),
                      gs=orm.relationship(G, lazy=LAZYARG[gs], order_by=(self.g.c.z, self.g.c.id), back_populates="child"))
        gprops = dict(child=orm.relationship(C, back_populates="gs"))
        if deferred:
            pprops["x"] = orm.deferred(self.p.c.x)
            cprops["y"] = orm.deferred(self.c.c.y)
            gprops["z"] = orm.deferred(self.g.c.z)
        if expr:
            pprops["xp"] = orm.query_expression()
            cprops["yp"] = orm.query_expression()
        reg.map_imperatively(P, self.p, properties=pprops)
        reg.map_imperatively(C, self.c, properties=cprops)
        reg.map_imperatively(G, self.g, properties=gprops)
        reg.configure()

        class M:
            pass
        M.P, M.C, M.G, M.key = P, C, G, key
        self._maps[key] = M
        return M

    def load(self, ds):
        with self.engine.begin() as conn:
            conn.exec_driver_sql("delete from g")
            conn.exec_driver_sql("delete from c")
            conn.exec_driver_sql("delete from p")
            if ds["np"]:
                conn.execute(self.p.insert(), [dict(id=i + 1, x=n(v)) for i, v in enumerate(ds["px"])])
            if ds["nc"]:
                conn.execute(self.c.insert(), [dict(id=i + 1, y=n(ds["cy"][i]), pid=n(ds["cp"][i])) for i in range(ds["nc"])])
            if ds["ng"]:
                conn.execute(self.g.insert(), [dict(id=i + 1, z=n(ds["gz"][i]), cid=n(ds["gc"][i])) for i in range(ds["ng"])])


JDOWN = ("inner", "innery", "outer", "outery")
JUP = ("par", "parx", "opar", "oparx")
ENTITY_SELS = ("ent", "pair", "entcol", "entgrp")


def _order(q, rattr, rid, jid, jattr, plain):
    """ORDER BY list (column, descending?) as the spec defines it: root attribute [DESC] then the identity of what is selected."""
    sel, joined = q["sel"], q["jn"] != "none"
    if plain:
        tie = [rid] + ([jid] if joined else [])
    elif sel in ("ent", "cols", "grp", "entgrp"):
        tie = [rid]
    elif sel == "x":
        tie = []
    elif sel == "pair":
        tie = [rid, jid]
    else:
        tie = [rid, jattr]
    o = q["ord"]
    if o == "none":
        return []
    if o == "id":
        return [(t, False) for t in tie]
    if o == "idd":
        return [(t, True) for t in tie]
    return [(rattr, o == "xd")] + [(t, False) for t in tie]


def _plain(q):
    return not q["dist"] and q["sel"] not in ("grp", "entgrp")


def orm_parts(q, M, sa, orm, alias=False, root_entity=None, ds=None):
    """The query written with ORM vocabulary.  Returns dict(columns=[...], where=[...], joins=[(target, outer)], group_by, order_by=[...]).
    root_entity: use this (aliased) entity as the root; ds: the data set (only to build the object handed to contains() / == obj)."""
    P, C, G = M.P, M.C, M.G
    root = q["root"]
    R, D = (P, C) if root == "P" else (C, G)
    if root_entity is not None:
        R = root_entity
    elif alias:
        R = orm.aliased(R)
    rattr = R.x if root == "P" else R.y
    down = R.children if root == "P" else R.gs
    pf, v = q["pf"], q["pv"]
    where = []
    # the criterion class of any(): the plain class (its own subquery scope)
    dcrit = (lambda: C.y == v) if root == "P" else (lambda: G.z == v)
    if pf == "xeq":
        where.append(rattr == v)
    elif pf == "xne":
        where.append(rattr != v)
    elif pf == "xnull":
        where.append(rattr.is_(None))
    elif pf == "any":
        where.append(down.any())
    elif pf == "anyc":
        where.append(down.any(dcrit()))
    elif pf == "nanyc":
        where.append(~down.any(dcrit()))
    elif pf == "anyg":
        where.append(R.children.any(C.gs.any(G.z == v)))
    elif pf == "cnt":
        C2 = orm.aliased(C)
        where.append(sa.select(sa.func.count(C2.id)).where(C2.pid == R.id).scalar_subquery() >= v)
    elif pf == "insub":
        C2 = orm.aliased(C)
        where.append(R.id.in_(sa.select(C2.pid).where(C2.y == v)))
    elif pf == "ninsub":
        C2 = orm.aliased(C)
        where.append(R.id.not_in(sa.select(C2.pid).where(C2.y == v)))
    elif pf == "cont":
        if root == "P":
            pid = n(ds["cp"][v - 1]) if v <= ds["nc"] else None
            where.append(R.children.contains(C(id=v, pid=pid)))
        else:
            where.append(R.parent == P(id=v))
    elif pf == "pnull":
        where.append(R.parent == None)  # noqa: E711
    elif pf == "has":
        where.append(R.parent.has())
    elif pf == "hasx":
        where.append(R.parent.has(P.x == v))
    elif pf == "nhasx":
        where.append(~R.parent.has(P.x == v))
    jn, jv = q["jn"], q["jv"]
    joins = []
    J = jid = jattr = None
    if jn in JDOWN:
        J = orm.aliased(D) if alias else D
        jattr = J.y if root == "P" else J.z
        joins.append((down.of_type(J) if alias else down, jn in ("outer", "outery")))
    elif jn in JUP:
        J = orm.aliased(P) if alias else P
        jattr = J.x
        joins.append((R.parent.of_type(J) if alias else R.parent, jn in ("opar", "oparx")))
    if J is not None:
        jid = J.id
        if jn in ("innery", "parx"):
            where.append(jattr == jv)
        elif jn in ("outery", "oparx"):
            where.append(sa.or_(jattr == jv, jid.is_(None)))
    sel = q["sel"]
    group_by = None
    if sel == "ent":
        cols = [R]
    elif sel == "cols":
        cols = [R.id, rattr]
    elif sel == "x":
        cols = [rattr]
    elif sel == "pair":
        cols = [R, J]
    elif sel == "entcol":
        cols = [R, jattr]
    elif sel == "grp":
        cols, group_by = [R.id, sa.func.count(jid)], R.id
    else:
        cols, group_by = [R, sa.func.count(jid)], R.id
    order = [(c.desc() if d else c.asc()) for c, d in _order(q, rattr, R.id, jid, jattr, _plain(q))]
    return dict(columns=cols, where=where, joins=joins, group_by=group_by, order_by=order, R=R, J=J)


def orm_select(q, M, sa, orm, alias=False, parts=None, ds=None):
    pt = parts or orm_parts(q, M, sa, orm, alias, ds=ds)
    stmt = sa.select(*pt["columns"])
    for target, outer in pt["joins"]:
        stmt = stmt.outerjoin(target) if outer else stmt.join(target)
    for w in pt["where"]:
        stmt = stmt.where(w)
    if pt["group_by"] is not None:
        stmt = stmt.group_by(pt["group_by"])
    if q["dist"]:
        stmt = stmt.distinct()
    if pt["order_by"]:
        stmt = stmt.order_by(*pt["order_by"])
    if q["lim"] != -1:
        stmt = stmt.limit(q["lim"])
    if q["off"] != -1:
        stmt = stmt.offset(q["off"])
    return stmt


def orm_query(q, M, sa, orm, session, alias=False, root_entity=None, ds=None):
    """the legacy Query spelling"""
    pt = orm_parts(q, M, sa, orm, alias, root_entity=root_entity, ds=ds)
    qy = session.query(*pt["columns"])
    for target, outer in pt["joins"]:
        qy = qy.outerjoin(target) if outer else qy.join(target)
    for w in pt["where"]:
        qy = qy.filter(w)
    if pt["group_by"] is not None:
        qy = qy.group_by(pt["group_by"])
    if q["dist"]:
        qy = qy.distinct()
    if pt["order_by"]:
        qy = qy.order_by(*pt["order_by"])
    if q["lim"] != -1:
        qy = qy.limit(q["lim"])
    if q["off"] != -1:
        qy = qy.offset(q["off"])
    return qy


def core_select(q, rel, root_table=None):
    """The equivalent Core statement built from Table objects only.  Every entity is selected as ALL its columns; returns
    (stmt, shape) where shape maps a Core row to the spec's tuple + the entity column values."""
    sa = rel.sa
    p, c, g = rel.p, rel.c, rel.g
    root = q["root"]
    r, d = (p, c) if root == "P" else (c, g)
    if root_table is not None:
        r = root_table
    rattr = r.c.x if root == "P" else r.c.y
    dfk = (lambda t: t.c.pid) if root == "P" else (lambda t: t.c.cid)
    dattr = (lambda t: t.c.y) if root == "P" else (lambda t: t.c.z)
    pf, v = q["pf"], q["pv"]
    where = []
    d2 = d.alias("d2")
    if pf == "xeq":
        where.append(rattr == v)
    elif pf == "xne":
        where.append(rattr != v)
    elif pf == "xnull":
        where.append(rattr.is_(None))
    elif pf == "any":
        where.append(sa.exists(sa.select(sa.literal(1)).select_from(d2).where(dfk(d2) == r.c.id)))
    elif pf in ("anyc", "nanyc"):
        e = sa.exists(sa.select(sa.literal(1)).select_from(d2).where(dfk(d2) == r.c.id, dattr(d2) == v))
        where.append(e if pf == "anyc" else ~e)
    elif pf == "anyg":
        g2 = g.alias("g2")
        inner = sa.exists(sa.select(sa.literal(1)).select_from(g2).where(g2.c.cid == d2.c.id, g2.c.z == v))
        where.append(sa.exists(sa.select(sa.literal(1)).select_from(d2).where(d2.c.pid == r.c.id, inner)))
    elif pf == "cnt":
        where.append(sa.select(sa.func.count(d2.c.id)).where(d2.c.pid == r.c.id).scalar_subquery() >= v)
    elif pf == "insub":
        where.append(r.c.id.in_(sa.select(d2.c.pid).where(d2.c.y == v)))
    elif pf == "ninsub":
        where.append(r.c.id.not_in(sa.select(d2.c.pid).where(d2.c.y == v)))
    elif pf == "cont":
        where.append(r.c.id.in_(sa.select(d2.c.pid).where(d2.c.id == v)) if root == "P" else r.c.pid == v)
    elif pf == "pnull":
        where.append(r.c.pid.is_(None))
    elif pf in ("has", "hasx", "nhasx"):
        p2 = p.alias("p2")
        crit = [p2.c.id == r.c.pid] + ([p2.c.x == v] if pf != "has" else [])
        e = sa.exists(sa.select(sa.literal(1)).select_from(p2).where(*crit))
        where.append(~e if pf == "nhasx" else e)
    jn, jv = q["jn"], q["jv"]
    frm = r
    j = jattr = None
    if jn in JDOWN:
        j = d
        jattr = dattr(d)
        frm = r.join(d, dfk(d) == r.c.id, isouter=jn in ("outer", "outery"))
    elif jn in JUP:
        j = p
        jattr = p.c.x
        frm = r.join(p, p.c.id == r.c.pid, isouter=jn in ("opar", "oparx"))
    if j is not None:
        if jn in ("innery", "parx"):
            where.append(jattr == jv)
        elif jn in ("outery", "oparx"):
            where.append(sa.or_(jattr == jv, j.c.id.is_(None)))
    sel = q["sel"]
    group_by = None
    rcols = list(r.c)
    if sel == "ent":
        cols, shape = rcols, [("ent", root, len(rcols))]
    elif sel == "cols":
        cols, shape = [r.c.id, rattr], [("col",), ("col",)]
    elif sel == "x":
        cols, shape = [rattr], [("col",)]
    elif sel == "pair":
        cols, shape = rcols + list(j.c), [("ent", root, len(rcols)), ("ent", j.name.upper()[:1], len(j.c))]
    elif sel == "entcol":
        cols, shape = rcols + [jattr], [("ent", root, len(rcols)), ("col",)]
    elif sel == "grp":
        cols, shape, group_by = [r.c.id, sa.func.count(j.c.id)], [("col",), ("col",)], r.c.id
    else:
        cols, shape, group_by = rcols + [sa.func.count(j.c.id)], [("ent", root, len(rcols)), ("col",)], r.c.id
    stmt = sa.select(*cols).select_from(frm)
    for w in where:
        stmt = stmt.where(w)
    if group_by is not None:
        stmt = stmt.group_by(group_by)
    if q["dist"]:
        stmt = stmt.distinct()
    order = _order(q, rattr, r.c.id, j.c.id if j is not None else None, jattr, _plain(q))
    if order:
        stmt = stmt.order_by(*[(col.desc() if dsc else col.asc()) for col, dsc in order])
    if q["lim"] != -1:
        stmt = stmt.limit(q["lim"])
    if q["off"] != -1:
        stmt = stmt.offset(q["off"])
    return stmt, shape


def core_rows(row_iter, shape):
    """Core rows -> (spec tuples, entity column values): [(tuple, [(cls, colvalues) ...])]"""
    out = []
    for row in row_iter:
        i = 0
        tup, ents = [], []
        for s in shape:
            if s[0] == "ent":
                vals = tuple(z(x) for x in row[i:i + s[2]])
                tup.append(vals[0])
                ents.append((s[1], vals if vals[0] else None))
                i += s[2]
            else:
                tup.append(z(row[i]))
                i += 1
        out.append((tuple(tup), ents))
    return out


def ent_cols(cls, obj):
    """(id, attr, fk) of a loaded entity in table column order (None -> 0)"""
    if obj is None:
        return None
    if cls == "P":
        return (obj.id, z(obj.x))
    if cls == "C":
        return (obj.id, z(obj.y), z(obj.pid))
    return (obj.id, z(obj.z), z(obj.cid))


def orm_tuple(row, sel):
    """an ORM result row -> the spec's tuple (entities by primary key, None -> 0)"""
    out = []
    for x in row:
        if x is None:
            out.append(0)
        elif isinstance(x, int):
            out.append(x)
        else:
            out.append(x.id)
    return tuple(out)


def snap_g(o):
    return {"id": o.id, "z": z(o.z), "cid": z(o.cid)}


def snap_c(o):
    return {"id": o.id, "y": z(o.y), "pid": z(o.pid), "gs": [snap_g(x) for x in o.gs]}


def snap_p(o):
    return {"id": o.id, "x": z(o.x), "cs": [snap_c(x) for x in o.children]}


def expected_ds_key(ds):
    return (ds["np"], ds["nc"], ds["ng"], tuple(ds["px"]), tuple(ds["cp"]), tuple(ds["cy"]), tuple(ds["gc"]), tuple(ds["gz"]))


def quiet():
    import sqlalchemy as sa
    warnings.filterwarnings("ignore", category=sa.exc.SAWarning)


# ============================================================================================ part 2: hierarchies
HALL = ["A", "B1", "B2", "C1", "C2", "D1"]
HATTR = dict(A="a", B1="b1", B2="b2", C1="c1", C2="c2", D1="d1")
MCFGS = ["none", "wpstar", "plselectin", "plinline"]


class Hier:
    """One mapped hierarchy: classes `cls` (parent-closed subset of HALL: A; B1, B2 < A; C1 < B1; C2 < c2par; D1 < C1), `tabs` = classes with a table of their own
    (joined-table inheritance), all others stored in the table of their nearest ancestor that has one (single-table inheritance).
    mcfg = mapper-level polymorphic loading configuration (does not change what a query means)."""

    def __init__(self, cls, c2par, tabs, mcfg="none"):
        import sqlalchemy as sa
        from sqlalchemy import orm
        from sqlalchemy.pool import StaticPool
        self.sa, self.orm = sa, orm
        self.cls = [c for c in HALL if c in cls]
        self.par = par = dict(B1="A", B2="A", C1="B1", C2=c2par, D1="C1")
        self.tabs = set(tabs)
        md = sa.MetaData()
        reg = orm.registry()
        self.h = sa.Table("h", md, sa.Column("id", sa.Integer, primary_key=True))
        owner = {}
        for c in self.cls:
            o = c
            while o != "A" and o not in self.tabs:
                o = par[o]
            owner[c] = o
        self.owner = owner
        self.anc = {}
        for c in self.cls:
            a, o = [c], c
            while o != "A":
                o = par[o]
                a.append(o)
            self.anc[c] = a
        self.desc = {c: [d for d in self.cls if c in self.anc[d]] for c in self.cls}
        guests = {c: [d for d in self.cls if owner[d] == c and d != c] for c in self.cls}
        tables = self.tables = {}
        tables["A"] = sa.Table("a", md, sa.Column("id", sa.Integer, primary_key=True), sa.Column("type", sa.String(10)),
                               sa.Column("hid", sa.Integer, sa.ForeignKey("h.id")), sa.Column("a", sa.Integer),
                               *[sa.Column(HATTR[d], sa.Integer) for d in guests["A"]])
        for c in self.cls:
            if c != "A" and c in self.tabs:
                ptab = tables[owner[par[c]]]
                tables[c] = sa.Table(c.lower(), md, sa.Column("id", sa.Integer, sa.ForeignKey(ptab.c.id), primary_key=True),
                                     sa.Column(HATTR[c], sa.Integer), *[sa.Column(HATTR[d], sa.Integer) for d in guests[c]])

        class H:
            pass
        classes = self.classes = {"H": H}
        for c in self.cls:
            classes[c] = type(c, (classes[par[c]] if c != "A" else object,), {})
        reg.map_imperatively(H, self.h, properties=dict(
            items=orm.relationship(classes["A"], order_by=tables["A"].c.id.desc(), back_populates="holder")))
        for c in self.cls:
            foreign = [HATTR[d] for d in self.cls if d not in self.anc[c]]      # columns of the shared table that belong to other classes
            kw = {}
            if c == "A":
                if mcfg == "wpstar":
                    kw["with_polymorphic"] = "*"
                reg.map_imperatively(classes[c], tables["A"], polymorphic_on=tables["A"].c.type, polymorphic_identity="A",
                                     properties=dict(holder=orm.relationship(H, back_populates="items")),
                                     exclude_properties=foreign, **kw)
                continue
            if mcfg == "plselectin":
                kw["polymorphic_load"] = "selectin"
            elif mcfg == "plinline":
                kw["polymorphic_load"] = "inline"
            if c in self.tabs:
                reg.map_imperatively(classes[c], tables[c], inherits=classes[par[c]], polymorphic_identity=c,
                                     exclude_properties=foreign, **kw)
            else:
                reg.map_imperatively(classes[c], None, inherits=classes[par[c]], polymorphic_identity=c,
                                     properties={HATTR[c]: tables[owner[c]].c[HATTR[c]]}, exclude_properties=foreign, **kw)
        reg.configure()
        self.engine = sa.create_engine("sqlite://", poolclass=StaticPool, connect_args={"check_same_thread": False})
        md.create_all(self.engine)
        self.md = md

    def load(self, ds, via_orm=False):
        """rows inserted with plain Core INSERTs (no ORM involved in producing the data); via_orm=True: the rows are persisted as
        instances of their classes instead (the mapper then has to write the discriminator).  Returns None or a text describing a
        stored discriminator that does not name the instance's class."""
        with self.engine.begin() as conn:
            for c in reversed(self.cls):
                if c in self.tables:
                    conn.execute(self.tables[c].delete())
            conn.execute(self.h.delete())
            if ds["nh"]:
                conn.execute(self.h.insert(), [dict(id=i + 1) for i in range(ds["nh"])])
        if via_orm:
            with self.orm.Session(self.engine) as s:
                for i, r in enumerate(ds["rows"]):
                    c = r["cls"]
                    kw = {HATTR[d]: n(r["v"][HALL.index(d)]) for d in self.anc[c]}
                    s.add(self.classes[c](id=i + 1, hid=n(r["hid"]), **kw))
                s.commit()
            with self.engine.connect() as conn:
                stored = dict(conn.execute(self.sa.select(self.tables["A"].c.id, self.tables["A"].c.type)).all())
            for i, r in enumerate(ds["rows"]):
                if stored.get(i + 1) != r["cls"]:
                    return "instance of %s (id %d) persisted with discriminator %r" % (r["cls"], i + 1, stored.get(i + 1))
            return None
        with self.engine.begin() as conn:
            for i, r in enumerate(ds["rows"]):
                rid, c = i + 1, r["cls"]
                vals = {HATTR[d]: n(r["v"][HALL.index(d)]) for d in self.anc[c]}
                per = {}
                for d in self.anc[c]:
                    per.setdefault(self.owner[d], {})[HATTR[d]] = vals[HATTR[d]]
                for t in [x for x in self.cls if x in per or x in [self.owner[d] for d in self.anc[c]]]:
                    row = dict(id=rid, **per.get(t, {}))
                    if t == "A":
                        row.update(type=c, hid=n(r["hid"]))
                    conn.execute(self.tables[t].insert(), row)

    # ---------------------------------------------------------------- entities
    def entity(self, at, poly, subset=(), flat=False):
        """the thing a query selects for class `at`: the class, or a with_polymorphic over '*' / a subset of its subclasses"""
        K = self.classes[at]
        if poly == "wpall":
            return self.orm.with_polymorphic(K, "*", flat=flat)
        if poly == "wppart":
            return self.orm.with_polymorphic(K, [self.classes[c] for c in subset], flat=flat)
        return K

    def attr(self, ent, at, poly, subset, c):
        """attribute HATTR[c] of class c reached from the selected entity"""
        name = HATTR[c]
        if c in self.anc[at]:
            return getattr(ent, name)
        if poly in ("wpall", "wppart"):
            return getattr(getattr(ent, c), name)
        return getattr(self.classes[c], name)        # single-table: the subclass attribute is a column of the same table

    def check_obj(self, o, exp):
        """None or a text describing how the loaded object differs from the spec's object"""
        if type(o).__name__ != exp["cls"]:
            return "row %d loaded as %s, its discriminator names %s" % (exp["id"], type(o).__name__, exp["cls"])
        if o.id != exp["id"] or z(o.hid) != exp["hid"]:
            return "row %d: id/hid %r/%r" % (exp["id"], o.id, o.hid)
        for j, c in enumerate(HALL):
            name, want = HATTR[c], exp["vals"][j]
            if want == -1:
                if c in self.cls and hasattr(o, name):
                    return "row %d (%s) exposes attribute %s of class %s" % (exp["id"], exp["cls"], name, c)
            else:
                try:
                    got = z(getattr(o, name))
                except Exception as ex:       # noqa
                    return "row %d (%s): attribute %s not loadable: %r" % (exp["id"], exp["cls"], name, ex)
                if got != want:
                    return "row %d (%s): %s = %r, stored %r" % (exp["id"], exp["cls"], name, got, want)
        return None


def hier_key(ds, mcfg="none"):
    return (tuple(ds["cls"]), ds["c2par"], tuple(sorted(ds["tabs"])), mcfg)
