"""Driver binding OrmSession.tla to a real sqlalchemy.orm.Session (SQLite FILE engine, autocommit=False, NullPool).

Real      : one Session + the model objects + every observer the projection needs (side-effect free, DESIGN 3.8):
            lifecycle from the five InstanceState predicates, loaded values from inspect(o).dict only, expiry as "attribute
            not present in state.dict" (state.expired_attributes keeps an attribute that was set while expired, so presence in
            the dict is the observable the spec's `exp` stands for), membership from session.new/dirty/deleted/identity_map,
            state.modified, was_deleted, committed rows through a
            separate raw sqlite3 connection opened and closed per read, the transaction's own view through
            session.connection() only when the session is already in a transaction, lifecycle listeners that record
            id(obj) only, statement count from before_cursor_execute.
Driver    : replay adaptor for engine.graph.replay (reset / step / finish).
"""
import gc
import os
import sqlite3
import warnings

LIFECYCLE_EVENTS = (
    "transient_to_pending", "pending_to_transient", "persistent_to_transient", "pending_to_persistent",
    "detached_to_persistent", "loaded_as_persistent", "persistent_to_deleted", "deleted_to_persistent",
    "deleted_to_detached", "persistent_to_detached",
)
STATES = ("transient", "pending", "persistent", "deleted", "detached")
ABSENT = -1


class InjectedFault(Exception):
    """raised by the fault injector (cursor listener / flush event)"""


_MAPPING = {}


def mapping():
    """one declarative mapping T(id primary key, v) per process"""
    if "T" not in _MAPPING:
        import sqlalchemy as sa
        from sqlalchemy.orm import DeclarativeBase, Mapped, mapped_column

        class Base(DeclarativeBase):
            pass

        class T(Base):
            __tablename__ = "t"
            id: Mapped[int] = mapped_column(sa.Integer, primary_key=True, autoincrement=False)
            v: Mapped[int] = mapped_column(sa.Integer, nullable=True)

        _MAPPING["T"] = T
        _MAPPING["Base"] = Base
    return _MAPPING["T"], _MAPPING["Base"]


class Real:
    def __init__(self, workdir, name="db"):
        import sqlalchemy as sa
        from sqlalchemy import event
        from sqlalchemy.pool import NullPool
        self.sa = sa
        os.makedirs(workdir, exist_ok=True)
        self.path = os.path.join(workdir, name + ".sqlite")
        if os.path.exists(self.path):
            os.unlink(self.path)
        self.T, Base = mapping()
        c = sqlite3.connect(self.path, isolation_level=None)
        c.execute("create table t (id integer not null primary key, v integer)")
        c.close()
        self.engine = sa.create_engine("sqlite:///" + self.path, connect_args={"autocommit": False}, poolclass=NullPool)
        self.nsql = 0
        self.counting = True
        self.fail_at = 0          # raise InjectedFault before the k-th counted DML statement (1-based); 0 = off
        self.ndml = 0
        self.stmts = []

        @event.listens_for(self.engine, "before_cursor_execute")
        def _bce(conn, cursor, statement, parameters, context, executemany):
            if not self.counting:
                return
            w = statement.lstrip().split(None, 1)[0].upper()
            if w in ("SAVEPOINT", "RELEASE", "ROLLBACK"):
                return
            if w in ("INSERT", "UPDATE", "DELETE"):
                self.ndml += 1
                if self.fail_at and self.ndml == self.fail_at:
                    raise InjectedFault("injected before DML #%d" % self.ndml)
            self.nsql += 1
            self.stmts.append(w[0])

        self.session = None
        self.objs = {}
        self.names = {}
        self.events = []
        self.sp = []
        self.keep = []

    # ------------------------------------------------------------------ lifecycle
    def reset(self, pks, expire_on_commit=True, rows=None):
        """pks: {name: initial id}; rows: committed rows before the walk starts"""
        from sqlalchemy import event
        from sqlalchemy.orm import Session
        self.dispose_session()
        c = sqlite3.connect(self.path, isolation_level=None)
        c.execute("delete from t")
        for k, v in (rows or {}).items():
            c.execute("insert into t (id, v) values (?, ?)", (k, v))
        c.close()
        self.session = s = Session(self.engine, expire_on_commit=expire_on_commit)
        self.events = []
        self.sp = []
        self.fail_after_flush = False
        for name in LIFECYCLE_EVENTS:
            def mk(name):
                def fn(session, obj):
                    self.events.append((name, id(obj)))      # id(obj) only: touching attributes would load / raise
                return fn
            event.listen(s, name, mk(name))

        @event.listens_for(s, "after_flush")
        def _af(session, ctx):
            if self.fail_after_flush:
                self.fail_after_flush = False
                raise InjectedFault("injected in after_flush")

        self.objs = {}
        self.names = {}
        for name in sorted(pks):
            o = self.T(id=pks[name], v=0)
            self.objs[name] = o
            self.names[id(o)] = name
        self.nsql = 0
        self.ndml = 0
        self.fail_at = 0
        self.stmts = []

    def dispose_session(self):
        if self.session is not None:
            try:
                self.session.close()
            except Exception:
                pass
            self.session = None
        self.objs = {}
        self.names = {}
        self.sp = []
        self.keep = []

    def close(self):
        self.dispose_session()
        self.engine.dispose()

    # ------------------------------------------------------------------ calls
    def call(self, fn):
        """run one API call: returns (outcome, value); outcome 'ok' or the exception class name"""
        self.events = []
        self.nsql = 0
        self.ndml = 0
        self.stmts = []
        with warnings.catch_warnings(record=True) as w:
            warnings.simplefilter("always")
            try:
                res = fn()
                ret = "ok"
            except Exception as e:      # noqa
                res = e
                ret = type(e).__name__
        self.fail_at = 0
        self.fail_after_flush = False
        self.warned = [str(x.message)[:80] for x in w if issubclass(x.category, self.sa.exc.SAWarning)]
        return ret, res

    def do(self, a, arg=None):
        """the API surface of OrmSession.tla; returns outcome string"""
        from sqlalchemy.orm import make_transient
        s = self.session
        T = self.T
        if a == "Add":
            return self.call(lambda: s.add(self.objs[arg]))[0]
        if a == "SetV":
            o, x = arg
            return self.call(lambda: setattr(self.objs[o], "v", x))[0]
        if a == "SetPk":
            o, k = arg
            return self.call(lambda: setattr(self.objs[o], "id", k))[0]
        if a == "Delete":
            return self.call(lambda: s.delete(self.objs[arg]))[0]
        if a == "Expunge":
            return self.call(lambda: s.expunge(self.objs[arg]))[0]
        if a == "Flush":
            return self.call(s.flush)[0]
        if a == "FlushFail":
            k, kind = arg
            if kind == "cursor":
                self.fail_at_next = k

                def go():
                    self.fail_at = k
                    s.flush()
                return self.call(go)[0]
            else:
                def go():
                    self.fail_after_flush = True
                    s.flush()
                return self.call(go)[0]
        if a == "Commit":
            r = self.call(s.commit)[0]
            if r == "ok":
                self.sp = []
            return r
        if a == "Rollback":
            r = self.call(s.rollback)[0]
            self.sp = []
            return r
        if a == "BeginNested":
            r, res = self.call(s.begin_nested)
            if r == "ok":
                self.sp.append(res)
            return r
        if a == "SpCommit":
            h = self.sp[-1]
            r = self.call(h.commit)[0]
            if r == "ok":
                self.sp.pop()
            return r
        if a == "SpRollback":
            h = self.sp[-1]
            r = self.call(h.rollback)[0]
            self.sp.pop()
            return r
        if a == "Close":
            r = self.call(s.close)[0]
            self.sp = []
            return r
        if a == "Expire":
            return self.call(lambda: s.expire(self.objs[arg]))[0]
        if a == "ExpireAll":
            return self.call(s.expire_all)[0]
        if a == "Refresh":
            return self.call(lambda: s.refresh(self.objs[arg]))[0]
        if a == "MakeTransient":
            return self.call(lambda: make_transient(self.objs[arg]))[0]
        if a == "Get":
            r, res = self.call(lambda: s.get(T, arg))
            if r != "ok":
                return r
            if res is None:
                return "none"
            n = self.names.get(id(res))
            if n is not None and self.objs.get(n) is res:
                return "obj:" + n
            # a freshly loaded instance that is none of the model objects: check it, then let it go
            st = self.sa.inspect(res)
            ok = st.persistent and st.dict.get("id") == arg and (("loaded_as_persistent", id(res)) in self.events)
            self.events = [e for e in self.events if e[1] != id(res)]
            del res, st
            gc.collect()
            return "new" if ok else "new-bad"
        raise ValueError(a)

    # ------------------------------------------------------------------ observers (side-effect free)
    def committed(self):
        c = sqlite3.connect(self.path, isolation_level=None)
        try:
            return {r[0]: r[1] for r in c.execute("select id, v from t")}
        finally:
            c.close()

    def work(self):
        """rows as the session's own transaction sees them; None when not observable without side effects"""
        s = self.session
        if not s.in_transaction():
            return None
        if not s.is_active:
            return None
        self.counting = False
        try:
            return {r[0]: r[1] for r in s.connection().exec_driver_sql("select id, v from t")}
        finally:
            self.counting = True

    def observe(self, with_work=True):
        sa = self.sa
        s = self.session
        out = {"o": {}}
        new = {id(x) for x in s.new}
        dirty = {id(x) for x in s.dirty}
        deleted = {id(x) for x in s.deleted}
        for name, o in self.objs.items():
            st = sa.inspect(o)
            flags = [f for f in STATES if getattr(st, f)]
            d = st.dict
            out["o"][name] = {
                "life": flags[0] if len(flags) == 1 else "|".join(flags) or "NONE",
                "in": o in s,
                "new": id(o) in new, "dirty": id(o) in dirty, "deleted": id(o) in deleted,
                "key": st.key[1][0] if st.key is not None else 0,
                "id": d.get("id", ABSENT), "v": d.get("v", ABSENT),
                "exp": sorted(st.expired_attributes & {"id", "v"}),
                "mod": bool(st.modified),
                "wasdel": bool(st.was_deleted),
            }
        im = {}
        for key, obj in list(s.identity_map.items()):
            im[key[1][0]] = self.names.get(id(obj), "?")
        out["imap"] = im
        out["intx"] = s.in_transaction()
        out["innested"] = s.in_nested_transaction()
        out["committed"] = self.committed()
        out["work"] = self.work() if with_work else None
        ev = {}
        for name, oid in self.events:
            k = (name, self.names.get(oid, "?"))
            ev[k] = ev.get(k, 0) + 1
        out["ev"] = ev
        out["sql"] = self.nsql
        return out


# ---------------------------------------------------------------------------------------------- replay adaptor
def init_pks(objs):
    """InitPk of OrmSession.tla"""
    return {o: (2 if o == "o2" else 1) for o in objs}


def _rows(fn):
    """spec row function (JSON array over Keys 1..n, -1 = absent) -> {key: value}"""
    return {i + 1: v for i, v in enumerate(fn) if v != ABSENT}


class Driver:
    """engine.graph.replay driver: replays one walk of the OrmSession state graph on a real Session and compares, after
    EVERY step, the call outcome, lifecycle flags, membership, identity map, loaded values, rows (committed + in-transaction),
    lifecycle events of the step and the statement count with the spec edge."""

    def __init__(self, wid, workdir, eoc=True):
        self.real = Real(workdir, "db%d" % wid)
        self.eoc = eoc

    def reset(self, state):
        objs = sorted(state["life"].keys())
        self.real.reset(init_pks(objs), expire_on_commit=self.eoc)
        # cfgs with Start = "committed": bring the real session to the spec's start state (add + commit, not compared)
        pre = [o for o in objs if state["life"][o] == "persistent"]
        if pre:
            for o in pre:
                self.real.do("Add", o)
            self.real.do("Commit")

    def step(self, frm, act, to):
        a = act["a"]
        arg = act["arg"]
        if a in ("Add", "Delete", "Expunge", "Expire", "Refresh", "MakeTransient", "Get"):
            arg = arg[0]
        elif a in ("SetV", "SetPk"):
            arg = tuple(arg)
        elif a == "FlushFail":
            arg = (arg[0], "after_flush" if arg[0] == -1 else "cursor")
        else:
            arg = None
        if a == "FailRedo":
            ret = self.fail_redo(frm, act["arg"][0])
        else:
            ret = self.real.do(a, arg)
        if ret != act["ret"]:
            return "call outcome %r, spec %r (warnings %r)" % (ret, act["ret"], self.real.warned)
        if to.get("taint") and not frm.get("taint") and a != "Delete":
            return None      # double row switch (deviation rsw2): which object the identity map keeps is hash order
        return self.compare(act)

    def fail_redo(self, frm, k):
        """C32 composite: flush with an injected fault, roll the innermost scope back, repeat the same work
        (attribute changes, add() in the original order, delete()), flush.  Events and statements accumulate."""
        r = self.real
        nohist = -2
        inmap = lambda o: frm["key"][o] != 0 and frm["imap"][frm["key"][o] - 1] == o     # noqa
        dirty = [o for o in sorted(frm["life"]) if inmap(o) and frm["mod"][o] and o not in frm["sdel"]]
        evs, nsql, stmts = [], 0, []

        def do(a, arg=None):
            nonlocal nsql
            ret = r.do(a, arg)
            evs.extend(r.events)
            nsql += r.nsql
            stmts.extend(r.stmts)
            return ret
        rets = [do("FlushFail", (k, "after_flush" if k == -1 else "cursor"))]
        rets.append(do("SpRollback" if frm["tx"] and len(frm["tx"]) > 1 else "Rollback"))
        work = "ok"
        for o in dirty:
            if work != "ok":
                break
            if "id" not in frm["exp"][o] and frm["pk"][o] != frm["key"][o]:
                work = do("SetPk", (o, frm["pk"][o]))
            if work == "ok" and frm["cv"][o] != nohist and "v" not in frm["exp"][o]:
                work = do("SetV", (o, frm["v"][o]))
        for o in frm["new"]:
            if work == "ok":
                work = do("Add", o)
        for o in sorted(frm["life"]):
            if work == "ok" and o in frm["sdel"]:
                work = do("Delete", o)
        rets.append(work)
        rets.append(do("Flush") if work == "ok" else work)
        r.events, r.nsql, r.stmts = evs, nsql, stmts
        return "/".join(rets)

    def compare(self, act):
        o = act["obs"]
        got = self.real.observe()
        diffs = []
        for name, e in o["o"].items():
            g = got["o"][name]
            exp = {"life": e["life"], "key": e["key"], "id": e["id"], "v": e["v"], "mod": e["mod"], "wasdel": e["wasdel"],
                   "new": e["new"], "deleted": e["deleted"], "dirty": e["dirty"], "in": e["new"] or e["inmap"]}
            gg = {k: g[k] for k in exp}
            if gg != exp:
                diffs.append("%s: real %r spec %r" % (name, {k: gg[k] for k in exp if gg[k] != exp[k]},
                                                      {k: exp[k] for k in exp if gg[k] != exp[k]}))
        im = {i + 1: v for i, v in enumerate(o["imap"]) if v != "none"}
        if got["imap"] != im:
            diffs.append("identity map real %r spec %r" % (got["imap"], im))
        if got["intx"] != o["intx"]:
            diffs.append("in_transaction real %r spec %r" % (got["intx"], o["intx"]))
        if got["innested"] != (o["depth"] > 1):
            diffs.append("in_nested_transaction real %r spec depth %r" % (got["innested"], o["depth"]))
        if got["committed"] != _rows(o["committed"]):
            diffs.append("committed rows real %r spec %r" % (got["committed"], _rows(o["committed"])))
        if got["work"] is not None and got["work"] != _rows(o["work"]):
            diffs.append("transaction rows real %r spec %r" % (got["work"], _rows(o["work"])))
        if (got["work"] is None) != ((not o["intx"]) or o["needrb"]):
            diffs.append("session.is_active/in_transaction real work-visible %r spec intx %r needrb %r" % (
                got["work"] is not None, o["intx"], o["needrb"]))
        ev = {}
        for n, ob, c in act["ev"]:
            ev[(n, ob)] = c
        if got["ev"] != ev:
            diffs.append("lifecycle events real %r spec %r" % (sorted(got["ev"].items()), sorted(ev.items())))
        if got["sql"] != act["sql"]:
            diffs.append("statements real %d (%s) spec %d" % (got["sql"], "".join(self.real.stmts), act["sql"]))
        return "; ".join(diffs) if diffs else None

    def finish(self, state):
        """drain: a clean session is committed, anything else rolled back; then a fresh session must load exactly the
        rows the spec says are committed"""
        r = self.real
        if state.get("taint"):
            return None          # state after the misuse delete() of a deleted object (deviation c): rollback() itself raises
        clean = (not state["new"]) and (not state["sdel"]) and not any(
            state["mod"][o] and state["key"][o] != 0 and state["imap"][state["key"][o] - 1] == o for o in state["life"])
        if clean and not state["needrb"]:
            ret = r.do("Commit")
            expect = _rows(state["work"])
        else:
            ret = r.do("Rollback")
            expect = _rows(state["committed"])
        if ret != "ok":
            return "drain %s raised %s" % ("commit" if clean else "rollback", ret)
        if r.committed() != expect:
            return "drain: committed rows %r, spec %r" % (r.committed(), expect)
        from sqlalchemy.orm import Session
        with Session(r.engine) as s2:
            r.counting = False
            try:
                got = {x.id: x.v for x in s2.query(r.T).all()}
            finally:
                r.counting = True
        if got != expect:
            return "drain: fresh session loads %r, spec %r" % (got, expect)
        # every object still in the session must reload to its row (stale caches); an object whose row the spec says is
        # gone is the spec invariants' business (PersistentHasRow), not the drain's
        try:
            r.counting = False
            r.session.expire_all()
            for name, o in r.objs.items():
                st = r.sa.inspect(o)
                if st.persistent and o in r.session and st.key[1][0] in expect:
                    try:
                        val = (o.id, o.v)
                    except Exception as e:
                        return "drain: persistent %s cannot reload: %s" % (name, type(e).__name__)
                    if expect.get(val[0], None) != val[1]:
                        return "drain: persistent %s reloads %r, rows %r" % (name, val, expect)
        finally:
            r.counting = True
        return None

    def close(self):
        self.real.close()
