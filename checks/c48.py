"""C48 Pending changes survive the application dropping its references - OrmSessionExt.tla (DESIGN 3.8, 4 "C45-C48")."""
from checks import ormsessionext_common as X

LEVEL = "model_checking"
MANIFEST = dict(
    text="OrmSessionExt.tla adds DropRef(o) (the application deletes its only reference, then gc.collect()) anywhere in bounded histories of add / attribute change / delete / expire / flush / commit / rollback / get (2 objects, 2 keys, 2 values), and a garbage-collection rule applied after EVERY step: an unreferenced object stays alive exactly while session.new / session.deleted / the identity map's modified set holds it. TLC checks that no object with an unflushed change (by value: pending, marked deleted, attribute or key differing from its committed value) is ever released (NoChangeLost), that dropping a reference never changes the outcome and rows of the next flush (DropKeepsFlush), that the identity map shrinks only by clean objects (OnlyCleanLeave) and that held objects stay (HeldStay). Every edge is replayed on a real Session with real del + gc.collect(): liveness through weak references, len(identity_map), session.new/dirty/deleted, rows after flush via a raw connection.",
    design_ref="3.8, 4 (C45-C48), Appendix F",
    note="trusted: TLC, CPython reference counting + gc.collect() (run after every step in the binding); objects are observed through weakrefs and the session's own collections only; an object a later get() returns is not re-referenced by the application",
    technique="TLA+ spec (OrmSessionExt.tla EXTENDS OrmSession.tla) + TLC exhaustive model checking; spec->code replay of every state-graph edge into a real Session with real reference drops")

INVS = ["NoChangeLost", "HeldStay", "GoneNotInSession", "OneIdentity"]
PROPS = ["DropKeepsFlush", "OnlyCleanLeave"]
FOOTPRINT = ["DropRef", "ExpireV", "RefreshV", "Add", "SetV", "Delete", "Flush", "Commit", "Rollback", "Expire", "ExpireAll", "Get"]


def spec(chk):
    q = chk.quick
    return dict(
        cfgs=[dict(name="gc", acts=["SetV", "Expire", "ExpireV", "Get", "DropRef"], depth=6 if q else 7, edge_sample=0.25 if q else 0.5,
                   edge_probs={"DropRef": 1.0}, deep_depth=8 if q else 10,
                   eoc=True, always_gc=True, random=200 if q else 2000),
              dict(name="gc_noexpire", acts=["SetV", "Get", "DropRef"], depth=5 if q else 6, edge_sample=0.4 if q else None, eoc=False, always_gc=True, random=100 if q else 1000)],
        invs=INVS, props=PROPS, footprint=FOOTPRINT,
        nontrivial=lambda frm, act: act["a"] == "DropRef" or not all(frm["ref"].values()))


def main(chk):
    P = spec(chk)
    res = X.run_ext(chk, "C48", P)
    return X.finish(chk, "C48", P, res,
                    "every labelled edge of the OrmSessionExt state graph replayed on a real Session with real reference drops and gc.collect() after "
                    "every step; non-trivial = DropRef edges and every edge taken while some object is unreferenced", INVS, PROPS,
                    ["SQLite only (file, autocommit=False, NullPool); one mapped class T(id, v); CPython",
                     "the application never gets a dropped object back (an instance returned by get() is not kept)"])
