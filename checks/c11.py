"""C11 row lookup by column expression returns that expression's value - RowLookup.tla (DESIGN 3.13, 4 C11).

TLC: every (select list over a / b with colliding names, keys and labels; LABEL_STYLE_NONE / TABLENAME_PLUS_COL /
DISAMBIGUATE_ONLY; label_length None / 6 / 10; compiled / raw text / positional TextualSelect / by-name TextualSelect;
plain / UNION ALL / subquery / CTE) up to the bound is ONE initial state.  The module transcribes label generation,
the compiler's result map (anonymous names, truncation) and CursorResultMetaData's key map and computes the outcome of every
lookup key; the property itself is the declarative operator Acceptable, and TLC checks Sound / ObjOnce / NameOnce /
LegacyClassified / LegacySoundElsewhere on every case (see the module header).
Binding (spec -> code): every printed case is built and executed on SQLite twice (the second time an equal, freshly built
statement served from the compiled cache).  Each cell carries the value of its own expression, so for every key
row._mapping[key], row.<name>, row._mapping[column / label object], Result.columns(int), Result.columns(*keys) and
mappings() must give the value of the position the specification names, or raise the exception class it names.
"""
import os
import random
import time

from engine import tlc

LEVEL = "model_checking"
MANIFEST = dict(
    text="RowLookup.tla transcribes _generate_columns_plus_names, the compiler's result map (anonymous labels, label_length truncation) and "
         "CursorResultMetaData's key map (positional / textual-positional / by-name / raw text merge, duplicate handling, _adapt_to_context) "
         "and computes for every lookup key (column object, label object, every string alias, Result.columns(int)) the position, "
         "Ambiguous or NoSuchColumn; the property is the declarative operator Acceptable and TLC proves Sound, ObjOnce, NameOnce over all "
         "select lists of <=2 (quick; <=3 sampled) / <=3 (thorough; 4 sampled) items from 15 elements x 3 label styles x label_length "
         "{None,6,10} x {compiled, text(), TextualSelect positional / by name} x {plain, UNION ALL, subquery, CTE}. Every case is executed "
         "on SQLite twice (cold and from the compiled cache) with one distinct value per expression and every key compared.",
    design_ref="DESIGN 3.13, 4 C11",
    note="SQLite only (pysqlite cursor.description names); naming / truncation / key-map mechanisms transcribed from the pinned tree; "
         "ORM entity rows are covered only through the Core result they are built from",
    technique="TLA+ spec (RowLookup.tla) + TLC, function transcription: one initial state per case, declarative theorems checked by TLC, "
              "spec->code replay of every case with per-expression cell values")

ALL = ["ax", "bx", "aid", "by", "al", "ak", "bk", "Lax_lx", "Lbx_x", "Lby_a_x", "Lsum", "Laid_k", "anon", "lit", "txt"]
PLAIN = [i for i in ALL if i not in ("anon", "lit", "txt")]
CORE9 = ["ax", "bx", "ak", "bk", "al", "Lbx_x", "Lby_a_x", "Laid_k", "anon"]
CORE7 = ["ax", "bx", "ak", "bk", "al", "Lby_a_x", "Laid_k"]
STY = ["none", "tpc", "dis"]
INVS = ["InvSound", "InvObjOnce", "InvNameOnce", "InvLegacyClassified", "InvLegacySoundElsewhere"]


def _set(xs):
    return "{" + ", ".join(tlc.q(x) if isinstance(x, str) else str(x) for x in xs) + "}"


def plans(quick):
    """(label, alphabet, maxlen, styles, lls, modes, wraps, sample); one TLC job per (plan, style)"""
    if quick:
        return [("pos", ALL, 2, STY, [0, 6, 10], ["pos"], ["none"], 0),
                ("union", ALL, 2, STY, [0], ["pos"], ["union"], 0),
                ("textual", PLAIN, 2, STY, [0, 10], ["text", "tpos", "tname"], ["none"], 0),
                ("wrapped", PLAIN, 2, ["tpc", "dis"], [10], ["pos", "tpos"], ["subq", "cte"], 0),
                ("pos3", ALL, 3, STY, [0, 10], ["pos"], ["none"], 120),
                ("textual3", PLAIN, 3, STY, [0], ["text", "tpos", "tname"], ["none", "union"], 50)]
    return [("pos", ALL, 2, STY, [0, 6, 10], ["pos"], ["none", "union"], 0),
            ("pos3", CORE9, 3, STY, [0, 10], ["pos"], ["none"], 0),
            ("pos3s", ALL, 3, STY, [0, 6, 10], ["pos"], ["none"], 300),
            ("pos4s", ALL, 4, STY, [0, 10], ["pos"], ["none"], 250),
            ("textual", PLAIN, 2, STY, [0, 10], ["text", "tpos", "tname"], ["none", "union"], 0),
            ("textual3", CORE7, 3, STY, [0], ["text", "tpos", "tname"], ["none"], 0),
            ("wrapped", PLAIN, 2, ["tpc", "dis"], [0, 10], ["pos", "text", "tpos", "tname"], ["subq", "cte"], 0),
            ("wrapped3", CORE7, 3, ["tpc", "dis"], [10], ["pos", "tpos"], ["subq", "cte"], 0)]


def _tlc_job(args):
    label, cfgt, work, seed, timeout = args
    t0 = time.time()
    r = tlc.run("RowLookup", cfgt, work, workers=1, timeout=timeout, extra=["-seed", str(seed)], keep_stdout=False, heap="3g")
    return label, r, time.time() - t0


_W = None


def _replay_chunk(cases):
    """worker: observe + compare; returns (n, [(case, mismatches)], stats)"""
    global _W
    from checks import stmtshapes_common as sc
    if _W is None:
        _W = sc.RowLookupWorld()
    out = []
    stats = {"lookups": 0}
    for c in cases:
        case = sc.rowlookup_prepare(c)
        try:
            obs = _W.observe(case)
            mism = sc.rowlookup_compare(case, obs)
        except Exception as e:  # construction / execution failure of a well-formed case
            mism = [("other", "harness: %s: %s" % (type(e).__name__, e))]
        stats["lookups"] += 2 * (len(case.get("strkeys", ())) + len(case.get("objkeys", ())) + 2 * len(case["items"]))
        if mism:
            out.append((c, mism))
    return len(cases), out, stats


def main(chk):
    from concurrent.futures import ThreadPoolExecutor
    import multiprocessing as mp
    rng = random.Random(chk.seed)
    jobs = []
    only = [x for x in os.environ.get("VERIF_C11_PLANS", "").split(",") if x]      # development aid: restrict to some plans
    for label, alpha, maxlen, styles, lls, modes, wraps, sample in plans(chk.quick):
        if only and label not in only:
            continue
        for sty in styles:
            cfgt = tlc.cfg(constants=dict(Alphabet=_set(alpha), MaxLen=maxlen, Styles=_set([sty]), LLs=_set(lls), Modes=_set(modes),
                                          Wraps=_set(wraps), Sample=sample), invariants=INVS)
            jl = "%s/%s" % (label, sty)
            jobs.append((jl, cfgt, os.path.join(chk.work, "tlc-" + jl.replace("/", "-")), chk.seed + 1, 900 if chk.quick else 3000))
    runs, cases = [], []
    states = trans = 0
    with ThreadPoolExecutor(max_workers=max(1, min(12, tlc.NPROC))) as ex:
        for label, r, wall in ex.map(_tlc_job, jobs):
            if r.violated:
                chk.violation({"spec": "RowLookup", "action": "TLC", "invariant": r.violated, "cfg": label},
                              "TLC: %s violated in the specification (%s)" % (r.violated, label))
            if not r.json:
                chk.machinery("TLC printed no cases for " + label)
            states += r.distinct
            trans += r.generated
            runs.append({"cfg": label, "distinct": r.distinct, "generated": r.generated, "cases": len(r.json), "wall_s": round(wall, 1)})
            cases.extend(r.json)
    # the same case can come from two plans (sampled and exhaustive): replay once
    seen, uniq = set(), []
    for c in cases:
        k = (tuple(c["items"]), c["style"], c["ll"], c["mode"], c["wrap"])
        if k not in seen:
            seen.add(k)
            uniq.append(c)
    rng.shuffle(uniq)
    # vacuity: every strategy, wrapper, outcome class and finding class must occur
    strategies = {c.get("strategy") for c in uniq if not c["execError"]}
    need = {"positional", "textpos", "byname", "none"}
    if not only and not need <= strategies:
        chk.machinery("vacuous: merge strategies %r never enumerated" % sorted(need - strategies))
    if not any(c["execError"] for c in uniq):
        chk.machinery("vacuous: no duplicate-column-expression case")
    outcomes = {e["o"] < 0 and e["o"] or 0 for c in uniq if not c["execError"] for e in c["str"]}
    if not {0, -1, -2} <= outcomes:
        chk.machinery("vacuous: outcome classes %r" % sorted(outcomes))
    nproc = max(1, min(tlc.NPROC, 16))
    chunks = [uniq[i::nproc * 4] for i in range(nproc * 4)]
    chunks = [c for c in chunks if c]
    ctx = mp.get_context("fork")
    with ctx.Pool(nproc) as pool:
        res = pool.map(_replay_chunk, chunks)
    replayed = sum(r[0] for r in res)
    lookups = sum(r[2]["lookups"] for r in res)
    nfind = 0
    for _, mlist, _ in res:
        for c, mism in mlist:
            base = {"spec": "RowLookup", "action": "lookup", "mode": c["mode"], "wrap": c["wrap"], "style": c["style"], "ll": c["ll"],
                    "items": "+".join(c["items"]), "strategy": c.get("strategy", "")}
            leg = [m for k, m in mism if k == "legacy"]
            oth = [m for k, m in mism if k != "legacy"]
            if leg:
                nfind += 1
                chk.violation(dict(base, finding=c.get("finding", ""), legacy_algorithm=True),
                              "%s %s ll=%s %s/%s: %s" % (c["items"], c["style"], c["ll"], c["mode"], c["wrap"], "; ".join(leg[:3])),
                              {"case": {k: c[k] for k in ("items", "style", "ll", "mode", "wrap")}, "mismatches": leg[:10]})
            if oth:
                chk.violation(dict(base, finding="", legacy_algorithm=False),
                              "%s %s ll=%s %s/%s: %s" % (c["items"], c["style"], c["ll"], c["mode"], c["wrap"], "; ".join(oth[:3])),
                              {"case": {k: c[k] for k in ("items", "style", "ll", "mode", "wrap")}, "mismatches": oth[:10]})
    nontriv = [c for c in uniq if not c["execError"] and (c["dupkeys"] or any(e["o"] == -1 for e in c["str"]) or c["differs"])]
    collide = sum(1 for c in uniq if not c["execError"] and len({"".join(k) for k in c["keys"]}) < len(c["keys"]) or c.get("differs"))
    amb = sum(1 for c in uniq if not c["execError"] and any(e["o"] == -1 for e in c["str"] + c["obj"]))
    samples = [{k: (["".join(x) for x in c[k]] if k == "keys" else c[k]) for k in ("items", "style", "ll", "mode", "wrap", "keys", "finding")}
               for c in uniq if not c["execError"] and (c["differs"] or c["dupkeys"])][:6]
    return chk.finish(
        dict(states=states, transitions=trans, traces_validated_against_impl=replayed, evaluations=lookups,
             distinct_nontrivial=len(nontriv), cases_with_ambiguous_key=amb, cases_with_duplicate_result_keys_or_finding=collide,
             cases_in_finding_classes=sum(1 for c in uniq if c.get("differs")), finding_cases_confirmed_on_tree=nfind,
             exec_error_cases=sum(1 for c in uniq if c["execError"]), samples=samples, tlc_runs=runs, exhaustive=True,
             rule="one case per TLC initial state (select list x label style x label_length x mode x wrapper); non-trivial = duplicate "
                  "result keys, an ambiguous key, or a key on which the pinned and the repaired key map differ; every case executed twice "
                  "(cold / compiled cache) and every listed key looked up through _mapping, attribute, columns()",
             checker_cmd="tlc RowLookup.tla (INIT Init, one job per plan x label style)"),
        assumptions=["bounded: select lists up to the lengths in tlc_runs over a 15-element alphabet on two tables; sampled beyond (TLC RandomSubset, -seed)",
                     "SQLite / pysqlite only: cursor.description names as that driver reports them",
                     "by-name TextualSelect cases are restricted to SQL text whose column names are the names of the column arguments (the documented protocol)",
                     "named deviations: IntThroughName (Result.columns(int) with duplicate names raises), PrimaryVsAliasWhenDupes (raises)"])
