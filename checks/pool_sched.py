"""Deterministic baton scheduler for the pool checks (DESIGN 2.5).  Nothing in /repo is modified.

Real `threading.Thread`s, exactly one of them runnable at any moment (the controller hands a baton to one worker and waits
until it reaches its next YIELD POINT).  Yield points, all installed from the harness:

  * every source LINE of the anchored files (sys.settrace inside each worker thread; other files are not traced);
  * the shim Lock / RLock / Condition below, injected by replacing the NAME `threading` in the namespaces of
    sqlalchemy.util.queue and sqlalchemy.pool.impl: a blocked acquire / a Condition.wait parks the worker and tells the
    controller what it is blocked on, so a held lock never blocks an OS thread;
  * explicit `sched.event(kind, ...)` calls of the worker programs (operation boundaries).

Time is virtual (VClock): `sqlalchemy.util.queue._time` and the name `time` in sqlalchemy.pool.base are replaced, so queue
timeouts, recycle ages and invalidation stamps are controller decisions.  A timed-out waiter leaves its condition's wait
list atomically with the clock advance that expires it (scheduler-defined; CPython's Condition removes it slightly later).

A watchdog (wall clock, used ONLY as a failure detector) turns "worker did not reach its next yield point" into
SchedError - a machinery failure, never a property verdict.
"""
import sys
import threading as _threading

WATCHDOG_S = 60.0


class SchedError(Exception):
    """machinery failure of the scheduler (watchdog, misuse)"""


class Deadlock(Exception):
    """no worker can run and no virtual timer is pending: a genuine deadlock of the code under test"""


# ----------------------------------------------------------------------------- virtual time
class VClock:
    """now: integer virtual seconds.  qtime() serves util.queue._time (never moves by itself).
    time() serves `time.time()` in pool/base.py: mode "auto" = every call advances the clock by one second (sequential
    checks: all stamps distinct, the code's documented assumption that measurable time passes between state changes);
    mode "eps" = returns now + k*1e-6 with k increasing on every call (schedule checks: stamps strictly increase without
    disturbing queue timeouts); mode "plain" = now."""

    def __init__(self, start=1000, mode="plain"):
        self.now = start
        self.mode = mode
        self.seq = 0

    def qtime(self):
        return float(self.now)

    def time(self):
        if self.mode == "auto":
            self.now += 1
            return float(self.now)
        if self.mode == "eps":
            self.seq += 1
            return self.now + self.seq * 1e-6
        return float(self.now)


class _TimeShim:
    """stands for the module `time` inside sqlalchemy.pool.base"""

    def __init__(self, clock):
        self._clock = clock

    def time(self):
        return self._clock.time()


# ----------------------------------------------------------------------------- shim threading
_CURRENT = None       # the active Scheduler (one per process at a time)


def _me():
    s = _CURRENT
    if s is not None:
        w = s.by_ident.get(_threading.get_ident())
        if w is not None:
            return w
    return ("unmanaged", _threading.get_ident())


class Lock:
    reentrant = False

    def __init__(self):
        self.owner = None
        self.count = 0

    def _free_for(self, me):
        return self.owner is None or (self.reentrant and self.owner == me)

    def acquire(self, blocking=True, timeout=-1):
        me = _me()
        while not self._free_for(me):
            if not blocking:
                return False
            if not isinstance(me, Worker):
                raise SchedError("shim lock would block an unmanaged thread (held by %r)" % (self.owner,))
            me.sched._park(me, "lock", self)
        self.owner = me
        self.count += 1
        return True

    def release(self):
        me = _me()
        if self.owner != me:
            raise RuntimeError("release of un-acquired shim lock")
        self.count -= 1
        if self.count == 0:
            self.owner = None

    def locked(self):
        return self.owner is not None

    __enter__ = acquire

    def __exit__(self, *a):
        self.release()

    # Condition support
    def _release_save(self):
        st = (self.owner, self.count)
        self.owner, self.count = None, 0
        return st

    def _acquire_restore(self, st):
        me = st[0]
        while self.owner is not None:
            me.sched._park(me, "lock", self)
        self.owner, self.count = st


class RLock(Lock):
    reentrant = True


class Condition:
    def __init__(self, lock=None):
        self.lock = lock if lock is not None else RLock()
        self.waiters = []          # Workers, FIFO
        self.acquire = self.lock.acquire
        self.release = self.lock.release

    def __enter__(self):
        return self.lock.__enter__()

    def __exit__(self, *a):
        return self.lock.__exit__(*a)

    def wait(self, timeout=None):
        me = _me()
        if not isinstance(me, Worker):
            raise SchedError("Condition.wait outside a scheduled worker")
        if self.lock.owner != me:
            raise RuntimeError("cannot wait on un-acquired lock")
        st = self.lock._release_save()
        self.waiters.append(me)
        me.notified = False
        me.deadline = None if timeout is None else me.sched.clock.now + timeout
        me.sched._park(me, "wait", self)
        got = me.notified
        me.deadline = None
        self.lock._acquire_restore(st)
        return got

    def notify(self, n=1):
        if self.lock.owner != _me():
            raise RuntimeError("cannot notify on un-acquired lock")
        for w in self.waiters[:n]:
            w.notified = True
        del self.waiters[:n]

    def notify_all(self):
        self.notify(len(self.waiters))


class ShimThreading:
    """what `threading` means inside the patched modules: shim primitives, everything else the real module"""
    Lock = Lock
    RLock = RLock
    Condition = Condition

    def __getattr__(self, name):
        return getattr(_threading, name)


SHIM = ShimThreading()
_PATCHED = {}


def install(clock):
    """Patch the module namespaces (idempotent; the clock can be swapped by calling again).  Import of sqlalchemy happens here."""
    import logging
    import sqlalchemy.pool.base as pbase
    import sqlalchemy.pool.impl as pimpl
    import sqlalchemy.util.queue as squeue
    if not _PATCHED:
        logging.getLogger("sqlalchemy.pool").setLevel(logging.CRITICAL + 1)    # injected faults are logged as errors by the pool
        _PATCHED["orig"] = (squeue.threading, pimpl.threading, squeue._time, pbase.time)
    squeue.threading = SHIM
    pimpl.threading = SHIM
    squeue._time = clock.qtime
    pbase.time = _TimeShim(clock)
    return [f for f in (pimpl.__file__, pbase.__file__, squeue.__file__)]


def uninstall():
    if _PATCHED:
        import sqlalchemy.pool.base as pbase
        import sqlalchemy.pool.impl as pimpl
        import sqlalchemy.util.queue as squeue
        squeue.threading, pimpl.threading, squeue._time, pbase.time = _PATCHED.pop("orig")


# ----------------------------------------------------------------------------- workers and controller
class Worker:
    def __init__(self, sched, name, index, fn):
        self.sched = sched
        self.name = name
        self.index = index
        self.fn = fn
        self.go = _threading.Semaphore(0)
        self.state = "new"        # new | ready | lock | wait | done
        self.blocked_on = None
        self.notified = False
        self.deadline = None
        self.pending = None       # event dict set by the worker program at an operation boundary
        self.exc = None
        self.thread = None
        self.where = None         # (file, line, func) of the last line yield - diagnostics only

    def __repr__(self):
        return "<worker %s %s>" % (self.name, self.state)


class Scheduler:
    def __init__(self, files, clock, watchdog=WATCHDOG_S):
        global _CURRENT
        self.files = frozenset(files)
        self.clock = clock
        self.watchdog = watchdog
        self.workers = []
        self.by_ident = {}
        self.back = _threading.Semaphore(0)
        self.steps = 0
        self.line_yields = 0
        _CURRENT = self

    # ---- worker side
    def _park(self, w, state, on):
        """called in worker w: give the baton back and sleep until the controller resumes us"""
        w.state = state
        w.blocked_on = on
        self.back.release()
        w.go.acquire()
        w.state = "ready"
        w.blocked_on = None

    def event(self, kind, **fields):
        """operation boundary of the calling worker: publishes an event and yields"""
        w = _me()
        if not isinstance(w, Worker):
            raise SchedError("event() outside a worker")
        fields["k"] = kind
        w.pending = fields
        self._park(w, "ready", None)

    def _gtrace(self, frame, event, arg):
        if frame.f_code.co_filename in self.files:
            return self._ltrace
        return None

    def _ltrace(self, frame, event, arg):
        if event == "line":
            w = self.by_ident.get(_threading.get_ident())
            if w is not None:
                self.line_yields += 1
                co = frame.f_code
                w.where = (co.co_filename.rsplit("/", 1)[-1], frame.f_lineno, co.co_name)
                self._park(w, "ready", None)
        return self._ltrace

    def _boot(self, w):
        self.by_ident[_threading.get_ident()] = w
        w.go.acquire()
        w.state = "ready"
        sys.settrace(self._gtrace)
        try:
            w.fn()
        except BaseException as e:     # noqa  (worker programs catch what they expect; anything here is reported)
            w.exc = e
        finally:
            sys.settrace(None)
            w.state = "done"
            self.back.release()

    # ---- controller side
    def spawn(self, name, fn):
        w = Worker(self, name, len(self.workers), fn)
        t = _threading.Thread(target=self._boot, args=(w,), name="sched-" + name, daemon=True)
        w.thread = t
        self.workers.append(w)
        t.start()
        w.state = "ready"
        return w

    def can_run(self, w):
        if w.state in ("ready", "new"):
            return True
        if w.state == "lock":
            lk = w.blocked_on
            return lk.owner is None
        if w.state == "wait":
            return w.notified or (w not in w.blocked_on.waiters)
        return False

    def runnable(self):
        return [w for w in self.workers if self.can_run(w)]

    def alive(self):
        return [w for w in self.workers if w.state != "done"]

    def step(self, w):
        """run worker w from its current yield point to the next one; returns its pending event (or None)"""
        if not self.can_run(w):
            raise SchedError("step() on a worker that cannot run: %r" % w)
        self.steps += 1
        w.go.release()
        if not self.back.acquire(timeout=self.watchdog):
            raise SchedError("watchdog: worker %s did not reach a yield point within %ss (last at %r)" % (
                w.name, self.watchdog, w.where))
        ev, w.pending = w.pending, None
        return ev

    def next_deadline(self):
        dl = [w.deadline for w in self.workers if w.state == "wait" and w.deadline is not None
              and w in w.blocked_on.waiters]
        return min(dl) if dl else None

    def advance(self, to):
        """move the virtual clock; every waiter whose deadline is reached leaves its wait list (timed out)"""
        if to < self.clock.now:
            raise SchedError("clock moves backwards")
        self.clock.now = int(to) if float(to).is_integer() else to
        expired = []
        for w in self.workers:
            if w.state == "wait" and w.deadline is not None and w in w.blocked_on.waiters and w.deadline <= to:
                w.blocked_on.waiters.remove(w)
                expired.append(w)
        return expired

    def close(self):
        global _CURRENT
        if _CURRENT is self:
            _CURRENT = None
        for w in self.workers:
            if w.state != "done":
                raise SchedError("scheduler closed with live worker %r" % w)
            w.thread.join(5)
