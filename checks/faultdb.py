"""A thin fault-injecting wrapper around real sqlite3 connections (passed to create_engine via creator=).

Every DBAPI connection gets an id; `ledger` records which ids are open; a one-shot `armed` fault makes the next
DBAPI-level operation (cursor.execute, commit, rollback) raise either an error the pysqlite dialect classifies as a
disconnect (sqlite3.ProgrammingError "Cannot operate on a closed database.") - after which the connection is dead and
every later operation on it fails the same way - or an ordinary sqlite3.OperationalError."""
import sqlite3

DISCONNECT_MSG = "Cannot operate on a closed database."


class Plan:
    def __init__(self):
        self.armed = None        # None | "disconnect" | "error"
        self.fired = False
        self.log = []            # (conn id, op)
        self.nconn = 0
        self.open = set()
        self.dead = set()
        self.connect_fail = False

    def arm(self, kind):
        self.armed = kind
        self.fired = False

    def disarm(self):
        self.armed = None


class FCursor:
    def __init__(self, conn):
        self._c = conn
        self._cur = conn._real.cursor()

    def _gate(self, op):
        self._c._gate(op)

    def execute(self, *a, **kw):
        self._gate("execute")
        return self._cur.execute(*a, **kw)

    def executemany(self, *a, **kw):
        self._gate("executemany")
        return self._cur.executemany(*a, **kw)

    def __getattr__(self, k):
        return getattr(self._cur, k)

    def __iter__(self):
        return iter(self._cur)


class FConn:
    def __init__(self, plan, path, **kw):
        self._plan = plan
        if plan.armed:      # the fault hits the connect itself (a reconnect attempt that fails)
            kind, plan.armed, plan.fired = plan.armed, None, True
            plan.log.append((0, "connect-failed"))
            if kind == "disconnect":
                raise sqlite3.ProgrammingError(DISCONNECT_MSG)
            raise sqlite3.OperationalError("injected error")
        plan.nconn += 1
        self.id = plan.nconn
        self._real = sqlite3.connect(path, **kw)
        plan.open.add(self.id)

    def _gate(self, op):
        p = self._plan
        p.log.append((self.id, op))
        if self.id in p.dead:
            raise sqlite3.ProgrammingError(DISCONNECT_MSG)
        if p.armed:
            kind, p.armed, p.fired = p.armed, None, True
            if kind == "disconnect":
                p.dead.add(self.id)
                try:
                    self._real.rollback()
                except Exception:
                    pass
                raise sqlite3.ProgrammingError(DISCONNECT_MSG)
            raise sqlite3.OperationalError("injected error")

    def cursor(self):
        return FCursor(self)

    def commit(self):
        self._gate("commit")
        return self._real.commit()

    def rollback(self):
        self._gate("rollback")
        return self._real.rollback()

    def close(self):
        self._plan.log.append((self.id, "close"))
        self._plan.open.discard(self.id)
        return self._real.close()

    def __getattr__(self, k):
        return getattr(self._real, k)

    def __setattr__(self, k, v):
        if k in ("_plan", "id", "_real"):
            object.__setattr__(self, k, v)
        else:
            setattr(self._real, k, v)
