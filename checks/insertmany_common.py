"""Shared harness for C12 / C13 / C56 (InsertMany.tla, Defaults.tla, Upsert.tla).

The adversarial database: a sqlite3 Connection/Cursor pair handed to create_engine(creator=...) whose fetchall()
returns the rows of every INSERT .. RETURNING statement in the permutation the TLC behaviour dictates (SQLite itself
always answers in VALUES order).  The cursor also logs every statement with its parameters (the pages the engine
really sent), snapshots the table after every INSERT through a plain cursor of the same DBAPI connection, and
translates the placeholder syntax of the non-native paramstyles (numeric, numeric_dollar, format, pyformat) so that
all six paramstyle branches of the batching code run against a real database.
"""
import re
import sqlite3
import uuid

PARAMSTYLES = ("qmark", "named", "numeric", "numeric_dollar", "format", "pyformat")
_RE_NUMERIC = re.compile(r":(\d+)")
_RE_DOLLAR = re.compile(r"\$(\d+)")
_RE_PYFORMAT = re.compile(r"%\((\w+)\)s")


_RE_PGFORM = re.compile(r"SELECT (.*?) FROM \(VALUES (.*)\) AS imp_sen\((.*?)\) ORDER BY sen_counter", re.S)


def translate_pgform(sql):
    """INSERT .. SELECT p0, p1 FROM (VALUES (.., 0), (.., 1)) AS imp_sen(p0, p1, sen_counter) ORDER BY sen_counter  (the form the
    compiler emits for dialects with InsertmanyvaluesSentinelOpts.USE_INSERT_FROM_SELECT: PostgreSQL, SQL Server) in SQLite's
    spelling: a VALUES subquery cannot take a column alias list there, its columns are called column1 .. columnN"""
    m = _RE_PGFORM.search(sql)
    if not m:
        return sql
    names = [x.strip() for x in m.group(3).split(",")]
    sel = m.group(1)
    for i in sorted(range(len(names) - 1), reverse=True):
        sel = re.sub(r"\b%s\b" % re.escape(names[i]), "column%d" % (i + 1), sel)
    return sql[:m.start()] + "SELECT %s FROM (VALUES %s) ORDER BY column%d" % (sel, m.group(2), len(names)) + sql[m.end():]


def translate(sql, paramstyle):
    if "AS imp_sen(" in sql:
        sql = translate_pgform(sql)
    if paramstyle == "numeric":
        return _RE_NUMERIC.sub(r"?\1", sql)
    if paramstyle == "numeric_dollar":
        return _RE_DOLLAR.sub(r"?\1", sql)
    if paramstyle == "format":
        return sql.replace("%s", "?").replace("%%", "%")
    if paramstyle == "pyformat":
        return _RE_PYFORMAT.sub(r":\1", sql).replace("%%", "%")
    return sql


class Script:
    """what the database does during one run, and what it saw"""

    def __init__(self):
        self.begin()

    def begin(self, perms=(), snap_sql=None, active=True):
        self.perms = [list(p) for p in perms]   # 0-based permutation per INSERT..RETURNING statement, in statement order
        self.snap_sql = snap_sql
        self.active = active
        self.stmts = []       # dict(sql, params, many, returning, snap)
        self.errors = []
        self.server_seq = 0   # counter behind the nextkey() SQL function ("none" style server default)

    def inserts(self):
        return [s for s in self.stmts if s["insert"]]


def _is_insert(sql):
    return sql.lstrip()[:6].upper() == "INSERT"


def make_creator(script, paramstyle="qmark", path=":memory:"):
    class Cur(sqlite3.Cursor):
        _entry = None

        def _snap(self):
            if script.snap_sql:
                c = sqlite3.Connection.cursor(self.connection)
                try:
                    return c.execute(script.snap_sql).fetchall()
                finally:
                    c.close()
            return None

        def execute(self, sql, params=()):
            self._entry = None
            if not script.active:
                return super().execute(translate(sql, paramstyle), params)
            ins = _is_insert(sql)
            e = {"sql": sql, "params": params, "many": False, "insert": ins,
                 "returning": ins and " RETURNING " in sql, "snap": None, "nret": None, "idx": None}
            if ins:
                e["idx"] = len(script.inserts())
            script.stmts.append(e)
            r = super().execute(translate(sql, paramstyle), params)
            if ins:
                e["snap"] = self._snap()
                self._entry = e
            return r

        def executemany(self, sql, params):
            self._entry = None
            if not script.active:
                return super().executemany(translate(sql, paramstyle), params)
            params = list(params)
            ins = _is_insert(sql)
            e = {"sql": sql, "params": params, "many": True, "insert": ins, "returning": False, "snap": None,
                 "nret": None, "idx": len(script.inserts()) if ins else None}
            script.stmts.append(e)
            r = super().executemany(translate(sql, paramstyle), params)
            if ins:
                e["snap"] = self._snap()
            return r

        def fetchall(self):
            rows = super().fetchall()
            e = self._entry
            if e is not None and e["returning"] and e["nret"] is None:
                e["nret"] = len(rows)
                if e["idx"] < len(script.perms):
                    perm = script.perms[e["idx"]]
                    if len(perm) != len(rows):
                        script.errors.append("statement %d returned %d rows, the behaviour's permutation has %d"
                                             % (e["idx"], len(rows), len(perm)))
                    else:
                        rows = [rows[j] for j in perm]
                        e["perm"] = perm
            return rows

    class Conn(sqlite3.Connection):
        def cursor(self, factory=None):
            return super().cursor(Cur)

    def nextkey():
        script.server_seq += 1
        return 50 - script.server_seq

    def creator():
        c = sqlite3.connect(path, factory=Conn)
        c.create_function("nextkey", 0, nextkey)
        return c

    return creator


# ------------------------------------------------------------------------------------------ keys (InsertMany.tla)
UUIDS = [uuid.UUID(int=((i * 7919 * 104729 + 12345) * 2654435761) % (1 << 120)) for i in range(64)]
UUID_BACK = {u: i for i, u in enumerate(UUIDS)}
assert len(UUID_BACK) == len(UUIDS)


def client_key(i):
    return (i * 5) % 11


def comp_key(i):
    return (i % 2), ((i + 1) // 2)


class Keys:
    """client-side default callables; the k-th call belongs to the k-th parameter set of the run"""

    def __init__(self):
        self.reset()

    def reset(self):
        self.n_uuid = self.n_a = self.n_b = 0

    def uuid_default(self):
        self.n_uuid += 1
        return UUIDS[client_key(self.n_uuid)]

    def a_default(self):
        self.n_a += 1
        return comp_key(self.n_a)[0]

    def b_default(self):
        self.n_b += 1
        return UUIDS[comp_key(self.n_b)[1]]


def d_index(v):
    """'d3' -> 3; None -> 0 (the defaults-only row)"""
    if v is None:
        return 0
    return int(v[1:])


def batch_of(entry):
    """parameter-set indices carried by one logged INSERT statement, in VALUES order"""
    out = []

    def scan(p):
        vals = p.values() if isinstance(p, dict) else p
        if isinstance(p, dict):
            # named styles: keys are d__0, d__1 ... (insertmanyvalues) or d
            items = []
            for k, v in p.items():
                if isinstance(v, str) and re.fullmatch(r"d\d+", v):
                    m = re.search(r"__(\d+)$", k)
                    items.append((int(m.group(1)) if m else 0, v))
            items.sort(key=lambda t: t[0])
            out.extend(int(v[1:]) for _, v in items)
            return
        for v in vals:
            if isinstance(v, str) and re.fullmatch(r"d\d+", v):
                out.append(int(v[1:]))

    if entry["many"]:
        for p in entry["params"]:
            scan(p)
    else:
        scan(entry["params"])
    return out
