"""C04 bound parameters are delivered to the right placeholders in every paramstyle - ParamStyle.tla (DESIGN 3.12, 4 C04).

TLC (model): every statement = sequence of parameter occurrences (clauses CTE / SELECT list / scalar subquery / WHERE / IN / HAVING /
ORDER BY / LIMIT / OFFSET / a literal % in the text; INSERT VALUES / UPDATE SET / WHERE / IN / RETURNING) over plain, expanding (0..2
values), literal_execute and expanding+literal_execute binds, repeated binds included; the compiler's delivery scheme stated
functionally satisfies Resolve(style, Deliver(style, stmt)) = Expected(stmt) and uses its parameters exactly, for all six paramstyles
(DeliveryCorrect, ParamsExact; SwapSeen: any swap of two positional parameters is visible).  (names) the escaped / expanded key names.
Binding: every enumerated statement is built with the real expression language - each occurrence tagged in the SQL text so the value
it must receive can be read off the text the driver gets - and executed on SQLite through a recording DBAPI wrapper with
create_engine(paramstyle=...) for the six styles (qmark / named native, the others through a ~40 line placeholder translator).
(trace, code -> spec) what cursor.execute received is validated by TLC: TraceCorrect, TraceAccepted, TraceStyle.  Rows must be identical
across styles and equal to the same statement with the values written inline.  psycopg2 / psycopg / asyncpg / pg8000 / pymysql /
mysqlclient / mariadb-connector: the dialect's REAL execution context (_init_compiled) over a fake connection yields the (statement,
parameters) the driver would get; validated by TLC, not executed.
"""
import json
import os
import random
import re
import sqlite3

from engine import tlc

LEVEL = "model_checking"
MANIFEST = dict(
    text="ParamStyle.tla: PEP 249 semantics of the six paramstyles (Resolve) and the compiler's delivery scheme (positional order with "
         "repeated binds, numeric numbering with expanding values after the plain ones, named keys, %% doubling) stated functionally; TLC "
         "proves Resolve(Deliver(stmt)) = Expected(stmt) with exactly-used parameters for every statement of <=3 (quick) / <=4 (thorough) "
         "occurrences over plain / expanding (0-2 values) / literal_execute binds in CTE, SELECT list, subquery, WHERE, IN, HAVING, ORDER BY, "
         "LIMIT, OFFSET, INSERT VALUES, UPDATE SET, RETURNING positions. Every statement is built with the real expression language (bind names "
         "with spaces, dots, percent, brackets, parentheses, colons), executed on SQLite through a recording DBAPI for all six paramstyles; what "
         "cursor.execute received is validated by TLC against Resolve (each occurrence is tagged in the SQL text, so the value every placeholder "
         "must get is read off the delivered text), and the rows must equal those of the statement with inline values, in every style.",
    design_ref="3.12, 4 (C04)",
    note="trusted: TLC; the SQL tokenizer of the harness (regular expressions over harness-built statements) and the placeholder translator "
         "for format / pyformat / numeric / numeric_dollar (sqlite3 itself only executes qmark and named); only sqlite3 executes - for psycopg2, "
         "psycopg, asyncpg, pg8000, pymysql, mysqlclient, mariadb-connector the dialect's real execution context assembles (statement, "
         "parameters) over a fake connection and TLC validates that delivery",
    technique="TLA+ spec (ParamStyle.tla) + TLC exhaustive theorem checking of the delivery scheme; spec->code replay of every enumerated "
              "statement on six paramstyles; code->spec trace validation of every (sql, parameters) handed to cursor.execute")

STYLES = ["qmark", "format", "numeric", "numeric_dollar", "named", "pyformat"]
TAG0 = 7000000
XS = [100, 101, 102, 200, 201, 202, 300, 301, 302]


def val(b, i):
    return 100 * b + i


# ---------------------------------------------------------------------------------------------- recording DBAPI + translator
_PH = re.compile(r"%\((\w+)\)s|%s|%%|%|\?|(?<![\w:])[:$](\d+)|(?<![\w:]):([A-Za-z_]\w*)")


def translate(style, sql, params):
    """(sql, params) of a foreign paramstyle -> what sqlite3 executes (trusted, harness-built statements only)"""
    if style in ("qmark", "named"):
        return sql, params
    keys = {}

    def sub(m):
        t = m.group(0)
        if t == "%%":
            return "%"
        if t == "%s":
            return "?"
        if m.group(1) is not None:
            return ":z%d" % keys.setdefault(m.group(1), len(keys))
        if m.group(2) is not None:
            return "?" + m.group(2)
        if t == "%" and style in ("format", "pyformat"):
            raise sqlite3.ProgrammingError("lone % in a %-formatted statement")
        return t
    out = _PH.sub(sub, sql)
    if style == "pyformat":
        params = {"z%d" % i: params[k] for k, i in keys.items()} if isinstance(params, dict) else params
    return out, params


class _Cursor:
    def __init__(self, real, style, log):
        self.__dict__.update(_c=real, _style=style, _log=log)

    def execute(self, sql, params=()):
        if not sql.lstrip().upper().startswith(("PRAGMA", "BEGIN", "ROLLBACK", "COMMIT", "SAVEPOINT", "RELEASE")):
            self._log.append((sql, params))
        s2, p2 = translate(self._style, sql, params)
        self._c.execute(s2, p2)
        return self

    def executemany(self, sql, seq):
        seq = list(seq)
        self._log.append((sql, seq))
        for p in seq:
            s2, p2 = translate(self._style, sql, p)
            self._c.execute(s2, p2)
        return self

    def __getattr__(self, k):
        return getattr(self._c, k)

    def __iter__(self):
        return iter(self._c)


class _Conn:
    def __init__(self, real, style, log):
        self.__dict__.update(_r=real, _style=style, _log=log)

    def cursor(self, *a, **kw):
        return _Cursor(self._r.cursor(*a, **kw), self._style, self._log)

    def execute(self, sql, params=()):
        return self.cursor().execute(sql, params)

    def __getattr__(self, k):
        return getattr(self._r, k)

    def __setattr__(self, k, v):
        setattr(self._r, k, v)


class FakeSqlite:
    """sqlite3 with a recording, translating cursor: create_engine(..., module=FakeSqlite(style, log))"""

    def __init__(self, style, log):
        self._style, self._log = style, log
        self.paramstyle = style

    def connect(self, *a, **kw):
        return _Conn(sqlite3.connect(*a, **kw), self._style, self._log)

    def __getattr__(self, k):
        return getattr(sqlite3, k)


# ---------------------------------------------------------------------------------------------- tokenizer of the delivered SQL
_OP = r"\?|%s|[:$]\d+|:[A-Za-z_]\w*|%\(\w+\)s|-?\d+"
_STRAY = r"\?|%s|(?<![\w:])[:$]\d+|(?<![\w:]):[A-Za-z_]\w*|%\(\w+\)s"
_TOK = re.compile(r"(?P<single>(?P<op>%s) \+ 0 \* (?P<tag1>7\d{6}))"
                  r"|(?P<inlist>\+ 0 \* (?P<tag2>7\d{6})\)? (?:NOT )?IN \()"
                  r"|(?P<pct2>%%%%)|(?P<stray>%s)|(?P<pct1>%%)" % (_OP, _STRAY))
_OPLIST = re.compile(r"^(?:%s)(?:, (?:%s))*$" % (_OP, _OP))


def _ph(op):
    if op == "?":
        return dict(t="ph", k="pos", sym="?")
    if op == "%s":
        return dict(t="ph", k="pos", sym="%s")
    if op[0] in ":$" and op[1:].isdigit():
        return dict(t="ph", k="num", n=int(op[1:]), sym=op[0] + "n")
    if op[0] == ":":
        return dict(t="ph", k="key", key=op[1:], sym=":name")
    if op.startswith("%("):
        return dict(t="ph", k="key", key=op[2:-2], sym="%(name)s")
    return dict(t="lit", v=int(op))


def tokenize(sql, expected):
    """delivered SQL text -> token list for ParamStyle.tla (mode trace); expected: {tag: [values]} ; returns (tokens, problems)"""
    toks, problems, seen = [], [], set()
    pos = 0
    while True:
        m = _TOK.search(sql, pos)
        if not m:
            break
        pos = m.end()
        if m.group("single"):
            tag = int(m.group("tag1")) - TAG0
            toks.append(dict(t="grp", toks=[_ph(m.group("op"))], exp=expected.get(tag, [-999]), tag=tag))
            seen.add(tag)
        elif m.group("inlist"):
            tag = int(m.group("tag2")) - TAG0
            depth, j = 1, pos
            while depth and j < len(sql):
                depth += {"(": 1, ")": -1}.get(sql[j], 0)
                j += 1
            items = sql[pos:j - 1]
            pos = j
            if _OPLIST.match(items):
                ops = items.split(", ")
            else:                       # the dialect's empty-set expression: no placeholder may hide in it
                ops = []
                if re.search(_STRAY, items):
                    problems.append("placeholder inside an IN list that is not a plain list: %s" % items)
            toks.append(dict(t="grp", toks=[_ph(o) for o in ops], exp=expected.get(tag, [-999]), tag=tag))
            seen.add(tag)
        elif m.group("pct2"):
            toks.append(dict(t="pct2"))
        elif m.group("pct1"):
            toks.append(dict(t="pct1"))
        elif m.group("stray"):
            problems.append("placeholder %s outside a tagged occurrence" % m.group("stray"))
    missing = set(expected) - seen
    if missing:
        problems.append("occurrences %s not found in the text" % sorted(missing))
    return toks, problems


# ---------------------------------------------------------------------------------------------- statements
NAMES_ESC = {1: "b 1", 2: "b%2", 3: "b[3].x", 4: "f(4):y"}
NAMES_PLAIN = {1: "p1", 2: "p2", 3: "p3", 4: "p4"}


class Builder:
    def __init__(self, sa, md):
        self.sa = sa
        self.t = md.tables["t"]
        self.w = md.tables["w"]

    def build(self, stmt, names, inline=False, swap=None, fresh_objects=False):
        """stmt: {occ: [{c, b}], binds: [{kind, n}]} -> (statement, {tag: [values]}); inline: values written as literals;
        swap=(b1, b2): inline with the two binds' values exchanged (to measure whether the rows depend on them);
        fresh_objects: every occurrence of a repeated bind is its own BindParameter object of the same name and value"""
        sa, t, w = self.sa, self.t, self.w
        binds = stmt["binds"]
        objs = {}

        def values(b):
            bb = b
            if swap and b in swap:          # the two binds are of the same shape (both single-valued, or expanding with equal n)
                bb = swap[1] if b == swap[0] else swap[0]
            bd = binds[b - 1]
            if bd["kind"] in ("expanding", "litexp"):
                return [val(bb, i) for i in range(1, bd["n"] + 1)]
            return [val(bb, 0)]

        def bind(b):
            bd = binds[b - 1]
            if inline:
                vs = values(b)
                return [sa.literal_column(str(v)) for v in vs] if bd["kind"] in ("expanding", "litexp") else sa.literal_column(str(vs[0]))
            if b not in objs or fresh_objects:
                lit = bd["kind"] in ("literal", "litexp")
                if bd["kind"] in ("expanding", "litexp"):
                    objs[b] = sa.bindparam(names[b], values(b), sa.Integer, expanding=True, literal_execute=lit)
                else:
                    objs[b] = sa.bindparam(names[b], values(b)[0], sa.Integer, literal_execute=lit)
            return objs[b]

        expected = {}

        def E(k, b):
            expected[k] = [val(b, i) for i in range(1, binds[b - 1]["n"] + 1)] if binds[b - 1]["kind"] in ("expanding", "litexp") else [val(b, 0)]
            return bind(b) + sa.literal_column("0 * %d" % (TAG0 + k))

        def IN(k, col, b):
            expected[k] = [val(b, i) for i in range(1, binds[b - 1]["n"] + 1)]
            lhs = col + sa.literal_column("0 * %d" % (TAG0 + k))
            if inline:          # the reference uses no parameter machinery at all: IN written out as a disjunction
                vs = bind(b)
                return sa.or_(*[lhs == v for v in vs]) if vs else sa.literal_column("0") == sa.literal_column("1")
            return lhs.in_(bind(b))

        occ = stmt["occ"]
        cl = [o["c"] for o in occ]
        if cl[0] in ("values", "values2", "set", "dwhere", "din", "returning") or "values" in cl or "set" in cl:
            vals, where, ret = {}, [], []
            for k, o in enumerate(occ, 1):
                c, b = o["c"], o["b"]
                if c == "values":
                    vals["a"] = E(k, b)
                elif c == "values2":
                    vals["b"] = E(k, b)
                elif c == "set":
                    vals["a"] = E(k, b)
                elif c == "dwhere":
                    where.append(w.c.b >= E(k, b))
                elif c == "din":
                    where.append(IN(k, w.c.b, b))
                elif c == "returning":
                    ret = [w.c.id, (w.c.a + E(k, b)).label("r")]
            if "values" in cl:
                s = sa.insert(w).values(id=sa.literal_column("50"), **vals)
            else:
                s = sa.update(w).values(**vals).where(*where)
            if ret:
                s = s.returning(*ret)
            return s, expected, "dml"
        cols = [t.c.id, t.c.x]
        where, having, order, limit, offset = [], None, None, None, None
        for k, o in enumerate(occ, 1):
            c, b = o["c"], o["b"]
            if c == "cte":
                cte = sa.select(t.c.id.label("cid")).where(t.c.x <= E(k, b) + sa.literal_column("101")).cte("c")
                where.append(t.c.id.in_(sa.select(cte.c.cid)))
            elif c in ("sel", "sel2"):
                cols.append(E(k, b).label("s%d" % k))
            elif c == "subq":
                t2 = t.alias("t2")
                cols.append(sa.select(sa.func.max(t2.c.x) - E(k, b)).scalar_subquery().label("sq"))
            elif c == "where":
                where.append(t.c.x >= E(k, b))
            elif c == "in":
                where.append(IN(k, t.c.x, b))
            elif c == "having":
                having = sa.func.sum(t.c.x) >= E(k, b)
            elif c == "order":
                order = sa.func.abs(t.c.x - E(k, b))
            elif c == "limit":
                limit = E(k, b) - sa.literal_column(str(val(b, 0) - 2))
            elif c == "offset":
                offset = E(k, b) - sa.literal_column(str(val(b, 0) - 1))
            elif c == "pct":
                where.append((t.c.x % sa.literal_column("1000")) == t.c.x)
        s = sa.select(*cols).where(*where)
        if having is not None:
            s = s.group_by(t.c.id, t.c.x).having(having)
        s = s.order_by(*([order] if order is not None else []), t.c.id)
        if limit is not None or offset is not None:
            # always both: a dialect supplies the missing one as a bound parameter of its own (SQLite: LIMIT -1 / OFFSET 0)
            s = s.limit(limit if limit is not None else sa.literal_column("1000"))
            s = s.offset(offset if offset is not None else sa.literal_column("0"))
        return s, expected, "select"


class _FakeCursor:
    description = None
    rowcount = -1
    arraysize = 1

    def close(self):
        pass


class _FakeDBAPIConnection:
    def cursor(self, *a, **kw):
        return _FakeCursor()


def hash_(s):
    return sum(ord(c) * (i + 1) for i, c in enumerate(s))


def deliver_foreign(dialect, stmt):
    """(statement, parameters) exactly as DefaultExecutionContext._init_compiled assembles them for a driver that is not
    executable here: the real execution context of the dialect over a connection that is never used"""
    import types
    compiled = stmt.compile(dialect=dialect)
    eng = types.SimpleNamespace(dialect=dialect, _should_log_info=lambda: False, _should_log_debug=lambda: False, logging_name=None, echo=False)
    conn = types.SimpleNamespace(dialect=dialect, engine=eng, _execution_options={}, _echo=False)
    ctx = dialect.execution_ctx_cls._init_compiled(dialect, conn, _FakeDBAPIConnection(), {}, compiled, [{}], stmt, None)
    return ctx.statement, ctx.parameters[0]


def main(chk):
    import warnings
    import sqlalchemy as sa
    warnings.filterwarnings("ignore", category=sa.exc.SAWarning)
    warnings.filterwarnings("ignore", category=DeprecationWarning)
    rng = random.Random(chk.seed)
    from concurrent.futures import ThreadPoolExecutor
    # ------------------------------------------------------------------ TLC: the model
    plans = [("select", 3, 2), ("dml", 3, 2)] if chk.quick else [("select", 4, 2), ("select", 3, 3), ("dml", 4, 2), ("dml", 3, 3)]

    def model(plan):
        fam, mo, nb = plan
        cfg = tlc.cfg(constants=dict(Mode=tlc.q("model"), MaxOcc=mo, NBinds=nb, Family=tlc.q(fam)),
                      invariants=["DeliveryCorrect", "ParamsExact", "SwapSeen"])
        return tlc.run("ParamStyle", cfg, os.path.join(chk.work, "tlc-model-%s-%d-%d" % plan), workers=2, timeout=900 if chk.quick else 3000,
                       env={"PARAM_TRACES": "/dev/null"}, keep_stdout=False)

    def names_run():
        cfg = tlc.cfg(constants=dict(Mode=tlc.q("names"), MaxOcc=1, NBinds=1, Family=tlc.q("select")), invariants=["KeysDistinct"])
        return tlc.run("ParamStyle", cfg, os.path.join(chk.work, "tlc-names"), workers=1, timeout=900, env={"PARAM_TRACES": "/dev/null"},
                       extra=["-continue"], keep_stdout=False)
    with ThreadPoolExecutor(max_workers=max(1, min(5, tlc.NPROC))) as ex:
        fm = [ex.submit(model, p) for p in plans]
        fn = ex.submit(names_run)
        rm = [f.result() for f in fm]
        rn = fn.result()
    stmts, seen = [], set()
    runs = {}
    for plan, r in zip(plans, rm):
        runs["model %s MaxOcc=%d NBinds=%d" % plan] = dict(distinct=r.distinct, generated=r.generated, violated=r.violated, wall_s=round(r.wall, 1))
        if r.violated:
            chk.violation(dict(spec="ParamStyle", action="TLC", invariant=r.violated, family=plan[0]),
                          "TLC: %s violated in ParamStyle.tla (%s)" % (r.violated, plan))
        if r.distinct != 2 * len(r.json):
            chk.machinery("model %s: %d statements printed but %d states (every statement must have been judged)" % (plan, len(r.json), r.distinct))
        for c in r.json:
            key = json.dumps(c["stmt"], sort_keys=True)
            if key not in seen:
                seen.add(key)
                stmts.append(c["stmt"])
    runs["names"] = dict(distinct=rn.distinct, generated=rn.generated, wall_s=round(rn.wall, 1))
    name_cases = [dict(names=["".join(n) for n in c["names"]], distinct=c["distinct"]) for c in rn.json]
    if not stmts or not name_cases:
        chk.machinery("TLC printed no cases")
    if not any(not c["distinct"] for c in name_cases) or not any(c["distinct"] for c in name_cases):
        chk.machinery("vacuous: the names pool has no colliding / no collision-free case")
    # ------------------------------------------------------------------ the database and one engine per paramstyle
    path = os.path.join(chk.work, "c04.db")
    con = sqlite3.connect(path)
    con.execute("CREATE TABLE t (id INTEGER PRIMARY KEY, x INTEGER, g INTEGER)")
    con.execute("CREATE TABLE w (id INTEGER PRIMARY KEY, a INTEGER, b INTEGER)")
    con.executemany("INSERT INTO t VALUES (?, ?, ?)", [(i + 1, x, i % 2) for i, x in enumerate(XS)])
    con.executemany("INSERT INTO w VALUES (?, ?, ?)", [(i + 1, x, x) for i, x in enumerate(XS)])
    con.commit()
    con.close()
    md = sa.MetaData()
    sa.Table("t", md, sa.Column("id", sa.Integer, primary_key=True), sa.Column("x", sa.Integer), sa.Column("g", sa.Integer))
    sa.Table("w", md, sa.Column("id", sa.Integer, primary_key=True), sa.Column("a", sa.Integer), sa.Column("b", sa.Integer))
    logs = {s: [] for s in STYLES}
    engines = {s: sa.create_engine("sqlite:///" + path, paramstyle=s, module=FakeSqlite(s, logs[s])) for s in STYLES}
    ref_engine = sa.create_engine("sqlite:///" + path)
    builder = Builder(sa, md)
    from sqlalchemy.dialects.postgresql import asyncpg, psycopg2, psycopg, pg8000
    from sqlalchemy.dialects.mysql import pymysql, mysqldb, mariadbconnector
    foreign = {"psycopg2": psycopg2.dialect(), "asyncpg": asyncpg.dialect(), "psycopg": psycopg.dialect(), "pg8000": pg8000.dialect(),
               "pymysql": pymysql.dialect(), "mysqldb": mysqldb.dialect(), "mariadbconnector": mariadbconnector.dialect()}

    def run(engine, s, fam):
        with engine.connect() as conn:
            try:
                res = conn.execute(s)
                rows = [tuple(r) for r in res.all()] if res.returns_rows else []
                if fam == "dml":
                    rows = rows + [tuple(r) for r in conn.exec_driver_sql("SELECT id, a, b FROM w ORDER BY id").all()]
                return rows
            except (sa.exc.SQLAlchemyError, sqlite3.Error, AssertionError, KeyError) as ex_:
                return "%s: %s" % (type(ex_).__name__, str(ex_).splitlines()[0][:160] if str(ex_) else "")
            finally:
                conn.rollback()

    trace_path = os.path.join(chk.work, "traces.ndjson")
    tf = open(trace_path, "w")
    trace_meta = {}
    ntr = nexec = sensitive = 0
    cov = {}
    samples = []

    def one(tid, stmt, names, scope):
        """build, run on every style, record traces, compare rows"""
        nonlocal ntr, nexec, sensitive
        s_ref, expected, fam = builder.build(stmt, names, inline=True)
        ref = run(ref_engine, s_ref, fam)
        nexec += 1
        if isinstance(ref, str):
            chk.machinery("the reference statement (values inline) fails: %s | %s" % (ref, s_ref))
        bs = sorted({o["b"] for o in stmt["occ"] if o["b"]})
        shape_of = lambda b: (stmt["binds"][b - 1]["kind"] in ("expanding", "litexp"), stmt["binds"][b - 1]["n"])
        pairs = [(a, b) for a in bs for b in bs if a < b and shape_of(a) == shape_of(b)]
        if pairs:
            alt = run(ref_engine, builder.build(stmt, names, inline=True, swap=pairs[0])[0], fam)
            if alt != ref:
                sensitive += 1
        kinds = "+".join(sorted({stmt["binds"][o["b"] - 1]["kind"] for o in stmt["occ"] if o["b"]}))
        clauses = "+".join(o["c"] for o in stmt["occ"])
        for o in stmt["occ"]:
            cov[o["c"]] = cov.get(o["c"], 0) + 1
        ncls = "escaped" if any(re.search(r"\W", names[b]) for b in bs) else "plain"
        fresh = hash_(tid) % 3 == 0          # a third of the statements repeat a bind as separate BindParameter objects of one name
        for style in STYLES:
            del logs[style][:]
            s, expected, fam = builder.build(stmt, names, fresh_objects=fresh)
            rows = run(engines[style], s, fam)
            nexec += 1
            sig = dict(spec="ParamStyle", style=style, scope=scope, family=fam, kinds=kinds, names=ncls,
                       error=(rows.split(":")[0] + (":KeyError" if "KeyError" in rows else ":AssertionError" if "AssertionError" in rows else ""))
                       if isinstance(rows, str) else None)
            delivered = [e for e in logs[style] if not e[0].startswith("SELECT id, a, b FROM w")]
            if rows != ref:
                chk.violation(dict(sig, action="rows", clauses=clauses), "%s [%s] names %r: rows %r, with inline values %r | delivered %r"
                              % (style, clauses, [names[b] for b in bs], rows if isinstance(rows, str) else rows[:4], ref[:4], delivered[:1]),
                              dict(stmt=stmt, names=names, style=style, rows=rows, reference=ref, delivered=[list(map(str, d)) for d in delivered]))
            if len(delivered) != 1:
                if not isinstance(rows, str):
                    chk.machinery("expected one cursor.execute for %s, saw %d" % (clauses, len(delivered)))
                continue
            sql, params = delivered[0]
            toks, problems = tokenize(sql, expected)
            if problems:
                chk.machinery("tokenizer: %s in %s" % (problems, sql))
            if isinstance(params, dict):
                p = [[k, v] for k, v in params.items()]
            else:
                p = list(params)
            ntr += 1
            tid2 = "%s/%s" % (tid, style)
            trace_meta[tid2] = (sig, clauses, names, sql, params, stmt)
            tf.write(json.dumps(dict(id=tid2, style=style, sql=[{k: v for k, v in t_.items() if k != "tag"} for t_ in toks], params=p)) + "\n")
        # compile-only dialects of drivers without a server: the expanded statement must tokenize and account for every occurrence
        for dn, d in foreign.items():
            if chk.quick and scope == "model" and (hash_(tid) + len(dn)) % 3:
                continue        # quick: each statement goes to a third of the driver dialects
            s, expected, fam = builder.build(stmt, names, fresh_objects=fresh)
            fsig = dict(spec="ParamStyle", style=d.paramstyle, scope=scope, family=fam, kinds=kinds, names=ncls, dialect=dn)
            try:
                fsql, fparams = deliver_foreign(d, s)
            except (KeyError, AssertionError) as ex_:
                chk.violation(dict(fsig, action="expand", error="%s" % type(ex_).__name__, clauses=clauses),
                              "%s: compiling / expanding [%s] names %r raises %s(%s)" % (dn, clauses, [names[b] for b in bs], type(ex_).__name__, ex_),
                              dict(stmt=stmt, names=names, dialect=dn))
                continue
            toks, problems = tokenize(re.sub(r"::\w+( \w+)*", "", fsql), expected)
            if problems:
                chk.machinery("tokenizer (%s): %s in %s" % (dn, problems, fsql))
            style = d.paramstyle
            p = [[k, v] for k, v in fparams.items()] if isinstance(fparams, dict) else list(fparams)
            ntr += 1
            tid2 = "%s/%s" % (tid, dn)
            trace_meta[tid2] = (fsig, clauses, names, fsql, p, stmt)
            tf.write(json.dumps(dict(id=tid2, style=style, sql=[{k: v for k, v in t_.items() if k != "tag"} for t_ in toks], params=p)) + "\n")
        if len(samples) < 3 and len(stmt["occ"]) >= 3 and "expanding" in kinds:
            samples.append(dict(clauses=clauses, names=[names[b] for b in bs], delivered={s_: [str(x) for x in logs[s_][0]] if logs[s_] else None for s_ in ("qmark", "numeric", "pyformat")}))

    import time
    t_replay = time.time()
    todo = list(enumerate(stmts))
    if chk.quick:           # every statement of <=2 occurrences, a seeded sample of the larger ones (TLC has checked all of them)
        small = [x for x in todo if len(x[1]["occ"]) <= 2]
        large = [x for x in todo if len(x[1]["occ"]) > 2]
        rng.shuffle(large)
        todo = small + large[:300]
    for i, stmt in todo:
        names = NAMES_ESC if i % 2 else NAMES_PLAIN
        one("m%d" % i, stmt, names, "model")
    # ---- names that need escaping: a fixed shape (two plain binds in SELECT list and WHERE, one expanding IN with 2 values)
    shape = dict(occ=[dict(c="sel", b=1), dict(c="where", b=2), dict(c="in", b=3), dict(c="sel2", b=1)],
                 binds=[dict(kind="plain", n=0), dict(kind="plain", n=0), dict(kind="expanding", n=2)])
    if chk.quick:           # every colliding name set, a seeded sample of the others
        ok_cases = [c for c in name_cases if c["distinct"]]
        rng.shuffle(ok_cases)
        name_cases = [c for c in name_cases if not c["distinct"]] + ok_cases[:80]
    for i, nc in enumerate(name_cases):
        names = {1: nc["names"][0], 2: nc["names"][1], 3: nc["names"][2]}
        esc = lambda n: re.sub(r"[%():\[\]. ]", lambda m_: {"%": "P", "(": "A", ")": "Z", ":": "C"}.get(m_.group(0), "_"), n)
        e1, e2, e3 = (esc(n) for n in nc["names"])
        kinds_ = (["escape"] if len({e1, e2, e3}) < 3 else []) + (["expanded"] if {e3 + "_1", e3 + "_2"} & {e1, e2} else [])
        if bool(kinds_) == nc["distinct"]:
            chk.machinery("the harness and ParamStyle.tla disagree on whether %r collide" % (nc["names"],))
        one("n%d" % i, shape, names, "names-distinct-keys" if nc["distinct"] else "names-colliding-keys:" + "+".join(kinds_))
    tf.close()
    # ------------------------------------------------------------------ TLC: trace validation of everything the cursors received
    cfg = tlc.cfg(constants=dict(Mode=tlc.q("trace"), MaxOcc=1, NBinds=1, Family=tlc.q("select")),
                  invariants=["TraceCorrect", "TraceAccepted", "TraceStyle"])
    rt = tlc.run("ParamStyle", cfg, os.path.join(chk.work, "tlc-trace"), workers=1, timeout=1200 if chk.quick else 3000,
                 env={"PARAM_TRACES": trace_path}, extra=["-continue"], keep_stdout=False)
    runs["trace"] = dict(distinct=rt.distinct, generated=rt.generated, violated=rt.violated, wall_s=round(rt.wall, 1))
    if len(rt.json) != ntr:
        chk.machinery("trace validation: %d traces written, TLC judged %d" % (ntr, len(rt.json)))
    nbad = 0
    for o in rt.json:
        if o["correct"] and o["accepts"] and o["style"]:
            continue
        nbad += 1
        sig, clauses, names, sql, params, stmt = trace_meta[o["id"]]
        why = [k for k in ("correct", "accepts", "style") if not o[k]]
        chk.violation(dict(sig, action="delivery", failed="+".join(why), clauses=clauses),
                      "TLC rejects the delivery (%s) of [%s] names %r under %s: %s | %r"
                      % ("+".join("Trace" + w.capitalize() for w in why), clauses, sorted(set(names.values()))[:4], sig["style"], " ".join(sql.split())[:300], params),
                      dict(stmt=stmt, names=names, sql=sql, params=str(params), id=o["id"]))
    if rt.violated and not nbad:
        chk.machinery("TLC reports %s but no rejected trace was printed" % rt.violated)
    need = ["cte", "sel", "subq", "where", "in", "having", "order", "limit", "offset", "pct", "values", "values2", "set", "dwhere", "din", "returning"]
    for c in need:
        if not cov.get(c):
            chk.machinery("vacuous: no statement with a parameter in %s" % c)
    for e in list(engines.values()) + [ref_engine]:
        e.dispose()
    return chk.finish(
        dict(states=sum(r.distinct for r in rm) + rn.distinct + rt.distinct, transitions=sum(r.generated for r in rm) + rn.generated + rt.generated,
             traces_validated_against_impl=ntr, statements=len(stmts), statements_replayed=len(todo), replay_wall_s=round(time.time() - t_replay, 1), name_cases=len(name_cases), evaluations=nexec + ntr,
             sqlite_executions=nexec, distinct_nontrivial=sensitive, clause_coverage=cov, samples=samples, tlc_runs=runs, exhaustive=True,
             rule="one case per statement (sequence of clause occurrences x bind kinds) TLC initial state; executed under six paramstyles; "
                  "non-trivial = exchanging the values of two binds changes the rows of the statement (measured with inline values)",
             checker_cmd="tlc ParamStyle.tla (Mode model | names | trace)"),
        assumptions=["only sqlite3 executes; format / pyformat / numeric / numeric_dollar through the harness's placeholder translator",
                     "PostgreSQL / MySQL driver dialects (psycopg2, psycopg, asyncpg, pg8000, pymysql, mysqlclient, mariadb-connector): delivery "
                     "assembled by the real DefaultExecutionContext._init_compiled over a fake connection, validated by TLC, not executed",
                     "bounded: statements of <=%d occurrences" % (3 if chk.quick else 4)])
