"""C50 ordering lists and association proxies behave as their collection types - PyCollections.tla (DESIGN 3.10, 4 "C49, C50, C54").

Two bindings of the list / set / dict semantics of PyCollections.tla (calibrated against the builtins, exit 2 on disagreement):
* single operations, exhaustive argument space (InitSlice / InitListOps / InitSetOps / InitDictOps) on fresh in-memory
  collections: an ordering_list relationship (contents = model AND position attribute == index after every operation, for
  count_from 0 and 1, reorder_on_append on and off) and the list / set / dict association-proxy views (contents, return
  value, exception class = model);
* operation SEQUENCES with persistence (NextOrd / NextPList / NextPSet / NextPDict: operations + Persist + Rollback; TLC
  checks that the database changes only at Persist, then equals the in-memory value, and that Rollback restores it):
  every edge replayed on a real SQLite file - after each step contents and positions, after each Persist the rows read by
  a SECOND raw connection (values, keys, positions 0..n-1) and the collection as loaded by a fresh session.
"""
import random
import time

from checks import pycoll_common as pc

LEVEL = "model_checking"
MANIFEST = dict(
    text="PyCollections.tla (list/set/dict semantics calibrated against CPython) is bound to ext.orderinglist and ext.associationproxy: every "
         "enumerated operation x argument case (slices with any start/stop/step, insert/pop/remove/extend/+=/sort/reverse, set operators over "
         "iterables with duplicates, dict pop/popitem/setdefault/update; ~100k cases) runs on a fresh ordering_list relationship (contents and "
         "position==index) and on list/set/dict proxy views; persisted-collection state machines (operations + Persist + Rollback, TLC-checked: "
         "database changes only on flush and then equals memory, rollback restores) are replayed edge by edge on SQLite with the rows read "
         "through a second connection and a fresh-session reload after every Persist.",
    design_ref="3.10, 4 (C50), 6 (C50)",
    note="trusted: TLC, builtin list/set/dict as calibration oracle, sqlite3; SQLite only; proxies over a one-to-many relationship with "
         "delete-orphan (list proxy over an ordering_list so that reload order is defined); proxy sort()/reverse() are documented as "
         "unsupported and excluded; a fresh object per appended element (the documented reorder_on_append=False caveat is not exercised)",
    technique="TLA+ spec (PyCollections.tla + PySlice.tla) + TLC enumeration and state machines with action properties; oracle calibration; "
              "spec->code replay of every case and every state-graph edge against SQLite")

FLAVOURS = [("ordering", dict()), ("ordering", dict(reorder_on_append=True, count_from=1)), ("plist", dict()), ("pset", dict()), ("pdict", dict())]
KIND = {"ordering": "list", "plist": "list", "pset": "set", "pdict": "dict"}
WALKLEN = 40          # tours may be longer than the TLC depth bound: they are walks in the dumped graph
PROPS = ["DbOnlyByPersist", "PersistStoresValue", "RollbackRestores"]


def applicable(flavour, kind, case):
    op = case["op"]
    n = op["n"]
    if n in ("kset", "kremove"):
        return False
    if flavour == "ordering":
        if n == "imul":
            return False                       # the same object cannot sit at two positions
        if n == "count" and len(set(case["val"])) != len(case["val"]):
            return False                       # members are distinct objects: count() by label is not comparable
    if flavour == "plist" and n in ("sort", "reverse"):
        return False                           # documented: "Not supported, use sorted(mylist)"
    if kind == "set" and op["kd"] == "self":
        return False                           # a proxy collection cannot be built stand-alone
    return True


def _sig(flavour, kw, op, cls, exp, n_old, argform, seq=False):
    s = {"spec": "PyCollections", "kind": "conformance-seq" if seq else "conformance", "coll": flavour, "cls": cls,
         "exc": (exp or {}).get("exc"), "count_from": kw.get("count_from", 0), "reorder_on_append": bool(kw.get("reorder_on_append"))}
    s.update(pc.op_sig(op, n_old, argform))
    if op["n"] in ("setitem", "getitem", "delitem", "insert", "pop"):
        a = pc.dec(op["a"])
        s["index_negative"] = a is not None and a < 0
    if op["n"] == "imul":
        s["n"] = op["a"]
    return s


def main(chk):
    from checks import pycoll_ext as pe
    rng = random.Random(chk.seed)
    q = chk.quick
    cs = pc.consts(MaxLen=3, Hi=4, MaxVal=2, K=3) if q else pc.consts(MaxLen=4, Hi=6, MaxVal=3, K=3)
    cset = dict(cs, K=2, MaxLen=3) if q else dict(cs, K=3, MaxLen=3)
    cdict = dict(cs, K=2, MaxLen=2) if q else dict(cs, K=3, MaxLen=3)
    plans = [("InitSlice", ["SliceCaseOK"], cs, "list"), ("InitListOps", ["ListCaseOK"], cs, "list"),
             ("InitSetOps", ["SetCaseOK"], cset, "set"), ("InitDictOps", ["DictCaseOK"], cdict, "dict")]
    t0 = time.time()
    timing = {}
    outs = pc.tlc_cases_parallel(chk, [(p[0], p[1], p[2]) for p in plans])
    timing["tlc_cases_s"] = round(time.time() - t0, 1)
    states = trans = ncal = 0
    runs, samples, vclasses = [], [], {}
    by_kind = {"list": [], "set": [], "dict": []}
    for (init, invs, c, kind), (cases, r) in zip(plans, outs):
        if r.violated:
            chk.violation({"spec": "PyCollections", "action": "TLC", "invariant": r.violated, "cfg": init},
                          "TLC: %s violated in PyCollections.tla (%s)" % (r.violated, init))
        ncal += pc.calibrate(chk, cases, init)
        states += r.distinct
        trans += r.generated
        runs.append({"cfg": init, "constants": {k: c[k] for k in ("MaxLen", "Hi", "MaxVal", "K")}, "distinct": r.distinct,
                     "generated": r.generated, "cases": len(cases), "wall_s": round(r.wall, 1)})
        by_kind[kind] += cases
    for kind, need in (("list", ["setslice", "delslice", "insert", "pop", "remove", "extend", "iadd", "sort", "reverse", "setitem", "assign"]),
                       ("set", ["update", "ior", "isub", "iand", "ixor", "symmetric_difference_update", "pop"]),
                       ("dict", ["pop", "popd", "popitem", "setdefault", "update", "setitem", "delitem"])):
        seen = {c["op"]["n"] for c in by_kind[kind]}
        for a in need:
            if a not in seen:
                chk.machinery("vacuous: %s operation %s never enumerated" % (kind, a))
    # ---- single operations, in memory
    evaluations = 0
    nontrivial = set()
    per = {}
    for flavour, kw in FLAVOURS:
        fx = pe.ExtFixture(chk.work + "/mem", flavour, **kw)
        n = 0
        for i, case in enumerate(by_kind[fx.kind]):
            if not applicable(flavour, fx.kind, case):
                continue
            op, exp = case["op"], case["exp"]
            forms = ("list", "iter") if op["n"] in ("extend", "iadd", "setslice") else ("list",)
            for form in forms:
                m = pe.run_case(fx, case, argform=form)
                n += 1
                if exp["add"] or exp["rem"] or exp["exc"] != "none":
                    nontrivial.add((flavour, str(case["val"]), str(sorted(op.items()))))
                if m:
                    sig = _sig(flavour, kw, op, m[0], exp, len(case["val"]), form)
                    sig["legacy_algorithm"] = getattr(fx, "legacy", None)
                    vk = "%s%s %s %s" % (flavour, kw or "", op["n"], m[0])
                    vclasses[vk] = vclasses.get(vk, 0) + 1
                    chk.violation(sig, "%s %r: %s on %r: %s" % (flavour, kw, op["n"], case["val"], m[1]),
                                  {"sig": sig, "flavour": flavour, "options": kw, "case": case, "argform": form, "mismatch": m[1]})
        fx.close()
        per["%s%s" % (flavour, kw or "")] = n
        evaluations += n
    timing["replay_cases_s"] = round(time.time() - t0 - timing["tlc_cases_s"], 1)
    t1 = time.time()
    # ---- sequences with persistence: model check + every edge on SQLite
    depth = 5 if q else 6
    gplans = [("ordering", dict(), "InitOrdE", "NextOrd", "PListEdgeOK", pc.consts(K=1, MaxLen=3, MaxDepth=depth)),
              ("ordering", dict(reorder_on_append=True, count_from=1), "InitOrdE", "NextOrd", "PListEdgeOK", None),
              ("plist", dict(), "InitOrdE", "NextPList", "PListEdgeOK", pc.consts(K=1, MaxLen=3, MaxDepth=depth)),
              ("pset", dict(), "InitPSetE", "NextPSet", "PSetEdgeOK", pc.consts(K=2, MaxLen=3, MaxDepth=depth - 1)),
              ("pdict", dict(), "InitOrdE", "NextPDict", "PDictEdgeOK", pc.consts(K=2, MaxLen=2, MaxDepth=depth - 1))]
    if q:
        gplans = [p for p in gplans if p[5] is not None]      # quick: the count_from=1 / reorder_on_append variant runs on single operations only
    todo = [p for p in gplans if p[5] is not None]
    gs = pc.dump_graphs_parallel(chk, [(p[2], p[3], p[5], [], [p[4]] + PROPS) for p in todo])
    timing["tlc_graphs_s"] = round(time.time() - t1, 1)
    t1 = time.time()
    gmap = {}
    for p, g in zip(todo, gs):
        gmap[p[3]] = (g, p[5])
        if g.tlc.violated:
            chk.violation({"spec": "PyCollections", "action": "TLC", "invariant": g.tlc.violated, "cfg": p[3]},
                          "TLC: %s violated in PyCollections.tla (%s)" % (g.tlc.violated, p[3]))
        states += g.tlc.distinct
        trans += g.tlc.generated
        acts = {e[1]["op"]["n"] for e in g.edges}
        for a in ("persist",) if p[3] == "NextPDict" else ("persist", "rollback"):
            if a not in acts:
                chk.machinery("vacuous: %s has no %s edge" % (p[3], a))
    graphs = []
    walks_total = steps_total = 0
    for flavour, kw, init, nxt, prop, c in gplans:
        g, c = gmap[nxt]

        def mk(wid, wd, flavour=flavour, kw=kw):
            return pe.ExtSeqDriver(pe.ExtFixture(wd, flavour, **kw), random.Random(chk.seed * 1000 + wid))
        stats, mism = pc.replay_every_edge(g, WALKLEN, rng, mk, chk.work + "/seq_%s_%d" % (flavour, len(graphs)),
                                           n_random=100 if q else 1000)
        walks_total += stats["walks"]
        steps_total += stats["steps"]
        if stats["edges_not_executed"] > 0 and not stats["edges_failing"]:
            chk.machinery("replay left %d edges unexecuted: %r" % (stats["edges_not_executed"], stats))
        for m in mism:
            op = m["act"]["op"]
            sig = _sig(flavour, kw, op, m["cls"], m["act"].get("exp"), len(pc.Items(KIND[flavour], m["from"]["val"])), m["argform"], seq=True)
            sig["legacy_algorithm"] = m.get("legacy")
            vk = "seq %s%s %s %s" % (flavour, kw or "", op["n"], m["cls"])
            vclasses[vk] = vclasses.get(vk, 0) + 1
            chk.violation(sig, "%s %r, step %d of a sequence: %s: %s" % (flavour, kw, m["step"], op["n"], m["mismatch"]), m)
        graphs.append({"flavour": flavour, "options": kw, "cfg": nxt, "distinct": g.tlc.distinct, "generated": g.tlc.generated,
                       "edges": len(g.edges), "replay": stats})
    timing["replay_graphs_s"] = round(time.time() - t1, 1)
    w = [e[1]["op"]["n"] for e in gmap["NextOrd"][0].edges[:6]]
    samples.append({"ordering_sequence_ops": w})
    samples.append(by_kind["list"][(chk.seed * 7919 + 11) % len(by_kind["list"])])
    return chk.finish(
        dict(states=states, transitions=trans, traces_validated_against_impl=evaluations + walks_total, distinct_nontrivial=len(nontrivial),
             evaluations=evaluations + steps_total, samples=samples, tlc_runs=runs, graphs=graphs, cases_per_flavour=per,
             calibrated_against_builtin=ncal, sequence_walks=walks_total, sequence_steps=steps_total, mismatch_classes=vclasses,
             exhaustive=True, timing=timing,
             rule="one case per TLC initial state (container x operation x arguments), non-trivial = adds/removes an element or raises; "
                  "every labelled edge of the persisted-collection machines replayed on SQLite (a walk ends at its first mismatch; edges "
                  "behind a failing edge are re-planned)",
             checker_cmd="tlc PyCollections.tla (INIT InitSlice|InitListOps|InitSetOps|InitDictOps; InitOrdE/NextOrd|NextPList|NextPSet|NextPDict)"),
        assumptions=["SQLite only; one-to-many association with delete-orphan; list proxy backed by an ordering_list",
                     "bounded: collections <= %d elements, indices -%d..%d, sequences <= %d steps" % (cs["MaxLen"], cs["Hi"], cs["Hi"], depth),
                     "association proxy list sort()/reverse() raise NotImplementedError by documented design: excluded",
                     "dict proxy contents after a whole-collection assignment are compared without order"])
