"""Driver binding ConnFault.tla to a real Connection on a QueuePool(2, 0) over fault-injecting sqlite3 connections."""
import logging
import os
import sqlite3
import warnings

from checks.faultdb import Plan, FConn


class VClock:
    """virtual time for sqlalchemy.pool.base: strictly increasing, so 'opened before the failure' never depends on the wall clock"""
    def __init__(self):
        self.t = 1000.0

    def time(self):
        self.t += 1.0
        return self.t


class Driver:
    def __init__(self, wid, workdir, listener="none"):
        os.makedirs(workdir, exist_ok=True)
        self.path = os.path.join(workdir, "db.sqlite")
        if os.path.exists(self.path):
            os.unlink(self.path)
        self.obs = sqlite3.connect(self.path, isolation_level=None)
        self.obs.execute("create table t (id integer primary key)")
        import sqlalchemy as sa
        import sqlalchemy.pool.base as pb
        self.sa = sa
        pb.time = VClock()
        logging.getLogger("sqlalchemy").addHandler(logging.NullHandler())
        self.listener = listener
        self.engine = None
        self.conn = None
        self.handles = []
        self.plan = None

    def _listen(self, eng):
        L = self.listener
        if L == "none":
            return
        from sqlalchemy import event

        @event.listens_for(eng, "handle_error")
        def handle(ctx):
            if L == "undisc":
                ctx.is_disconnect = False
            elif L == "todisc":
                if "injected" in str(ctx.original_exception):
                    ctx.is_disconnect = True
            elif L == "nopool":
                ctx.invalidate_pool_on_disconnect = False

    def reset(self, state):
        sa = self.sa
        if self.conn is not None:
            try:
                self.conn.close()
            except Exception:
                pass
        if self.engine is not None:
            self.engine.dispose()
        self.obs.execute("delete from t")
        self.plan = plan = Plan()
        path = self.path
        self.engine = sa.create_engine("sqlite://", creator=lambda: FConn(plan, path, autocommit=False),
                                       poolclass=sa.pool.QueuePool, pool_size=2, max_overflow=0, pool_reset_on_return="rollback")
        self._listen(self.engine)
        self.conn = self.engine.connect()
        c2 = self.engine.connect()
        c2.close()
        self.handles = []

    def _call(self, fn):
        with warnings.catch_warnings(record=True) as w:
            warnings.simplefilter("always")
            try:
                res = fn()
                ret = "ok"
            except Exception as e:
                res = None
                ret = type(e).__name__
        if any(issubclass(x.category, self.sa.exc.SAWarning) for x in w):
            ret += "+warn"
        return ret, res

    def step(self, frm, act, to):
        a = act["a"]
        c = self.conn
        sa = self.sa
        nh = len(frm["h"])
        f = act.get("f", "none")
        if f != "none":
            self.plan.arm("disconnect" if f == "disc" else "error")
        try:
            if a == "Begin":
                ret, res = self._call(c.begin)
            elif a == "BeginNested":
                ret, res = self._call(c.begin_nested)
            elif a == "Exec":
                k = frm["nrow"] + 1
                ret, res = self._call(lambda: c.execute(sa.text("insert into t (id) values (:k)"), {"k": k}))
            elif a == "ConnCommit":
                ret, res = self._call(c.commit)
            elif a == "ConnRollback":
                ret, res = self._call(c.rollback)
            elif a in ("H_commit", "H_rollback", "H_close"):
                h = self.handles[act["arg"] - 1]
                ret, res = self._call(getattr(h, a[2:]))
            elif a == "Close":
                ret, res = self._call(c.close)
            else:
                return "unknown action %r" % a
            # keep program-held handles index-aligned with the spec's handle list: an (auto)begun root precedes the savepoint
            for hrec in to["h"][nh:]:
                if hrec["kind"] == "root":
                    self.handles.append(res if a == "Begin" else c.get_transaction())
                else:
                    self.handles.append(res)
        finally:
            self.plan.disarm()
        if len(self.handles) != len(to["h"]):
            return "handle list out of step: program holds %d, spec %d" % (len(self.handles), len(to["h"]))
        if ret != act["ret"]:
            return "call outcome %r, spec %r" % (ret, act["ret"])
        o = act["obs"]
        try:
            pc = c._dbapi_connection
            cur = 0
            if pc is not None and pc.dbapi_connection is not None:
                cur = pc.dbapi_connection.id
            got = {"closed": c.closed, "inv": c.invalidated,
                   "intx": (not c.closed) and c.in_transaction(),
                   "innested": (not c.closed) and c.in_nested_transaction(),
                   "cur": cur, "open": sorted(self.plan.open)}
        except Exception as e:
            return "observer raised %r" % e
        got["committed"] = sorted(r[0] for r in self.obs.execute("select id from t"))
        exp = {"closed": o["closed"], "inv": o["inv"], "intx": o["intx"], "innested": o["innested"], "cur": o["cur"],
               "open": sorted(o["open"]), "committed": sorted(o["committed"])}
        if got != exp:
            return "observed %r, spec %r" % (got, exp)
        return None

    def close(self):
        try:
            if self.conn is not None:
                self.conn.close()
            if self.engine is not None:
                self.engine.dispose()
            self.obs.close()
        except Exception:
            pass
