"""A tiny precedence-aware SQL expression parser + a normal form for expression trees (C01, compile-only dialects).

The parser reads the column expression a dialect compiler rendered (literal_binds) back into a tree using ONLY the
precedence relations every backend grammar agrees on:

    unary minus  >  * / %  >  + -  >  (||)  >  comparison level  >  NOT  >  AND  >  OR      (binary operators left-associative)

where "comparison level" = {= != <> < <= > >=, IS [NOT] NULL, [NOT] BETWEEN, [NOT] IN, [NOT] LIKE}.  Wherever the backends
DISAGREE the text must not rely on precedence at all, so the parser refuses it (Ambiguous):
  * two comparison-level operators chained without parentheses (PostgreSQL: non-associative / IS lower than =; MySQL:
    BETWEEN lower than =; SQLite: < tighter than =);
  * || next to arithmetic without parentheses (SQLite: || tighter than *; PostgreSQL: looser than +; Oracle: same as +).
The parsed tree and the input tree are compared in a NORMAL FORM that forgets exactly what the specification proves
irrelevant (SqlExpr.tla ASSUMEs): association of AND / OR / + / * / ||, NOT pushed into a comparison-level operator,
double negation of predicates, TRUE / FALSE operands of AND / OR.
"""
import re

NULL = 99


class Ambiguous(Exception):
    pass


class Unparsed(Exception):
    pass


_TOK = re.compile(r"""\s*(?:
    (?P<num>\d+(?:\.\d+)?) |
    (?P<str>'(?:[^']|'')*') |
    (?P<op>\|\||<=|>=|!=|<>|=|<|>|\+|-|\*|/|%|\(|\)|,) |
    (?P<id>[A-Za-z_][A-Za-z_0-9]*(?:\.[A-Za-z_][A-Za-z_0-9]*)?)
)""", re.X)
KEYWORDS = {"AND", "OR", "NOT", "IS", "NULL", "BETWEEN", "IN", "LIKE", "CASE", "WHEN", "THEN", "ELSE", "END", "CAST", "AS", "SELECT",
            "FROM", "TRUE", "FALSE"}
CMP = {"=": "eq", "!=": "ne", "<>": "ne", "<": "lt", "<=": "le", ">": "gt", ">=": "ge"}
ARITH = {"add", "sub", "mul", "idiv", "mod", "neg"}
NEGATED = {"eq": "ne", "ne": "eq", "lt": "ge", "ge": "lt", "gt": "le", "le": "gt", "isnull": "notnull", "notnull": "isnull",
           "between": "nbetween", "nbetween": "between", "in": "notin", "notin": "in", "like": "nlike", "nlike": "like"}
ASSOC = {"and", "or", "add", "mul", "concat"}
COLNAMES = {"t.a": ("col", "a"), "t.b": ("col", "b"), "t.s": ("col", "s"), "t.u": ("col", "u")}


def lex(text):
    out = []
    pos = 0
    text = text.strip()
    while pos < len(text):
        m = _TOK.match(text, pos)
        if not m or m.end() == pos:
            raise Unparsed("cannot tokenise at %r" % text[pos:pos + 20])
        pos = m.end()
        if m.group("op") == "-" and text[pos:pos + 1] == "-":
            raise Ambiguous("'--' starts a comment in SQL")
        if m.group("num") is not None:
            out.append(("num", m.group("num")))
        elif m.group("str") is not None:
            out.append(("str", m.group("str")[1:-1].replace("''", "'")))
        elif m.group("op") is not None:
            out.append(("op", m.group("op")))
        else:
            w = m.group("id")
            out.append(("kw", w.upper()) if w.upper() in KEYWORDS else ("id", w))
    out.append(("eof", None))
    return out


class Parser:
    """Pratt parser producing trees in normal-form vocabulary (before `norm`): tuples (kind, *children)."""

    def __init__(self, text, concat_is_plus=False):
        self.t = lex(text)
        self.i = 0
        self.concat_is_plus = concat_is_plus
        self.paren = set()       # id() of nodes that were written inside their own parentheses

    def peek(self, k=0):
        return self.t[min(self.i + k, len(self.t) - 1)]

    def next(self):
        tok = self.t[self.i]
        self.i += 1
        return tok

    def accept(self, typ, val=None):
        tok = self.peek()
        if tok[0] == typ and (val is None or tok[1] == val):
            self.i += 1
            return True
        return False

    def expect(self, typ, val=None):
        if not self.accept(typ, val):
            raise Unparsed("expected %s %s, found %r" % (typ, val, self.peek()))

    def parse(self):
        e = self.expr(0)
        if self.peek()[0] != "eof":
            raise Unparsed("trailing input %r" % (self.peek(),))
        return e

    # ---- helpers for the ambiguity rules
    def _bare(self, node, kinds):
        return isinstance(node, tuple) and node[0] in kinds and id(node) not in self.paren

    def _mk_concat(self, a, b):
        if self._bare(a, ARITH) or self._bare(b, ARITH):
            raise Ambiguous("|| next to unparenthesised arithmetic")
        return ("concat", a, b)

    def _mk_arith(self, k, a, b):
        if self._bare(a, {"concat"}) or self._bare(b, {"concat"}):
            raise Ambiguous("arithmetic next to unparenthesised ||")
        return (k, a, b)

    def _cmp_follows(self):
        tok = self.peek()
        if tok[0] == "op" and tok[1] in CMP:
            return True
        if tok[0] == "kw" and tok[1] in ("IS", "BETWEEN", "IN", "LIKE"):
            return True
        if tok[0] == "kw" and tok[1] == "NOT" and self.peek(1)[0] == "kw" and self.peek(1)[1] in ("BETWEEN", "IN", "LIKE"):
            return True
        return False

    def expr(self, min_bp):
        tok = self.next()
        # ---------------- prefix
        if tok == ("kw", "NOT"):
            left = ("not", self.expr(30))
        elif tok == ("op", "-"):
            left = ("neg", self.expr(80))
        elif tok == ("op", "+"):
            left = self.expr(80)
        elif tok[0] == "num":
            left = ("num", float(tok[1]) if "." in tok[1] else int(tok[1]))
        elif tok[0] == "str":
            left = ("str", tok[1])
        elif tok == ("kw", "NULL"):
            left = ("null",)
        elif tok == ("kw", "TRUE"):
            left = ("num", 1)
        elif tok == ("kw", "FALSE"):
            left = ("num", 0)
        elif tok == ("kw", "CASE"):
            self.expect("kw", "WHEN")
            c = self.expr(0)
            self.expect("kw", "THEN")
            x = self.expr(0)
            self.expect("kw", "ELSE")
            y = self.expr(0)
            self.expect("kw", "END")
            left = ("case", c, x, y)
        elif tok == ("kw", "CAST"):
            self.expect("op", "(")
            x = self.expr(0)
            self.expect("kw", "AS")
            while self.peek()[0] == "id":
                self.next()
            self.expect("op", ")")
            left = ("cast", x)
        elif tok == ("op", "("):
            if self.accept("kw", "SELECT"):
                x = self.expr(0)
                if self.accept("kw", "AS"):
                    self.expect("id")
                if self.accept("kw", "FROM"):
                    self.expect("id")
                self.expect("op", ")")
                left = ("subq", x)
            else:
                left = self.expr(0)
                self.expect("op", ")")
                if isinstance(left, tuple):
                    left = tuple(left)          # a fresh object so that the flag is per occurrence
                    self.paren.add(id(left))
        elif tok[0] == "id":
            if self.accept("op", "("):
                args = []
                if not self.accept("op", ")"):
                    while True:
                        args.append(self.expr(0))
                        if self.accept("op", ")"):
                            break
                        self.expect("op", ",")
                fn = tok[1].lower()
                if fn == "mod" and len(args) == 2:
                    left = ("mod", args[0], args[1])
                elif fn == "concat" and len(args) >= 2:
                    left = args[0]
                    for a in args[1:]:
                        left = ("concat", left, a)
                elif fn == "floor" and len(args) == 1:
                    # FLOOR(x / y) is how "//" is spelled where "/" is not integer division
                    left = args[0] if args[0][0] == "idiv" else ("floor", args[0])
                else:
                    raise Unparsed("unknown function %s/%d" % (fn, len(args)))
                self.paren.add(id(left))
            elif tok[1] in COLNAMES:
                left = COLNAMES[tok[1]]
            else:
                raise Unparsed("unknown identifier %r" % tok[1])
        else:
            raise Unparsed("unexpected token %r" % (tok,))
        # ---------------- infix / postfix
        while True:
            tok = self.peek()
            if tok == ("kw", "OR") and min_bp <= 10:
                self.next()
                left = ("or", left, self.expr(11))
            elif tok == ("kw", "AND") and min_bp <= 20:
                self.next()
                left = ("and", left, self.expr(21))
            elif self._cmp_follows() and min_bp <= 40:
                tok = self.next()
                neg = False
                if tok == ("kw", "NOT"):
                    neg = True
                    tok = self.next()
                if tok[0] == "op":
                    left = (CMP[tok[1]], left, self.expr(41))
                elif tok[1] == "IS":
                    n = self.accept("kw", "NOT")
                    self.expect("kw", "NULL")
                    left = ("notnull" if n else "isnull", left)
                elif tok[1] == "BETWEEN":
                    lo = self.expr(41)
                    self.expect("kw", "AND")
                    hi = self.expr(41)
                    left = ("nbetween" if neg else "between", left, lo, hi)
                elif tok[1] == "LIKE":
                    left = ("nlike" if neg else "like", left, self.expr(41))
                elif tok[1] == "IN":
                    self.expect("op", "(")
                    items = []
                    if not self.accept("op", ")"):
                        while True:
                            items.append(self.expr(0))
                            if self.accept("op", ")"):
                                break
                            self.expect("op", ",")
                    left = ("notin" if neg else "in", left, tuple(items))
                if self._cmp_follows():
                    raise Ambiguous("comparison-level operators chained without parentheses")
            elif tok == ("op", "||") and min_bp <= 50:
                self.next()
                left = self._mk_concat(left, self.expr(51))
            elif tok[0] == "op" and tok[1] in ("+", "-") and min_bp <= 60:
                self.next()
                right = self.expr(61)
                left = self._mk_arith("add" if tok[1] == "+" else "sub", left, right)
            elif tok[0] == "op" and tok[1] in ("*", "/", "%") and min_bp <= 70:
                self.next()
                right = self.expr(71)
                left = self._mk_arith({"*": "mul", "/": "idiv", "%": "mod"}[tok[1]], left, right)
            else:
                return left


def parse_sql(text, concat_is_plus=False):
    return Parser(text, concat_is_plus).parse()


# ----------------------------------------------------------------------------- input tree -> same vocabulary
def from_node(n, strlits, concat_is_plus=False):
    k, v, K = n.k, n.v, n.kids
    rec = lambda c: from_node(c, strlits, concat_is_plus)  # noqa: E731
    if k == "col":
        return ("col", "ab"[v])
    if k == "scol":
        return ("col", "su"[v])
    if k == "lit":
        return ("null",) if v == NULL else ("num", v)
    if k == "slit":
        s = strlits[v - 1]
        return ("null",) if s is None else ("str", s)
    if k == "true":
        return ("num", 1)
    if k == "false":
        return ("num", 0)
    ren = {"xsub": "sub", "xadd": "add", "xmul": "mul", "seq": "eq", "sne": "ne", "sisnull": "isnull", "snotnull": "notnull"}
    k = ren.get(k, k)
    if k in ("in", "notin"):
        return (k, rec(K[0]), tuple(rec(c) for c in K[1:]))
    if k == "starts":
        return ("like", rec(K[0]), ("concat", rec(K[1]), ("str", "%")))
    if k == "ends":
        return ("like", rec(K[0]), ("concat", ("str", "%"), rec(K[1])))
    if k == "contains":
        return ("like", rec(K[0]), ("concat", ("concat", ("str", "%"), rec(K[1])), ("str", "%")))
    return (k,) + tuple(rec(c) for c in K)


PRED = {"eq", "ne", "lt", "le", "gt", "ge", "isnull", "notnull", "between", "nbetween", "in", "notin", "like", "nlike", "and", "or", "not"}


def norm(t, concat_is_plus=False):
    """normal form: see the module docstring"""
    if not isinstance(t, tuple) or t[0] in ("col", "num", "str", "null"):
        return t
    k = t[0]
    if k in ("in", "notin"):
        t = (k, norm(t[1], concat_is_plus), tuple(norm(x, concat_is_plus) for x in t[2]))
        return t
    kids = [norm(c, concat_is_plus) for c in t[1:]]
    if k == "concat" and concat_is_plus:
        k = "add"
    if k == "neg" and kids[0][0] == "num":
        return ("num", -kids[0][1])
    if k == "not":
        x = kids[0]
        if x[0] in NEGATED:
            return (NEGATED[x[0]],) + x[1:]
        if x[0] == "not":
            return x[1]
        if x == ("num", 1) or x == ("num", 0):
            return ("num", 1 - x[1])
        return ("not", x)
    if k in ("eq", "ne") and kids[0] in (("num", 0), ("num", 1)) and kids[1] == ("num", 1):
        # how TRUE / FALSE are spelled without native booleans: "1 = 1", "true = 1", "0 = 1", "false = 1", "1 != 1"
        return ("TRUE11",) if (kids[0] == kids[1]) == (k == "eq") else ("FALSE11",)
    if k == "eq" and ("num", 0) in kids and any(c[0] == "subq" for c in kids):
        # "x = 0" is how a dialect without native booleans spells NOT over a boolean scalar subquery
        return ("not", next(c for c in kids if c[0] == "subq"))
    if k in ("eq", "ne"):
        kids = sorted(kids, key=repr)          # = and != are symmetric (the mssql compiler moves a parameter to the right-hand side)
    if k in ASSOC:
        flat = []
        for c in kids:
            if c[0] == k:
                flat.extend(c[1])
            else:
                flat.append(c)
        if k in ("and", "or"):
            # the generic empty-set rendering:  x IN (NULL) AND (1 != 1)   /   x NOT IN (NULL) OR (1 = 1)
            out = []
            for c in flat:
                if (k == "and" and c == ("FALSE11",) and out and out[-1][0] == "in" and out[-1][2] == (("null",),)):
                    out[-1] = ("in", out[-1][1], ())
                elif (k == "or" and c == ("TRUE11",) and out and out[-1][0] == "notin" and out[-1][2] == (("null",),)):
                    out[-1] = ("notin", out[-1][1], ())
                else:
                    out.append(("num", 1) if c == ("TRUE11",) else ("num", 0) if c == ("FALSE11",) else c)
            unit, zero = (("num", 1), ("num", 0)) if k == "and" else (("num", 0), ("num", 1))
            if zero in out:
                return zero
            out = [c for c in out if c != unit]
            if not out:
                return unit
            flat = out
        if len(flat) == 1:
            return flat[0]
        return (k, tuple(flat))
    return (k,) + tuple(kids)


def final(t):
    """last step of the normal form: a stand-alone  1 = 1  /  1 != 1  is the constant"""
    if t == ("TRUE11",):
        return ("num", 1)
    if t == ("FALSE11",):
        return ("num", 0)
    if isinstance(t, tuple) and t and isinstance(t[0], str) and t[0] not in ("col", "num", "str", "null"):
        return (t[0],) + tuple(final(x) if isinstance(x, tuple) and x and isinstance(x[0], str) else
                               (tuple(final(y) for y in x) if isinstance(x, tuple) else x) for x in t[1:])
    return t


def normal_form(t, concat_is_plus=False):
    return final(norm(t, concat_is_plus))


def show(t):
    if not isinstance(t, tuple):
        return repr(t)
    if not t or isinstance(t[0], tuple):          # a member list (possibly empty)
        return "[" + ", ".join(map(show, t)) + "]"
    if t[0] in ("col", "num", "str"):
        return str(t[1]) if t[0] != "str" else repr(t[1])
    if t[0] == "null":
        return "NULL"
    return "%s(%s)" % (t[0], ", ".join(show(x) for x in t[1:]))
