"""C16 schema_translate_map renders the mapped schemas regardless of cache state - StmtCache.tla with schema maps (DESIGN 3.13, 4 C16)."""
import random

from checks import c02
from checks import stmtcache_driver as sd

LEVEL = "model_checking"
MANIFEST = dict(
    text="StmtCache.tla executed with schema maps {none, {s1->s2}, {None->s1}, {s1->s1}, {s1->s2, None->s1}}: a cache entry remembers the map "
         "it was compiled under (placeholders only for schemas that map could translate), the key only whether a map is in effect; TLC checks "
         "in every reachable cache state that the effective schemas, bound values and rows are those of the cache-free meaning F (rows come "
         "from the file the map points to; a map only shifts rows between files), that the only cache-dependent outcome is the documented "
         "InvalidRequestError for maps that are inconsistent about the None key, and rejects a key that ignores the map flag. Binding: all "
         "schema-capable shapes (select / subquery / CTE / union / cross-schema join / INSERT-UPDATE-DELETE..RETURNING / executemany INSERT..RETURNING with a scalar subquery on the other schema in VALUES / CREATE TABLE) x 3 "
         "valuations x 5 maps are executed cold on SQLite with two ATTACHed files and the emitted SQL must equal the SQL of the same "
         "construct built over tables that carry the translated schema names; every edge of the cache graphs of sampled groups x map subsets "
         "is replayed against an engine with query_cache_size=2 in lockstep with a cache-less engine.",
    design_ref="3.13, 4 (C16)",
    note="trusted: TLC, SQLite ATTACH as the multi-schema backend, checks/stmt_common.py; Core statements and CreateTable only (ORM entities "
         "and maps with None as a TARGET are not generated: the latter render the dialect's default schema name, `main.a`)",
    technique="TLA+ specs (StmtShapes.tla, StmtCache.tla) + TLC exhaustive over the cache graph with maps; spec->code: shape table executed "
              "on real engines + replay of every state-graph edge")
KINDS = ["sel", "ins", "upd", "del", "ddl", "insm"]
SELFTEST_GROUP = ["sel|a|eq|none|none|none", "sel|s1|in|none|none|none", "sel|xjoin|eq|none|none|none"]


def pick_plans(names, rng, n, depth):
    """a group = one statement over the schema-less table (or the cross-schema join), one over s1.a, one CREATE TABLE; executed under a
    subset of three maps so that the graph stays small; over the plans every map and every pair of map flavours occurs"""
    none_side = [x for x in names if x.split("|")[1] in ("a", "xjoin") and not x.startswith(("ddl", "insm"))]
    s1_side = [x for x in names if x.split("|")[1] == "s1" and not x.startswith(("ddl", "insm"))]
    insm = [x for x in names if x.startswith("insm")]
    ddl = [x for x in names if x.startswith("ddl")]
    triples = [["none", "s1s2", "n_s1"], ["none", "ident", "both"], ["s1s2", "n_s1", "both"], ["ident", "n_s1", "s1s2"], ["none", "both", "n_s1"],
               ["none", "s1s2", "ident"]]
    same_flavour = [["none", "s1s2", "ident"], ["s1s2", "n_s1", "both"], ["ident", "n_s1", "s1s2"]]
    plans = []
    for i in range(n):
        g = [rng.choice(none_side), rng.choice(s1_side)]
        if i % 2 == 0:
            g.append(rng.choice(ddl))
            plans.append((g, 2, triples[i % len(triples)], ["cached"], depth))
        else:
            # executemany INSERT..RETURNING whose VALUES holds a scalar subquery on the other schema's table (insertmanyvalues path),
            # under maps of which two have the same None-key flavour but send s1 to different places (a HIT with another map succeeds)
            g = [g[(i // 2) % 2], insm[(i // 2) % len(insm)]]
            plans.append((g, 2, same_flavour[(i // 2) % len(same_flavour)], ["cached"], depth))
    return plans


def main(chk):
    rng = random.Random(chk.seed)
    cap = 2
    # 1. shape table under all maps
    rt, table, vals, tc, tm = c02.table_phase(chk, KINDS, 3, sd.ALLMAPS, schema_only=True)
    calib = []
    for m in tm:
        if m["cat"] == "schema":
            chk.violation({"spec": "StmtShapes", "action": "Exec", "kind": "cold", "shape": m["shape"], "m": m["m"], "field": m["field"]},
                          "statement executed under schema map %s: %s" % (m["m"], m["text"]), m)
        elif m["cat"] == "calib":
            calib.append(m)
    if calib:
        chk.machinery("oracle calibration: StmtShapes.tla disagrees with a cold, cache-less execution WITHOUT a map on %d case(s), e.g. %s" % (
            len(calib), "; ".join("%s V%d %s: %s" % (m["shape"], m["p"], m["field"], m["text"][:200]) for m in calib[:3])))
    if chk.violations:
        # the cold executions already violate the property: the verdict is decided, the (long) graph replay adds nothing to it
        return chk.finish(dict(states=rt.distinct, transitions=rt.generated, traces_validated_against_impl=0, evaluations=tc.n,
                               shape_cases_executed_cold=tc.n, samples=[v[1] for v in chk.violations[:3]],
                               graph_phase="skipped: the shape table already shows violations"), assumptions=[])
    names = sorted(table)
    ncold_mapped = sum(1 for c in table.values() for bym in c["cases"] for m in bym if m != "none")
    # 2. cache graphs
    depth = 5 if chk.quick else 6
    selftest = c02.faulty_selftest(chk, SELFTEST_GROUP, 2, ["none", "s1s2", "n_s1"], cap, faults=("stale_params", "key_ignores_mapflag"))
    if "key_ignores_mapflag" not in selftest:
        chk.machinery("vacuous: map-flag self-test did not run")
    plans = pick_plans(names, rng, 6 if chk.quick else 14, depth)
    G, graphs, runs, walks, extra, plan, steps, mism = c02.graph_phase(chk, plans, cap, vals, table, rng, 200 if chk.quick else 2000, depth)
    cov = c02.edge_stats(G)
    for need in ("cached/hit", "cached/miss", "cached/nokey", "hit_other_map", "evicting", "error/InvalidRequestError"):
        if not cov.get(need):
            chk.machinery("vacuous: no edge of class %s" % need)
    c02.report_mismatches(chk, mism, "execution under a schema map diverges from StmtCache.tla / the translated construct / the cache-less engine: ")
    w = max(walks, key=c02.interesting(G))
    sample = [dict(group=runs[G.states[G.edges[w[0]][0]]["g"]]["group"],
                   walk=["%s V%d map=%s -> %s/%s" % (G.edges[ei][1]["sh"], G.edges[ei][1]["p"], G.edges[ei][1]["m"], G.edges[ei][1]["out"],
                                                     G.edges[ei][1]["hit"]) for ei in w])]
    return chk.finish(
        dict(states=rt.distinct + sum(x["distinct"] for x in runs), transitions=rt.generated + sum(x["generated"] for x in runs),
             traces_validated_against_impl=len(walks) + len(extra), evaluations=steps + tc.n, shapes_enumerated=len(names),
             shape_cases_executed_cold=tc.n, cold_cases_under_a_map=ncold_mapped, tlc_runs=runs, plan=plan,
             distinct_nontrivial=cov.get("hit_other_map", 0) + cov.get("error/InvalidRequestError", 0), edge_classes=cov,
             faulty_spec_rejected_by=selftest, samples=sample, exhaustive=True,
             rule="shape table: every schema-capable shape x 3 valuations x every admissible map executed cold and compared with the "
                  "construct carrying the translated names; graphs: every labelled edge of %d groups x 3 maps replayed; non-trivial = hits on "
                  "an entry compiled under a different map, and the documented inconsistent-None-key errors" % len(plans),
             checker_cmd="tlc StmtCache.tla (INIT TableInit | INIT InitEmit, VIEW View, ACTION_CONSTRAINT Emit)"),
        assumptions=["SQLite only: schemas are ATTACHed database files main / s1 / s2 holding table a with ids offset by 0 / 10 / 20",
                     "InvalidRequestError for maps inconsistent about the None key is an allowed (documented) outcome and is predicted "
                     "exactly by the specification",
                     "maps whose target is None and ORM statements are not generated"])
