"""Driver binding PoolReset.tla to real pools over real sqlite3 (legacy pysqlite transaction control)."""
import gc
import os
import sqlite3
import warnings

from checks.faultdb import Plan, FConn


class Driver:
    def __init__(self, wid, workdir, kind=None, ror=None):
        os.makedirs(workdir, exist_ok=True)
        self.path = os.path.join(workdir, "db.sqlite")
        if os.path.exists(self.path):
            os.unlink(self.path)
        self.obs = sqlite3.connect(self.path, isolation_level=None)
        self.obs.execute("create table t (id integer primary key)")
        import sqlalchemy as sa
        self.sa = sa
        self.kind, self.ror = kind, ror
        self.engine = None
        self.conn = None
        self.raw = None
        self.ids = {}

    def reset(self, state):
        sa = self.sa
        self.conn = None
        gc.collect()
        if self.engine is not None:
            self.engine.dispose()
        self.kind, self.ror = state["kind"], state["ror"]
        self.obs.execute("delete from t")
        pc = {"queue": sa.pool.QueuePool, "null": sa.pool.NullPool, "static": sa.pool.StaticPool,
              "singleton": sa.pool.SingletonThreadPool}[self.kind]
        kw = dict(poolclass=pc, pool_reset_on_return={"rollback": "rollback", "commit": "commit", "none": None}[self.ror])
        if self.kind == "queue":
            kw.update(pool_size=1, max_overflow=0)
        self.plan = plan = Plan()
        path = self.path
        # real sqlite3 connections (pysqlite legacy transaction control) behind the fault wrapper, used only to make one
        # DBAPI commit() raise an ordinary error (CommitFail)
        self.engine = sa.create_engine("sqlite://", creator=lambda: FConn(plan, path), **kw)
        self.raw = None
        self.rawrefs = []      # keep every raw DBAPI connection alive so id() stays unique within the walk
        self.ids = {}

    def _call(self, fn):
        with warnings.catch_warnings(record=True):
            warnings.simplefilter("always")
            try:
                fn()
                ret = "ok"
            except Exception as e:
                ret = type(e).__name__
        return ret

    def step(self, frm, act, to):
        a, arg = act["a"], act["arg"]
        sa = self.sa
        if a == "Checkout":
            if arg == "conn":
                def f():
                    self.conn = self.engine.connect()
                    self.raw = self.conn.connection.dbapi_connection
            else:
                def f():
                    self.conn = self.engine.raw_connection()
                    self.raw = self.conn.dbapi_connection
            ret = self._call(f)
            if self.raw is not None and id(self.raw) not in self.ids:
                self.rawrefs.append(self.raw)
                self.ids[id(self.raw)] = len(self.ids) + 1
        elif a == "Exec":
            k = to["nrow"]
            ret = self._call(lambda: self.conn.execute(sa.text("insert into t (id) values (:k)"), {"k": k}))
        elif a == "ExecFail":
            k = sorted(frm["committed"])[0]
            ret = self._call(lambda: self.conn.execute(sa.text("insert into t (id) values (:k)"), {"k": k}))
        elif a == "Begin":
            ret = self._call(lambda: self.conn.begin() and None)
        elif a == "Commit":
            ret = self._call(self.conn.commit)
        elif a == "CommitFail":
            self.plan.arm("error")
            ret = self._call(self.conn.commit)
            self.plan.disarm()
        elif a == "Rollback":
            ret = self._call(self.conn.rollback)
        elif a == "SetIso":
            lvl = {"ru": "READ UNCOMMITTED", "ac": "AUTOCOMMIT"}[arg]
            ret = self._call(lambda: self.conn.execution_options(isolation_level=lvl) and None)
        elif a in ("Close", "RawClose"):
            ret = self._call(self.conn.close)
            self.conn = None
        elif a == "Drop":
            self.conn = None
            gc.collect()
            ret = "ok"
        elif a == "RawExec":
            k = to["nrow"]

            def f():
                cur = self.conn.cursor()
                cur.execute("insert into t (id) values (?)", (k,))
                cur.close()
            ret = self._call(f)
        elif a == "RawCommit":
            ret = self._call(self.conn.commit)
        elif a == "RawRollback":
            ret = self._call(self.conn.rollback)
        else:
            return "unknown action %r" % a
        if ret != act["ret"]:
            return "call outcome %r, spec %r" % (ret, act["ret"])
        o = act["obs"]
        raw = self.raw
        try:
            txn = raw.in_transaction
            if raw.isolation_level is None:
                iso = "ac"
            else:
                iso = "ru" if raw.execute("PRAGMA read_uncommitted").fetchone()[0] else "default"
        except sqlite3.ProgrammingError:      # closed DBAPI connection (NullPool after return)
            txn, iso = False, "default"
        got = {"txn": txn, "iso": iso, "cid": self.ids.get(id(raw), 0),
               "committed": sorted(r[0] for r in self.obs.execute("select id from t"))}
        exp = {"txn": o["txn"], "iso": o["iso"], "cid": o["cid"], "committed": sorted(o["committed"])}
        if got != exp:
            return "observed %r, spec %r" % (got, exp)
        return None

    def close(self):
        try:
            self.conn = None
            gc.collect()
            if self.engine is not None:
                self.engine.dispose()
            self.obs.close()
        except Exception:
            pass
