"""Binding of specs/Events.tla to the real sqlalchemy.event package (C28, histories part).

Every walk runs on a PRIVATE Events/target hierarchy created for that walk (fresh Events class, fresh Base <- A <- B, the
late class C made with type() when the walk says so), so nothing leaks from one walk to the next through the module-level
registries of sqlalchemy.event.  After EVERY step the driver projects the real objects onto the spec's mechanism state
(_ClsLevelDispatch._clslevel per class, kind/listeners/propagate/_exec_once of each instance collection, both directions of
registry._key_to_collection/_collection_to_key restricted to this walk's targets) and compares event.contains() for every
(target, fn) pair and the iteration order of every instance collection with the spec's Obs.
"""
import contextlib
import gc
import inspect
import os
import re

from engine import graph, tlc

EV = "ev_c28"
Y = "y-sentinel"


class Boom(Exception):
    pass


def probe_tree():
    """which of the two recorded defects the tree under test still has (decides the spec variant, never a verdict)"""
    from sqlalchemy import event, util
    from sqlalchemy.event import attr, base

    class ProbeEvents(event.Events):
        def ev_c28_probe(self, x):
            pass

    class T:
        dispatch = event.dispatcher(ProbeEvents)

    p, c = T(), T()
    c.dispatch = c.dispatch._join(p.dispatch)
    broken = not hasattr(c.dispatch.ev_c28_probe, "_is_asyncio")
    base._remove_dispatcher(ProbeEvents)
    src = inspect.getsource(attr._CompoundListener._get_exec_once_mutex)
    m = re.search(r"^\s*with (.+):\s*$", src, re.M)
    atomic = bool(m) and (m.group(1).strip() != "util.mini_gil" or not isinstance(util.mini_gil, contextlib.nullcontext))
    return {"joined_xo_broken": broken, "atomic_mutex": atomic}


class Driver:
    GC_EVERY = 150

    def __init__(self, wid, workdir):
        from sqlalchemy import event
        from sqlalchemy.event import attr, base, registry
        self.event, self.attr, self.base, self.registry = event, attr, base, registry
        self.graveyard = []       # objects of finished walks stay alive until the next periodic collection: no id() reuse
        self.nwalks = 0
        self.events_cls = None
        gc.collect()
        gc.freeze()     # the state graph held by this process is millions of long-lived objects: keep them out of every later collection
        self.baseline = self._registry_size()
        self.last_obs = None

    def _registry_size(self):
        reg = self.registry
        return (sum(1 for v in reg._key_to_collection.values() if v), sum(1 for v in reg._collection_to_key.values() if v))

    # ------------------------------------------------------------------ per-walk world
    def _teardown(self):
        if self.events_cls is not None:
            self.base._remove_dispatcher(self.events_cls)
            self.graveyard.append((self.events_cls, self.cls, self.inst, self.fns, self.wrappers))
            self.events_cls = None

    def _leak_check(self):
        """all walks so far are garbage now: the registry must be back to what it was before the first walk"""
        self._teardown()
        self.graveyard = []
        self.cls = self.inst = self.fns = self.wrappers = self.clsdisp = None
        self.dead = []
        gc.collect()
        now = self._registry_size()
        if now[0] > self.baseline[0] or now[1] > self.baseline[1]:
            return "registry leak: after garbage-collecting every target of the finished walks the registry holds %r non-empty entries, before the first walk %r" % (now, self.baseline)
        return None

    def reset(self, state):
        self._teardown()
        self.nwalks += 1
        event = self.event
        drv = self

        class TargetEvents(event.Events):
            @classmethod
            def _listen(cls, event_key, *, retval=False, **kw):
                # the pattern of engine/events.py ConnectionEvents._listen: without retval=True the return value is dropped
                if not retval:
                    fn = event_key._listen_fn

                    def drop_retval(*a, **k):
                        fn(*a, **k)
                        return None

                    event_key = event_key.with_wrapper(drop_retval)
                event_key.base_listen(**kw)

            def ev_c28(self, x, y):
                pass

        class Base:
            dispatch = event.dispatcher(TargetEvents)

        self.shape = state.get("shape", "chain")
        if self.shape == "diamond":       # Base <- L, Base <- R; the late class is M(L, R) or M(R, L)
            c2 = type("L", (Base,), {})
            c3 = type("R", (Base,), {})
        else:                             # Base <- A <- B; the late class is C(parent)
            c2 = type("A", (Base,), {})
            c3 = type("B", (c2,), {})
        self.events_cls = TargetEvents
        self.cls = {1: Base, 2: c2, 3: c3}
        self.inst = {}
        self.calls = []
        self.boom = False
        self.wrappers = {}      # id(final listener object stored in the collections) -> (fid, object)
        self.dead = []          # wrappers of removed registrations (kept alive: no id() reuse inside a walk)
        self.fns = {}
        for fid in (1, 2, 3, 4):
            self.fns[fid] = self._make_fn(fid)
        self.clsdisp = getattr(TargetEvents.dispatch, EV)
        self.last_obs = None

    def _make_fn(self, fid):
        drv = self

        def listener(*args, **kw):
            drv.calls.append((fid, args, dict(kw)))
            if drv.boom:
                drv.boom = False
                raise Boom()
            x = kw["x"] if kw else args[0]
            return x + 1

        return listener

    def _target(self, t):
        return self.cls[t] if t < 10 else self.inst[t - 10]

    def _fid(self, obj):
        e = self.wrappers.get(id(obj))
        if e is not None and e[1] is obj:
            return e[0]
        for fid, fn in self.fns.items():
            if fn is obj:
                return fid
        return "?%s" % getattr(obj, "__name__", type(obj).__name__)

    def _ev(self, k):
        return getattr(self.inst[k].dispatch, EV)

    def _coll(self, k):
        """the object that plays 'instance k's collection': the _EmptyListener/_ListenerCollection, or for a joined
        instance _JoinedListener.local"""
        ev = self._ev(k)
        if isinstance(ev, self.attr._JoinedListener):
            return ev, ev.local
        return ev, ev

    # ------------------------------------------------------------------ one step
    def step(self, frm, act, to):
        event, attr = self.event, self.attr
        a = act["a"]
        out, calls = "ok", []
        self.calls = []
        try:
            if a == "Listen":
                t, fid = act["t"], act["f"]
                tgt, fn = self._target(t), self.fns[fid]
                kw = dict(insert=act["ins"], propagate=act["prop"], named=act["named"], retval=act["retval"])
                if act["once"]:
                    kw["once"] = True
                event.listen(tgt, EV, fn, **kw)
                reg = self.registry._key_to_collection.get((id(tgt), EV, id(fn)))
                if reg:
                    for lref in reg.values():
                        w = lref()
                        if w is not None:
                            self.wrappers[id(w)] = (fid, w)
            elif a == "Remove":
                event.remove(self._target(act["t"]), EV, self.fns[act["f"]])
                for wid_, (f_, o_) in list(self.wrappers.items()):
                    if f_ == act["f"]:
                        self.dead.append(self.wrappers.pop(wid_))
            elif a == "CreateSubclass":
                if self.shape == "diamond":
                    bases = (self.cls[2], self.cls[3]) if act["t"] == 23 else (self.cls[3], self.cls[2])
                    self.cls[4] = type("M", bases, {})
                else:
                    self.cls[4] = type("C", (self.cls[act["t"]],), {})
            elif a == "NewInstance":
                k = act["t"] - 10
                obj = self.cls[act["f"]]()
                obj.dispatch  # first access builds the _Dispatch and the per-class _EmptyListeners
                if act["m"] == "join":
                    obj.dispatch = obj.dispatch._join(self.inst[1].dispatch)
                self.inst[k] = obj
            elif a == "Dispatch":
                k = act["t"] - 10
                ev = self._ev(k)
                if act["m"] == "call":
                    ev(0, Y)
                else:
                    x = 0
                    for fn in ev:
                        r = fn(x, Y)
                        if r is not None:
                            x = r
            elif a == "ExecOnce":
                k = act["t"] - 10
                d = self.inst[k].dispatch
                coll = getattr(d, EV).for_modify(d)
                self.boom = bool(act["f"])
                try:
                    if act["m"] == "once":
                        coll.exec_once(0, Y)
                    else:
                        coll.exec_once_unless_exception(0, Y)
                finally:
                    self.boom = False
            elif a == "Update":
                self.inst[act["t"] - 10].dispatch._update(self.inst[act["f"]].dispatch, only_propagate=act["ins"])
            else:
                return "unknown action %r" % a
        except Boom:
            out = "raise"
        except Exception as e:
            out = type(e).__name__
        for fid, args, kw in self.calls:
            if kw:
                if args or set(kw) != {"x", "y"} or kw["y"] != Y:
                    return "listener %s received args=%r kw=%r" % (fid, args, kw)
                calls.append({"f": fid, "x": kw["x"], "kw": True})
            else:
                if len(args) != 2 or args[1] != Y:
                    return "listener %s received args=%r kw=%r" % (fid, args, kw)
                calls.append({"f": fid, "x": args[0], "kw": False})
        exp = act["ret"]
        if out != exp["out"]:
            return "call outcome %r, spec %r" % (out, exp["out"])
        if calls != exp["calls"]:
            return "listeners called %r, spec %r" % (calls, exp["calls"])
        self.last_obs = act["obs"]
        return self._compare(to, act["obs"])

    # ------------------------------------------------------------------ projection of the real objects
    def _compare(self, to, obs):
        attr, registry, event = self.attr, self.registry, self.event
        clslevel = self.clsdisp._clslevel
        # classes
        if (to["cpar"] != 0) != (4 in self.cls):
            return "harness: class C out of step"
        clin = sorted(c for c, k in self.cls.items() if k in clslevel)
        if clin != sorted(to["clin"]):
            return "classes with a class-level collection %r, spec %r" % (clin, sorted(to["clin"]))
        for c, k in self.cls.items():
            got = [self._fid(fn) for fn in clslevel[k]] if k in clslevel else []
            if got != to["cl"][c - 1]:
                return "class %d listeners %r, spec %r" % (c, got, to["cl"][c - 1])
        # instances
        owners = {id(self.clsdisp): 0}
        keep = [self.clsdisp]
        for k in (1, 2):
            si = to["inst"][k - 1]
            if (si["cls"] != 0) != (k in self.inst):
                return "harness: instance %d out of step" % k
            if k not in self.inst:
                continue
            ev, coll = self._coll(k)
            joined = isinstance(ev, attr._JoinedListener)
            if joined != (si["join"] != 0):
                return "instance %d joined=%r, spec join=%r" % (k, joined, si["join"])
            if type(self.inst[k]) is not self.cls[si["cls"]]:
                return "harness: instance %d class out of step" % k
            kind = "coll" if isinstance(coll, attr._ListenerCollection) else "empty" if isinstance(coll, attr._EmptyListener) else type(coll).__name__
            ls = [self._fid(fn) for fn in coll.listeners]
            prop = sorted(self._fid(fn) for fn in coll.propagate)
            xo = bool(getattr(ev, "_exec_once", False))
            got = dict(kind=kind, ls=ls, prop=prop, xo=xo)
            exp = dict(kind=si["kind"], ls=si["ls"], prop=sorted(si["prop"]), xo=si["xo"])
            if got != exp:
                return "instance %d collection %r, spec %r" % (k, got, exp)
            it = [self._fid(fn) for fn in ev]
            if it != obs["iter"][k - 1]:
                return "instance %d would call %r, spec %r" % (k, it, obs["iter"][k - 1])
            if len(ev) != len(it) or bool(ev) != bool(it):
                return "instance %d len/bool %r/%r, iteration has %d" % (k, len(ev), bool(ev), len(it))
            for f_, o_ in self.wrappers.values():
                if (o_ in ev) != (f_ in it):
                    return "instance %d __contains__(listener %d) is %r, iteration %r" % (k, f_, o_ in ev, it)
            if kind == "coll":
                owners[id(coll)] = k
                keep.append(coll)
        # registry, both directions, restricted to this walk's objects
        tids = {id(self._target_obj(t)): t for t in self._targets()}
        fids = {id(fn): fid for fid, fn in self.fns.items()}
        k2c = set()
        for t in self._targets():
            tobj = self._target_obj(t)
            for fid, fn in self.fns.items():
                d = registry._key_to_collection.get((id(tobj), EV, id(fn)))
                if d is None:
                    continue
                if not d:
                    return "registry: empty dispatch_reg left for (%d, %d)" % (t, fid)
                for oref, lref in d.items():
                    o = oref()
                    k2c.add((t, fid, owners.get(id(o), "?") if o is not None else "dead"))
                    if lref() is None or self._fid(lref()) != fid:
                        return "registry: key (%d, %d) maps to listener %r" % (t, fid, lref())
        exp = set(tuple(e) for e in to["k2c"])
        if k2c != exp:
            return "registry _key_to_collection %r, spec %r" % (sorted(k2c, key=str), sorted(exp))
        c2k = set()
        for oref, d in list(registry._collection_to_key.items()):
            o = oref()
            if o is None or id(o) not in owners or not any(o is x for x in keep):
                continue
            for lref, key in d.items():
                l = lref()
                c2k.add((tids.get(key[0], "?"), fids.get(key[2], "?"), owners[id(o)]))
                if l is None or self._fid(l) != fids.get(key[2], "?"):
                    return "registry: collection entry for key %r holds listener %r" % (key, l)
        exp = set(tuple(e) for e in to["c2k"])
        if c2k != exp:
            return "registry _collection_to_key %r, spec %r" % (sorted(c2k, key=str), sorted(exp))
        # public view
        cont = set()
        for t in self._targets():
            for fid, fn in self.fns.items():
                if fid <= len(to["wr"]) and event.contains(self._target_obj(t), EV, fn):
                    cont.add((t, fid))
        exp = set(tuple(e) for e in obs["contains"])
        if cont != exp:
            return "event.contains() true for %r, registrations in force %r" % (sorted(cont), sorted(exp))
        return None

    def _targets(self):
        return sorted(self.cls) + [10 + k for k in sorted(self.inst)]

    def _target_obj(self, t):
        return self._target(t)

    # ------------------------------------------------------------------ end of walk: fire everything that is left
    def finish(self, state):
        obs = self.last_obs
        if obs is None:
            return None
        for k in (1, 2):
            if k not in self.inst:
                continue
            self.calls = []
            x = 0
            try:
                for fn in self._ev(k):
                    r = fn(x, Y)
                    if r is not None:
                        x = r
            except Exception as e:
                return "drain: dispatch on instance %d raised %r" % (k, e)
            got = [{"f": fid, "x": (kw["x"] if kw else args[0]), "kw": bool(kw)} for fid, args, kw in self.calls]
            if got != obs["drain"][k - 1]:
                return "drain: instance %d called %r, spec %r" % (k, got, obs["drain"][k - 1])
        # everything that is still registered can be removed, after which nothing is left anywhere
        for t, fid in sorted(tuple(e) for e in obs["contains"]):
            try:
                self.event.remove(self._target(t), EV, self.fns[fid])
            except Exception as e:
                return "drain: remove(%d, %d) raised %r" % (t, fid, e)
        for c, k in self.cls.items():
            if k in self.clsdisp._clslevel and len(self.clsdisp._clslevel[k]):
                return "drain: class %d still holds %r after removing every registration" % (
                    c, [self._fid(f) for f in self.clsdisp._clslevel[k]])
        for k in self.inst:
            if len(list(self._ev(k))):
                return "drain: instance %d still iterates %r after removing every registration" % (
                    k, [self._fid(f) for f in self._ev(k)])
        if self.nwalks % self.GC_EVERY == 0:
            return self._leak_check()
        return None

    def close(self):
        self._teardown()


# ---------------------------------------------------------------------- sampled deep walks from TLC's simulator
def simulate_walks(module, cfg_text, workdir, num, depth, seed, timeout=600):
    """Random behaviours of the spec generated by `tlc -simulate`.  The cfg's INVARIANT SimEmit prints
    [lvl, from, act, to, obs] for every candidate successor TLC looks at (all successors of the action it picked); the
    candidate whose `to` is the `from` of the next level is the one the behaviour took.  Returns a Graph holding the
    edges taken and the walks (lists of edge indices)."""
    r = tlc.run(module, cfg_text, workdir, workers=1, timeout=timeout, keep_stdout=False,
                simulate="num=%d" % num, extra=["-depth", str(depth), "-seed", str(seed)])
    g = graph.Graph()
    g.tlc = r
    walks = []
    index = {}
    levels = []          # levels[i] = candidate lines of step i+1 of the behaviour being read

    def flush():
        if not levels:
            return
        walk = []
        for i, cands in enumerate(levels):
            pick = cands[0]
            if i + 1 < len(levels):
                nxt = graph.key(levels[i + 1][0]["from"])
                for c in cands:
                    if graph.key(c["to"]) == nxt:
                        pick = c
                        break
                else:
                    break            # no candidate leads to the next level: cut the walk here (never observed)
            act = dict(pick["act"], obs=pick["obs"])
            fk, tk = graph.key(pick["from"]), graph.key(pick["to"])
            ek = (fk, graph.key(act), tk)
            ei = index.get(ek)
            if ei is None:
                ei = index[ek] = len(g.edges)
                g.add_edge(pick["from"], act, pick["to"])
            walk.append(ei)
        if walk:
            walks.append(walk)
        del levels[:]

    for o in r.json:
        if "lvl" not in o:
            continue
        if o["lvl"] == 1:
            flush()
            k = graph.key(o["to"])
            g.states.setdefault(k, o["to"])
            g.out.setdefault(k, [])
            if k not in g.inits:
                g.inits.append(k)
            continue
        i = o["lvl"] - 2
        if i < len(levels) - 1:      # the level went back: TLC began the next behaviour (the initial state is printed only once)
            flush()
        if i == len(levels):
            levels.append([o])
        elif i == len(levels) - 1:
            levels[i].append(o)
        else:                        # a gap (never observed): drop the fragment
            del levels[:]
    flush()
    r.json = []
    return g, walks


# ====================================================================== schedules: deterministic baton scheduler
class Watchdog(Exception):
    """a thread did not reach its next yield point: machinery failure, never a verdict"""


class _Abort(BaseException):
    pass


class _Th:
    __slots__ = ("t", "sem", "pc", "want", "thread", "res", "abort", "lastmark")

    def __init__(self, t):
        import threading
        self.t = t
        self.sem = threading.Semaphore(0)
        self.pc = "new"
        self.want = None
        self.thread = None
        self.res = ""
        self.abort = False
        self.lastmark = None


class ShimLock:
    """stands in for threading.Lock inside sqlalchemy.event.attr: acquire/release are yield points, and a held lock never
    blocks the OS thread (the controller simply does not schedule a thread whose lock is taken)"""

    def __init__(self, ctl):
        self.ctl = ctl
        self.owner = 0
        self.id = ctl.current().t
        ctl.locks[self.id] = self

    def acquire(self, blocking=True, timeout=-1):
        th = self.ctl.current()
        th.want = self
        self.ctl.park("acq")
        th.want = None
        if self.owner:
            self.ctl.deviation = "thread %d was scheduled into Lock.acquire while thread %d holds the lock" % (th.t, self.owner)
            raise _Abort()
        self.owner = th.t
        return True

    def release(self):
        self.ctl.park("rel")
        self.owner = 0

    __enter__ = acquire

    def __exit__(self, *a):
        self.release()


class ShimThreading:
    def __init__(self, ctl, real):
        self._ctl, self._real = ctl, real

    def Lock(self):
        return ShimLock(self._ctl)

    def __getattr__(self, k):
        return getattr(self._real, k)


class SchedDriver:
    """Replays TLC-chosen interleavings of ExecOnce.tla against the real exec_once / exec_once_unless_exception /
    _exec_w_sync_on_first_run / util.only_once code: real threads, one runs at a time; yield points are line events of the
    anchored functions (sys.settrace inside each thread), the shim Lock, and the listener body."""

    WATCHDOG = 30.0
    MARKS = {
        ("attr", "exec_once"): [("if not self._exec_once:", "chk0")],
        ("attr", "exec_once_unless_exception"): [("if not self._exec_once:", "chk0")],
        ("attr", "_get_exec_once_mutex"): [("if self._exec_once_mutex is not None:", "mget"),
                                           ("self._exec_once_mutex = mutex", "mset")],
        ("attr", "_exec_once_impl"): [("if not self._exec_once:", "chk1"), ("self(*args, **kw)", "body"),
                                      ("self._exec_once = True", "set")],
        ("attr", "_exec_w_sync_on_first_run"): [("if not self._exec_w_sync_once:", "wchk"), ("self(*args, **kw)", "body"),
                                                ("self(*args, **kw)", "fbody"), ("self._exec_w_sync_once = True", "wset")],
        ("lang", "only_once"): [("if once:", "ochk"), ("once_fn = once.pop()", "opop"),
                                ("return once_fn(*arg, **kw)", "body")],
    }

    def __init__(self, wid, workdir):
        import inspect
        import threading
        from sqlalchemy import event, util
        from sqlalchemy.event import attr, base
        from sqlalchemy.util import langhelpers
        self.threading = threading
        self.event, self.attr, self.base, self.lang = event, attr, base, langhelpers
        self.ctl_sem = threading.Semaphore(0)
        self.tls = threading.local()
        self.th = {}
        self.locks = {}
        self.events_cls = None
        self.deviation = None
        self.real_threading = attr.threading
        self.atomic = probe_tree()["atomic_mutex"]
        # yield points: (filename, function name, line number) -> pc label, located by statement text
        self.marks = {}
        self.traced = set()
        self.missing = []
        funcs = {("attr", n): getattr(attr._CompoundListener, n) for (m, n) in self.MARKS if m == "attr"}
        funcs[("lang", "only_once")] = langhelpers.only_once
        for key, fn in funcs.items():
            lines, start = inspect.getsourcelines(fn)
            code = fn.__code__
            fname = code.co_filename
            cname = "go" if key[1] == "only_once" else code.co_name
            self.traced.add((fname, cname))
            used = set()
            want = self.MARKS[key]
            if key[1] == "_get_exec_once_mutex" and self.atomic:
                # creation happens under a real lock: the whole lookup is one step, entered at the `with` line
                want = [(next((ln.strip() for ln in lines if ln.strip().startswith("with ")), "with ?"), "mget")]
            for text, pc in want:
                for i, ln in enumerate(lines):
                    if ln.strip() == text and i not in used:
                        used.add(i)
                        self.marks[(fname, cname, start + i)] = pc
                        break
                else:
                    # the statement is gone: the thread will not stop there and the replay reports the missing step
                    self.missing.append("%s.%s: %s" % (key[0], key[1], text))

    # ------------------------------------------------------------------ baton
    def current(self):
        return self.tls.th

    def park(self, pc):
        th = self.tls.th
        if th.abort:          # being torn down (the walk ended in a mismatch): unwind without ever blocking again
            return
        th.pc = pc
        self.ctl_sem.release()
        th.sem.acquire()
        if th.abort:
            raise _Abort()

    def _wait(self, what):
        if not self.ctl_sem.acquire(timeout=self.WATCHDOG):
            raise Watchdog("watchdog: %s did not reach a yield point within %ss" % (what, self.WATCHDOG))

    def _resume(self, t):
        self.th[t].sem.release()
        self._wait("thread %d" % t)

    def _global_trace(self, frame, ev, arg):
        c = frame.f_code
        if (c.co_filename, c.co_name) in self.traced:
            return self._local_trace
        return None

    def _local_trace(self, frame, ev, arg):
        if ev == "line":
            c = frame.f_code
            pc = self.marks.get((c.co_filename, c.co_name, frame.f_lineno))
            if pc is not None:
                th = self.tls.th
                # a `with` line is reported again when the block is left (its __exit__ call): one yield per frame and line
                if th.lastmark is not None and th.lastmark[0] is frame and th.lastmark[1] == frame.f_lineno:
                    return self._local_trace
                th.lastmark = (frame, frame.f_lineno)
                self.park(pc)
        return self._local_trace

    def _thread_main(self, th, call):
        import sys
        self.tls.th = th
        sys.settrace(self._global_trace)
        try:
            try:
                call()
                th.res = "ret"
            except Boom:
                th.res = "raise"
            except _Abort:
                th.res = "abort"
            except Exception as e:
                th.res = type(e).__name__
        finally:
            sys.settrace(None)
            th.lastmark = None
            th.pc = "done"
            self.ctl_sem.release()

    def _body(self, *a, **k):
        th = self.tls.th
        self.nbody += 1
        n = self.nbody
        self.inbody.add(th.t)
        self.park("infbody" if th.pc == "fbody" else "inbody")
        self.inbody.discard(th.t)
        if n in self.boom:
            raise Boom()

    # ------------------------------------------------------------------ per-walk world
    def _kill(self):
        for th in self.th.values():
            if th.pc != "done":
                th.abort = True
                th.sem.release()
        for th in self.th.values():
            if th.thread is not None:
                th.thread.join(self.WATCHDOG)
                if th.thread.is_alive():
                    raise Watchdog("watchdog: thread %d could not be torn down" % th.t)
        # drain the controller semaphore
        while self.ctl_sem.acquire(blocking=False):
            pass
        self.th = {}
        if self.events_cls is not None:
            self.base._remove_dispatcher(self.events_cls)
            self.events_cls = None
        self.attr.threading = self.real_threading

    def reset(self, state):
        self._kill()
        event = self.event

        class SchedEvents(event.Events):
            def ev_c28(self, x):
                pass

        class Target:
            dispatch = event.dispatcher(SchedEvents)

        self.events_cls = SchedEvents
        self.target = Target()
        self.fam = state["fam"]
        self.boom = set(state["boom"])
        self.nbody = 0
        self.inbody = set()
        self.locks = {}
        self.deviation = None
        body = self._body_fn = (lambda *a, **k: self._body(*a, **k))
        if self.fam == "once":
            event.listen(self.target, EV, body, once=True)
        else:
            event.listen(self.target, EV, body)
        self.coll = coll = getattr(self.target.dispatch, EV)
        self.attr.threading = ShimThreading(self, self.real_threading)
        calls = {"once": lambda: coll.exec_once(0), "unless": lambda: coll.exec_once_unless_exception(0),
                 "sync": lambda: coll._exec_w_sync_on_first_run(0), "fire": lambda: coll(0)}
        for i, op in enumerate(state["op"]):
            t = i + 1
            th = self.th[t] = _Th(t)
            th.thread = self.threading.Thread(target=self._thread_main, args=(th, calls[op]), daemon=True)
            th.thread.start()
            self._wait("thread %d (start)" % t)
        return None

    def _observe(self):
        coll = self.coll
        m = coll._exec_once_mutex
        o = {"pc": [self.th[t].pc for t in sorted(self.th)],
             "flag": bool(coll._exec_once), "wflag": bool(coll._exec_w_sync_once),
             "mutex": 0 if m is None else getattr(m, "id", -1),
             "owner": [self.locks[t].owner if t in self.locks else 0 for t in sorted(self.th)],
             "nbody": self.nbody, "inbody": sorted(self.inbody),
             "res": [self.th[t].res if self.th[t].pc == "done" else "" for t in sorted(self.th)]}
        if self.fam == "once":
            go = list(coll.listeners)[0]
            cells = dict(zip(go.__code__.co_freevars, (c.cell_contents for c in go.__closure__)))
            o["oncelist"] = bool(cells["once"])
        return o

    def step(self, frm, act, to):
        t = act["t"]
        th = self.th[t]
        if th.pc != frm["pc"][t - 1] or th.pc != act["p"]:
            return "thread %d is at %r, spec at %r%s" % (t, th.pc, frm["pc"][t - 1],
                                                       " (statements not found: %s)" % "; ".join(self.missing) if self.missing else "")
        if th.pc == "acq" and th.want is not None and th.want.owner:
            return "spec schedules thread %d into acquire but the lock is held by thread %d" % (t, th.want.owner)
        self._resume(t)
        if self.deviation:
            return self.deviation
        got = self._observe()
        exp = {k: to[k] for k in got}
        exp["inbody"] = sorted(exp["inbody"])
        if got != exp:
            return "after thread %d ran %s: observed %r, spec %r" % (t, act["p"], got, exp)
        return None

    def finish(self, state):
        """drain: run every thread to completion (lowest runnable first); the mutex must never deadlock"""
        for _ in range(200):
            live = [th for th in self.th.values() if th.pc != "done"]
            if not live:
                return None
            run = [th for th in live if not (th.pc == "acq" and th.want is not None and th.want.owner)]
            if not run:
                return "drain: deadlock, threads %r all wait for a held lock" % [th.t for th in live]
            self._resume(min(run, key=lambda x: x.t).t)
            if self.deviation:
                return self.deviation
        return "drain: threads did not finish in 200 steps"

    def close(self):
        self._kill()
