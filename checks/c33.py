"""C33 Session commit/rollback/savepoint keep the session consistent with the database - OrmSession.tla (DESIGN 3.8, Appendix F)."""
from checks import ormsession_common as C

LEVEL = "model_checking"
MANIFEST = dict(
    text="OrmSession.tla with begin_nested / savepoint commit and rollback / commit / rollback / close / flush, attribute changes, deletes and primary-key switches, expire_on_commit on and off, over a reference nested-transaction database plus a ghost reference over the user's calls: TLC checks that with no transaction open the session's view is the committed data, that every loaded unmodified attribute of a persistent object equals its row in the surviving scope, that persistent objects have a row and the deleted state exists only inside a transaction, that committed data changes only through commit and equals the nested-transaction reference at every level. Every labelled edge is replayed on a real Session comparing loaded values (inspect(o).dict), membership, lifecycle, the rows the session's own connection sees and the rows an independent raw connection sees after every step; walks end with commit/rollback and a reload through a fresh session.",
    design_ref="3.8, 4 (C33), 6 (C35/C33 expire_on_commit=False), Appendix F, F.2",
    note="trusted: TLC, sqlite3 savepoint semantics as reference database (SQLite only; autocommit=False mode); two-phase, Session.begin() context managers and join_transaction_mode not modelled",
    technique="TLA+ spec (OrmSession.tla) + TLC exhaustive model checking; spec->code replay of every state-graph edge plus TLC -simulate behaviours into a real Session")

ABS_INVS = ["NoTxMeansCommitted", "AttrAgree", "IdAgree", "PersistentHasRow", "NoDeletedOutsideTx", "RefCommitted", "RefLive", "RefFrames"]
ABS_PROPS = ["AfterRollback", "CommittedOnlyByCommit"]
MECH_INVS = ["OneIdentity", "NoTxMeansCommitted", "RefCommitted", "RefLive", "RefFrames"]
MECH_PROPS = ["CommittedOnlyByCommit"]
FOOTPRINT = ["Add", "SetV", "SetPk", "Delete", "Flush", "Commit", "Rollback", "BeginNested", "SpCommit", "SpRollback", "Close"]


def spec(chk):
    q = chk.quick
    acts = ["SetV", "SetPk", "Sp", "Close"]
    return dict(
        cfgs=[
            dict(name="eoc", objs=2, maxsp=1 if q else 2, depth=7 if q else 8, ideal_depth=8 if q else 9, eoc=True,
                 acts=["SetV", "SetPk", "Sp"] if q else acts, vals=(1,) if q else (0, 1),
                 random=200 if q else 2000, sim=(40, 20) if q else (600, 30)),
            dict(name="noeoc", objs=2, maxsp=1 if q else 2, depth=6 if q else 7, ideal_depth=7 if q else 8, eoc=False, acts=acts,
                 random=100 if q else 1000),
            # savepoint bodies: the walk starts with o1 added and committed, so the depth budget goes to what happens INSIDE one or
            # two nested savepoints (update + delete of the same object, release into the outer one, rollback of either)
            dict(name="spbody", objs=1, maxsp=2, depth=9, ideal_depth=10, eoc=True, acts=["SetV", "Sp"], vals=(1,), start="committed", random=100),
            dict(name="spbody_noeoc", objs=1, maxsp=2, depth=10, ideal_depth=10, eoc=False, acts=["SetV", "Sp"], vals=(1,), start="committed", random=100),
        ] + ([] if q else [dict(name="spbody2", objs=2, maxsp=2, depth=8, ideal_depth=9, eoc=True, acts=["SetV", "Sp"], vals=(1,),
                                start="committed", random=500)]) + ([] if q else [dict(name="eoc3", objs=3, maxsp=1, depth=6, ideal_depth=7, eoc=True, acts=acts + ["Expunge"], random=1000)]),
        mech_invs=MECH_INVS, mech_props=MECH_PROPS, abs_invs=ABS_INVS, abs_props=ABS_PROPS,
        devs={"eoc": dict(acts=[], eoc=False), "b": dict(acts=["Close"]), "ksw": dict(acts=["SetPk"]),
              "kswmerge": dict(acts=["SetPk", "Sp"], depth=8)},
        footprint=FOOTPRINT,
        nontrivial=lambda frm, act: act["a"] in ("Commit", "Rollback", "SpCommit", "SpRollback", "Close") and bool(frm["tx"]),
    )


def main(chk):
    P = spec(chk)
    tot, cov, samples, plans, dev_real, dev_hits = C.run_property(chk, "C33", P)
    return chk.finish(
        dict(states=tot["states"], transitions=tot["transitions"], traces_validated_against_impl=tot["walks"] + tot["random_walks"],
             distinct_nontrivial=tot["nontrivial"], evaluations=tot["steps"], samples=samples[:4], plan=plans, action_coverage=cov,
             edges=tot["edges"], ideal_states=tot.get("ideal_states", 0), ideal_transitions=tot.get("ideal_transitions", 0),
             tlc_runs=tot["tlc_runs"], timing={k: v for k, v in tot.items() if k.startswith("t_")}, deep_walk_steps=tot.get("deep_walk_steps", 0),
             deviations_present=sorted(dev_real), deviations_exposed=dev_hits, exhaustive=True,
             rule="every labelled edge of the OrmSession state graph (cfgs %s) replayed on a real Session; non-trivial = commit / rollback / "
                  "savepoint commit / savepoint rollback / close edges taken while a transaction is open" % [c["name"] for c in P["cfgs"]],
             checker_cmd="tlc OrmSession.tla (INVARIANT %s; PROPERTY %s)" % (",".join(ABS_INVS), ",".join(ABS_PROPS))),
        assumptions=["SQLite only (file, autocommit=False, NullPool); one mapped class T(id, v)",
                     "generator precondition: a detached object is re-attached only while its row exists; values it carries are not trusted (ghost `untr`) until expired or reloaded",
                     "bounded: %s" % [(c["name"], c["objs"], c["maxsp"], c["depth"]) for c in P["cfgs"]]])
