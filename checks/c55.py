"""C55 compiled and pure-Python implementations are interchangeable.

No Cython exists in this sandbox, so "compiled" is the PREBUILT binaries shipped next to the sources (engine/_result_cy, _row_cy,
_processors_cy, _util_cy, util/_collections_cy, _immutabledict_cy); "pure" is the working tree's *_cy.py sources (engine/purepy).
Both are bound to the SAME specifications: ResultCursor.tla (via checks/c10: the state-graph tours of the Result mechanism),
PyCollections.tla (via checks/pycoll_util: OrderedSet / IdentitySet / immutabledict operation enumeration) and Processors.tla
(processor helpers). Both conforming to one specification on every replayed step = same values, exception classes and side effects
on the modelled surface."""
import json
import os
import random
import subprocess
import sys

from engine import tlc

LEVEL = "model_checking"
MANIFEST = dict(
    text="The dual-implemented modules are replayed twice against one specification each: every labelled edge of the ResultCursor.tla state graphs (Result / Row mechanism: fetch*, views, unique, yield_per, partitions, freeze/merge, closing behaviour; iterator-backed, cursor-backed and fully buffered results) and every TLC-enumerated OrderedSet / IdentitySet / immutabledict operation case of PyCollections.tla, plus the processor helpers of Processors.tla, are executed on the pure-Python sources of the working tree AND, in fresh interpreters, on the prebuilt compiled binaries; both must equal the specification's expected value / exception class / resulting state at every step, hence each other.",
    design_ref="4 (C55), 0.3",
    note="trusted: TLC, the specifications shared with C10 / C54; the compiled side is the PINNED prebuilt binary (no Cython here: it cannot be rebuilt from the current sources, so source fixes to *_cy.py made after the pin - OrderedSet.symmetric_difference_update, IdentitySet.__ixor__ - are reported as known findings tied to the binary)",
    technique="TLA+ specs (ResultCursor.tla, PyCollections.tla, Processors.tla) + TLC; the same spec->code replay executed on both builds")
ROOT = os.path.dirname(os.path.dirname(os.path.abspath(__file__)))


def _val(v):
    return None if v["t"] == "none" else (v["i"] if v["t"] == "int" else v["s"])


def _processors(cases):
    """run in BOTH builds: returns the observed value of every case in the spec's [t, i, s] encoding"""
    from sqlalchemy.engine import _processors_cy as P
    out = []
    for c in cases:
        f = getattr(P, c["fn"])
        try:
            got = f(_val(c["arg"]))
            if got is None:
                got = {"t": "none", "i": 0, "s": ""}
            elif isinstance(got, bool):
                got = {"t": "bool", "i": int(got), "s": ""}
            elif isinstance(got, float):
                got = {"t": "int", "i": int(got), "s": ""} if got == int(got) else {"t": "float", "i": 0, "s": repr(got)}
            elif isinstance(got, int):
                got = {"t": "int", "i": got, "s": ""}
            else:
                got = {"t": "str", "i": 0, "s": str(got)}
        except (ValueError, TypeError) as e:
            got = {"t": "err", "i": 0, "s": type(e).__name__}
        out.append(got)
    return out


def main(chk):
    from checks import c10, pycoll_common as pc, pycoll_util as pu
    from checks import resultcursor_driver as rd
    from engine import purepy
    if not purepy.is_pure():
        chk.machinery("the check process must run the pure-Python sources")
    rng = random.Random(chk.seed)
    q = chk.quick
    states = trans = 0
    # ---------------- 1. Result / Row mechanism (ResultCursor.tla) on both builds
    if q:
        plan = [("fetch", 3, 4, 3, ["iter", "chunk", "cursor", "cursor_json", "full"], False),
                ("views", 2, 4, 2, ["iter", "cursor"], False),
                ("unhash", 2, 3, 2, ["iter", "cursor_json"], True)]
    else:
        plan = [("fetch", 4, 5, 3, ["iter", "chunk", "frozen", "merged", "cursor", "cursor_json", "stream2", "full"], False),
                ("views", 3, 4, 2, ["iter", "merged", "cursor", "cursor_json", "full"], False),
                ("shape", 2, 4, 2, ["chunk", "cursor", "full"], False),
                ("unhash", 3, 4, 2, ["iter", "frozen", "cursor_json"], True)]
    info, need = c10.build_graphs(chk, plan)
    files, est, rplan, nedges, nontriv = {}, {}, [], 0, 0
    for gid in sorted(info):
        i = info[gid]
        states += i["distinct"]
        trans += i["generated"]
        nedges += i["edges"]
        nontriv += i["nontriv"]
        files[gid] = i["file"]
        if i["violated"]:
            chk.violation({"spec": "ResultCursor", "action": "TLC", "invariant": i["violated"], "graph": gid}, "TLC: %s violated (%s)" % (i["violated"], gid))
        for impl, cfg in need[gid][1]:
            rplan.append((gid, impl, cfg))
            est[(gid, cfg)] = i["est"][cfg]
    nsh = max(1, min(tlc.NPROC // 2, 6))
    hp = [rd.launch(chk.work, "p%d" % k, files, sl) for k, sl in enumerate(rd.split(rplan, est, nsh))]
    hc = [rd.launch(chk.work, "c%d" % k, files, sl, compiled=True) for k, sl in enumerate(rd.split(rplan, est, nsh))]
    # ---------------- 2. utility collections (PyCollections.tla) on both builds
    cs = pc.consts(MaxLen=3, Hi=4, K=3) if q else pc.consts(MaxLen=4, Hi=5, K=3)
    cset = pc.consts(MaxLen=3, K=3) if q else pc.consts(MaxLen=4, K=4)
    cid = pc.consts(MaxLen=2, K=3) if q else pc.consts(MaxLen=3, K=3)
    plans = [("InitOSet", ["OSetCaseOK"], cs, "oset"), ("InitSetOps", ["SetCaseOK"], cset, "set"), ("InitIDict", ["IDictCaseOK"], cid, "idict")]
    outs = pc.tlc_cases_parallel(chk, [(p[0], p[1], p[2]) for p in plans], timeout=1500)
    by_kind = {}
    for (init, invs, c, kind), (cases, r) in zip(plans, outs):
        if r.violated:
            chk.violation({"spec": "PyCollections", "action": "TLC", "invariant": r.violated, "cfg": init}, "TLC: %s violated (%s)" % (r.violated, init))
        states += r.distinct
        trans += r.generated
        by_kind[kind] = cases
    universe = list(range(0, max(cs["K"], cset["K"]) + 2))
    pm, pcounts = pu.replay_all(by_kind, universe)
    try:
        cm, ccounts, impl = pu.replay_compiled(by_kind, universe, chk.work + "/compiled")
    except RuntimeError as e:
        chk.machinery(str(e))
    if impl != "compiled":
        chk.machinery("VERIF_COMPILED=1 subprocess did not load the binaries (impl=%s)" % impl)
    for m in pm + cm:
        chk.violation(m["sig"], "[%s] %s" % (m["sig"]["impl"], m["what"]), m)
    # ---------------- 3. processors (Processors.tla) on both builds
    r = tlc.run("Processors", tlc.cfg(init="Init", invariants=["NonePreserved", "BoolTwoValued", "ToStrIdempotent"]), chk.work + "/proc", workers=1, timeout=300)
    if r.violated:
        chk.violation({"spec": "Processors", "action": "TLC", "invariant": r.violated}, "TLC: %s violated in Processors.tla" % r.violated)
    states += r.distinct
    trans += r.generated
    pcases = r.json
    if len(pcases) < 20:
        chk.machinery("Processors.tla printed %d cases" % len(pcases))
    got_pure = _processors(pcases)
    fin, fout = os.path.join(chk.work, "proc_in.json"), os.path.join(chk.work, "proc_out.json")
    json.dump(pcases, open(fin, "w"))
    env = dict(os.environ, VERIF_COMPILED="1", PYTHONHASHSEED="0")
    env.pop("PYTHONPATH", None)
    p = subprocess.run([sys.executable, "-m", "checks.c55", fin, fout], cwd=ROOT, env=env, stdout=subprocess.PIPE, stderr=subprocess.STDOUT, text=True, timeout=300)
    if p.returncode != 0:
        chk.machinery("compiled processors subprocess failed: %s" % p.stdout[-800:])
    res = json.load(open(fout))
    if res["pure"]:
        chk.machinery("compiled processors subprocess ran the pure-Python build")
    for c, gp, gc in zip(pcases, got_pure, res["got"]):
        exp = c["exp"]
        for implname, got in (("pure", gp), ("compiled", gc)):
            if got != exp:
                chk.violation({"spec": "Processors", "action": c["fn"], "impl": implname, "arg": json.dumps(c["arg"])},
                              "%s(%r) on the %s build gives %r, Processors.tla %r" % (c["fn"], c["arg"], implname, got, exp))
    pres = c10._gather(chk, hp)
    cres = c10._gather(chk, hc)
    c10.report(chk, pres["mismatches"], "pure")
    c10.report(chk, cres["mismatches"], "compiled")
    evaluations = pres["steps"] + cres["steps"] + sum(v["cases"] for v in pcounts.values()) + sum(v["cases"] for v in ccounts.values()) + 2 * len(pcases)
    return chk.finish(
        dict(states=states, transitions=trans, traces_validated_against_impl=pres["walks"] + cres["walks"], evaluations=evaluations,
             steps_result_pure=pres["steps"], steps_result_compiled=cres["steps"], result_edges=nedges,
             collection_cases_pure=pcounts, collection_cases_compiled=ccounts, processor_cases=len(pcases),
             distinct_nontrivial=nontriv + sum(v["nontrivial"] for v in pcounts.values()),
             samples=[info[sorted(info)[0]]["sample"], by_kind["oset"][len(by_kind["oset"]) // 2], pcases[len(pcases) // 2]], exhaustive=True,
             rule="the same TLC-generated walks / cases executed on the pure-Python sources and on the prebuilt binaries; non-trivial = Result edges "
                  "that deliver rows or raise + collection cases that change the collection",
             checker_cmd="tlc ResultCursor.tla / PyCollections.tla / Processors.tla"),
        assumptions=["compiled side = prebuilt binaries of the pinned snapshot (cannot be rebuilt: no Cython); only the modelled surface is compared",
                     "bounds as in C10 / C54 quick or thorough plans (subset of scenarios)"])


if __name__ == "__main__":
    # subprocess entry: python -m checks.c55 in.json out.json   (VERIF_COMPILED=1)
    sys.path.insert(0, ROOT)
    from engine import purepy
    purepy.install()
    cases = json.load(open(sys.argv[1]))
    json.dump({"got": _processors(cases), "pure": purepy.is_pure()}, open(sys.argv[2], "w"))
