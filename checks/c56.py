"""C56 upsert statements insert or update exactly as their conflict clause says - Upsert.tla (DESIGN 3.14, 4 C56).

TLC explores Upsert.tla exhaustively: every set of pre-existing rows, every conflict clause (DO NOTHING with / without
target, DO UPDATE SET excluded / literal / expression over both rows / per-row bound parameter, each with and without
WHERE) and every list of up to 3 parameter sets (conflicting or not, duplicates inside the list, values below / above the
stored one) applied one after the other; action properties state the insert-or-update reading of each clause and what
RETURNING delivers.  Binding: every behaviour of the graph is executed on SQLite - one execute per parameter set (outcome and
table compared after EVERY step), executemany without RETURNING, with RETURNING, with RETURNING +
sort_by_parameter_order, multi-VALUES, ORM bulk - through the logging / permuting cursor of insertmany_common, on the stock
SQLite dialect and on a dialect configured like PostgreSQL / SQL Server (INSERT .. SELECT .. ORDER BY sen_counter form).
PostgreSQL / MySQL proper: the compiled statement's ON CONFLICT / ON DUPLICATE KEY structure must equal the spec's Shape().
"""
import multiprocessing as mp
import random
import re
import warnings

from engine import graph, tlc
from checks import insertmany_common as C

LEVEL = "model_checking"
MANIFEST = dict(
    text="Upsert.tla is an insert-or-update state machine over a table with a unique key: existing rows (every subset of 2-3 keys), a conflict clause (ON CONFLICT DO NOTHING with/without target; DO UPDATE SET = excluded.v / literal / u.v + excluded.v / per-row bound parameter, each with and without WHERE u.v < excluded.v) and up to 3 parameter sets applied sequentially (conflicting, non-conflicting, duplicates within the list). TLC checks action properties: insert iff no conflict, update exactly as the clause and its WHERE say, DO NOTHING and other columns untouched, no row lost, RETURNING = affected rows in parameter order showing the row as left by that parameter set. Every behaviour is executed on SQLite as single executes (outcome + table after every step), executemany, executemany+RETURNING (shuffled by the adversarial cursor), +sort_by_parameter_order, multi-VALUES and ORM bulk, on the stock dialect (plain table and a table with an insert_sentinel column) and on a PostgreSQL-shaped dialect configuration; statement counts follow the spec's RowWise rule. PostgreSQL / MySQL statements are compiled and their conflict-clause structure compared with the spec's Shape.",
    design_ref="3.14 (InsertMany upsert sub-model), 4 (C56)",
    note="trusted: TLC; SQLite's ON CONFLICT semantics as reference (calibrated: any disagreement on single-statement behaviour is reported as machinery failure, not as violation); PostgreSQL and MySQL are compile-shape only; the PostgreSQL-shaped run executes the engine's INSERT..SELECT..ORDER BY sen_counter statements on SQLite through a cursor that rewrites the VALUES column aliases",
    technique="TLA+ spec (Upsert.tla) + TLC exhaustive model checking with action properties; spec->code replay of every behaviour on SQLite; compile-shape conformance for PostgreSQL / MySQL")
INVS = ["ResultInOrder", "KeysAtEnd"]
PROPS = ["NoRowLost", "OnlyTargetRowChanges", "DoNothingPreserves", "UpdateKeepsOtherColumns", "InsertWhenNoConflict", "InsertStoresParams",
         "UpdateAsClauseSays", "ResultIsAffected", "ResultShowsRow"]
CLAUSES = ["nothing", "nothing_any", "excluded", "excluded_where", "literal", "literal_where", "sum", "sum_where", "param"]
APIS = ["single_ret", "single", "many", "many_ret", "many_ret_sorted", "multivalues_ret", "orm_bulk", "orm_bulk_ret_sorted"]
PG_APIS = ["many_ret", "many_ret_sorted", "orm_bulk_ret_sorted"]
_ENV = None


def with_clause(stmt, t, clause):
    from sqlalchemy import bindparam
    ex = stmt.excluded
    if clause == "nothing":
        return stmt.on_conflict_do_nothing(index_elements=[t.c.k])
    if clause == "nothing_any":
        return stmt.on_conflict_do_nothing()
    where = (t.c.v < ex.v) if clause.endswith("_where") else None
    base = clause.replace("_where", "")
    setv = {"excluded": ex.v, "literal": 77, "sum": t.c.v + ex.v, "param": bindparam("nv")}[base]
    return stmt.on_conflict_do_update(index_elements=[t.c.k], set_={"v": setv}, where=where)


class Env:
    def __init__(self):
        from sqlalchemy import Column, Integer, MetaData, Table
        from sqlalchemy.orm import registry
        self.md = MetaData()
        self.t = Table("u", self.md, Column("id", Integer, primary_key=True), Column("k", Integer, unique=True), Column("v", Integer),
                       Column("w", Integer))
        self.cls = type("U", (object,), {})
        registry().map_imperatively(self.cls, self.t)
        # the same table with an explicit insert_sentinel() column: here the compiler DOES find a sentinel, and only the
        # "an upsert cannot be ordered by a sentinel" rule keeps sort_by_parameter_order upserts row-at-a-time
        from sqlalchemy.schema import insert_sentinel
        self.t_sen = Table("us", self.md, Column("id", Integer, primary_key=True), Column("k", Integer, unique=True), Column("v", Integer),
                           Column("w", Integer), insert_sentinel("sen"))
        self.cls_sen = type("US", (object,), {})
        registry().map_imperatively(self.cls_sen, self.t_sen)
        self.engines = {}

    def engine(self, kind):
        if kind not in self.engines:
            from sqlalchemy import create_engine
            from sqlalchemy.pool import StaticPool
            from sqlalchemy.sql.compiler import InsertmanyvaluesSentinelOpts as O
            script = C.Script()
            script.active = False
            e = create_engine("sqlite://", creator=C.make_creator(script), poolclass=StaticPool)
            if kind == "pgform":
                e.dialect.insertmanyvalues_implicit_sentinel = O.AUTOINCREMENT | O.USE_INSERT_FROM_SELECT
            self.md.create_all(e)
            self.engines[kind] = (e, script)
        return self.engines[kind]


def env():
    global _ENV
    if _ENV is None:
        _ENV = Env()
    return _ENV


def table_of(rows):
    """spec rows (json: {"1": {v, w}, ..}) -> sorted [(k, v, w)] of present keys"""
    items = rows.items() if isinstance(rows, dict) else enumerate(rows, 1)   # ToJson prints a function over 1..n as a list
    return sorted((int(k), r["v"], r["w"]) for k, r in items if r["v"] != 0 or r["w"] != 0)


def run_behaviour(beh, api, kind, seed):
    from sqlalchemy import select
    from sqlalchemy.dialects.sqlite import insert as sqlite_insert
    from sqlalchemy.orm import Session
    E = env()
    eng, script = E.engine("sqlite" if kind == "sqlite_sentinel" else kind)
    t, cls = (E.t_sen, E.cls_sen) if kind == "sqlite_sentinel" else (E.t, E.cls)
    cfg = beh["cfg"]
    clause = cfg["clause"]
    n = len(cfg["params"])
    params = []
    for i, p in enumerate(cfg["params"], 1):
        d = {"k": p["k"], "v": p["b"] + i, "w": 100 + i}
        if clause == "param":
            d["nv"] = 500 + i
        params.append(d)
    states = beh["states"]       # table after 0..n steps
    outcomes = beh["outcomes"]
    want_result = [(r["k"], r["v"], r["w"]) for r in beh["result"]]
    rowwise_expected = None
    mism = []
    rng = random.Random(seed)

    def add(part, text, **kw):
        mism.append((dict(part=part, **kw), text))
    with warnings.catch_warnings():
        warnings.simplefilter("ignore")
        with eng.connect() as conn:
            try:
                for k, v, w in states[0]:
                    conn.exec_driver_sql("INSERT INTO %s (k, v, w) VALUES (?, ?, ?)" % t.name, (k, v, w))
                script.begin([], "SELECT k, v, w FROM %s ORDER BY k" % t.name)
                base = with_clause(sqlite_insert(t), t, clause)
                ret_cols = (t.c.k, t.c.v, t.c.w)
                got_result = None
                if api in ("single_ret", "single"):
                    got_result = []
                    for j, p in enumerate(params):
                        if api == "single_ret":
                            rows = [tuple(r) for r in conn.execute(base.returning(*ret_cols), p).all()]
                            got_result.extend(rows)
                            affected = len(rows)
                        else:
                            affected = conn.execute(base, p).rowcount
                        want_aff = 0 if outcomes[j] == "skip" else 1
                        if affected != want_aff:
                            add("outcome", "parameter set %d: %s row(s) affected, spec outcome %s" % (j + 1, affected, outcomes[j]), step=j + 1)
                        snap = script.inserts()[-1]["snap"]
                        if sorted(snap) != states[j + 1]:
                            add("table", "table after parameter set %d is %r, spec %r" % (j + 1, sorted(snap), states[j + 1]), step=j + 1)
                    if api == "single":
                        got_result = None
                elif api == "many":
                    conn.execute(base, params)
                    rowwise_expected = False
                elif api in ("many_ret", "many_ret_sorted"):
                    sort = api.endswith("sorted")
                    rowwise_expected = sort or clause == "param"
                    if not rowwise_expected:
                        perm = list(range(len(want_result)))
                        rng.shuffle(perm)
                        script.perms = [perm]
                    res = conn.execute(base.returning(*ret_cols, sort_by_parameter_order=sort), params)
                    got_result = [tuple(r) for r in res.all()]
                elif api == "multivalues_ret":
                    stmt = with_clause(sqlite_insert(t).values([{k_: v_ for k_, v_ in p.items() if k_ != "nv"} for p in params]), t, clause)
                    got_result = [tuple(r) for r in conn.execute(stmt.returning(*ret_cols)).all()]
                elif api in ("orm_bulk", "orm_bulk_ret_sorted"):
                    with Session(bind=conn) as s:
                        stmt = with_clause(sqlite_insert(cls), t, clause)
                        if api == "orm_bulk":
                            s.execute(stmt, params)
                            rowwise_expected = False
                        else:
                            rowwise_expected = True
                            res = s.execute(stmt.returning(cls.k, cls.v, cls.w, sort_by_parameter_order=True), params)
                            got_result = [tuple(r) for r in res.all()]
                        script.active = False
                        final = sorted(tuple(r) for r in conn.execute(select(t.c.k, t.c.v, t.c.w)).all())
                script.active = False
                if api not in ("orm_bulk", "orm_bulk_ret_sorted"):
                    final = sorted(tuple(r) for r in conn.execute(select(t.c.k, t.c.v, t.c.w)).all())
            except Exception as ex:
                script.active = False
                import traceback
                add("exception", "%s raised %s: %s | %s" % (api, type(ex).__name__, str(ex)[:300], traceback.format_exc()[-400:]))
                conn.rollback()
                return mism
            finally:
                script.active = False
                conn.rollback()
    for e in script.errors:
        add("harness", e)
    ins = script.inserts()
    batched_bad = False
    if rowwise_expected is not None and n >= 2:
        want_stmts = n if rowwise_expected else 1
        if len(ins) != want_stmts:
            batched_bad = rowwise_expected and len(ins) < n
            add("statements", "%d DBAPI statement(s) for %d parameter sets, Upsert.tla RowWise says %d (%s)"
                % (len(ins), n, want_stmts, ins[0]["sql"][:160] if ins else ""), batched_although_rowwise_expected=batched_bad)
        elif rowwise_expected:
            for j, e in enumerate(ins):
                if sorted(e["snap"]) != states[j + 1]:
                    add("table", "table after statement %d is %r, spec %r" % (j + 1, sorted(e["snap"]), states[j + 1]), step=j + 1)
                if e["returning"] and e["nret"] is not None and e["nret"] != (0 if outcomes[j] == "skip" else 1):
                    add("outcome", "statement %d returned %d row(s), spec outcome %s" % (j + 1, e["nret"], outcomes[j]), step=j + 1)
    if final != states[-1]:
        add("final_table", "table at the end is %r, spec %r" % (final, states[-1]), batched_although_rowwise_expected=batched_bad)
    if got_result is not None:
        ordered = api in ("single_ret", "many_ret_sorted", "multivalues_ret", "orm_bulk_ret_sorted") or (api == "many_ret" and rowwise_expected)
        if ordered:
            if got_result != want_result:
                add("result", "RETURNING rows %r, spec (affected parameter sets in order) %r" % (got_result, want_result),
                    batched_although_rowwise_expected=batched_bad)
        elif sorted(got_result) != sorted(want_result):
            add("result", "RETURNING rows %r are not the affected rows %r" % (got_result, want_result))
    return mism


RAW_SQL = {
    "nothing": "ON CONFLICT (k) DO NOTHING", "nothing_any": "ON CONFLICT DO NOTHING",
    "excluded": "ON CONFLICT (k) DO UPDATE SET v = excluded.v", "excluded_where": "ON CONFLICT (k) DO UPDATE SET v = excluded.v WHERE u.v < excluded.v",
    "literal": "ON CONFLICT (k) DO UPDATE SET v = 77", "literal_where": "ON CONFLICT (k) DO UPDATE SET v = 77 WHERE u.v < excluded.v",
    "sum": "ON CONFLICT (k) DO UPDATE SET v = u.v + excluded.v", "sum_where": "ON CONFLICT (k) DO UPDATE SET v = u.v + excluded.v WHERE u.v < excluded.v",
    "param": "ON CONFLICT (k) DO UPDATE SET v = :nv"}


def calibrate(chk, behs):
    """ORACLE CALIBRATION: the insert-or-update model against SQLite itself, with hand-written SQL and the plain sqlite3 module
    (no SQLAlchemy involved).  A disagreement is a machinery failure (the model is not a model of SQLite), never a violation."""
    import sqlite3
    db = sqlite3.connect(":memory:")
    db.execute("CREATE TABLE u (id INTEGER PRIMARY KEY, k INTEGER UNIQUE, v INTEGER, w INTEGER)")
    steps = 0
    for b in behs:
        cfg = b["cfg"]
        db.execute("DELETE FROM u")
        db.executemany("INSERT INTO u (k, v, w) VALUES (?, ?, ?)", b["states"][0])
        sql = "INSERT INTO u (k, v, w) VALUES (:k, :v, :w) %s RETURNING k, v, w" % RAW_SQL[cfg["clause"]]
        got_res = []
        for j, p in enumerate(cfg["params"], 1):
            rows = db.execute(sql, {"k": p["k"], "v": p["b"] + j, "w": 100 + j, "nv": 500 + j}).fetchall()
            got_res.extend(rows)
            tab = sorted(db.execute("SELECT k, v, w FROM u").fetchall())
            steps += 1
            if tab != b["states"][j] or len(rows) != (0 if b["outcomes"][j - 1] == "skip" else 1):
                chk.machinery("oracle calibration: SQLite itself disagrees with Upsert.tla on clause %s, existing %s, parameter sets %s at step %d: "
                              "table %r (model %r), returned %r (model outcome %s)" % (cfg["clause"], cfg["existing"], cfg["params"], j, tab,
                                                                                      b["states"][j], rows, b["outcomes"][j - 1]))
        if got_res != [(r["k"], r["v"], r["w"]) for r in b["result"]]:
            chk.machinery("oracle calibration: SQLite RETURNING rows %r, model %r (clause %s)" % (got_res, b["result"], cfg["clause"]))
    db.close()
    return steps


def behaviours(g):
    out = []
    for ik in g.inits:
        cur = ik
        states = [table_of(g.states[ik]["rows"])]
        outcomes = []
        edges = []
        while g.out[cur]:
            if len(g.out[cur]) != 1:
                raise RuntimeError("Upsert.tla is deterministic per behaviour; state has %d successors" % len(g.out[cur]))
            ei = g.out[cur][0]
            edges.append(ei)
            outcomes.append(g.edges[ei][1]["ret"])
            cur = g.edges[ei][2]
            states.append(table_of(g.states[cur]["rows"]))
        out.append(dict(cfg=g.states[ik], states=states, outcomes=outcomes, result=g.states[cur]["result"], edges=edges))
    return out


def apis_for(beh, kind):
    n = len(beh["cfg"]["params"])
    out = []
    for a in (APIS if kind == "sqlite" else PG_APIS):   # pgform and sqlite_sentinel: the executemany + RETURNING variants
        if a.startswith("many") or a == "orm_bulk_ret_sorted":
            if n < 2:
                continue
        if a == "multivalues_ret" and (n < 1 or beh["cfg"]["clause"] == "param"):
            continue
        if a == "orm_bulk" and n < 1:
            continue
        out.append(a)
    return out


_BEHS = None
_SEED = 0


def _work(idxs):
    res = []
    for bi in idxs:
        beh = _BEHS[bi]
        for kind in ("sqlite", "pgform", "sqlite_sentinel"):
            for api in apis_for(beh, kind):
                res.append((bi, api, kind, run_behaviour(beh, api, kind, _SEED * 1000003 + bi)))
    return res


# ------------------------------------------------------------------------------------------ compile-shape conformance
def parse_conflict(sql, params, positiontup=None):
    """structure of the conflict clause of a compiled INSERT: dict(update, target, where, set, bind)"""
    sql = " ".join(sql.split())
    m = re.search(r" ON CONFLICT(?: \((?P<cols>[^)]*)\))?(?: ON CONSTRAINT (?P<cons>\w+))?(?: WHERE (?P<iw>.*?))? DO (?P<act>NOTHING|UPDATE SET (?P<set>.*?))(?: RETURNING .*)?$", sql)
    if m:
        upd = m.group("act") != "NOTHING"
        set_at = m.start("set")
        target = "cols:" + m.group("cols").replace(" ", "") if m.group("cols") else ("constraint:" + m.group("cons") if m.group("cons") else None)
        setp, where = None, None
        if upd:
            setp = m.group("set")
            if " WHERE " in setp:
                setp, where = setp.split(" WHERE ", 1)
        index_where = m.group("iw")
    else:
        m = re.search(r" (?:AS (?P<alias>\w+) )?ON DUPLICATE KEY UPDATE (?P<set>.*?)$", sql)
        if not m:
            return None
        upd, target, where, index_where = True, "duplicate_key", None, None
        set_at = m.start("set")
        setp = m.group("set")
        setp = re.sub(r"VALUES\((\w+)\)", r"excluded.\1", setp)
        if m.group("alias"):
            setp = re.sub(r"\b%s\." % m.group("alias"), "excluded.", setp)
    kind, bind = "none", None
    if upd:
        mm = re.fullmatch(r"v = (.*)", setp)
        if not mm:
            return dict(update=upd, target=target, where=where, set="?" + setp, bind=None, index_where=index_where)
        rhs = mm.group(1)
        ph = re.fullmatch(r"(?:%\((\w+)\)s|:(\w+)|\$(\d+)(?:::\w+)?|\?|%s)(?:::\w+)?", rhs)
        if rhs == "excluded.v":
            kind = "excluded"
        elif rhs in ("(u.v + excluded.v)", "u.v + excluded.v"):
            kind = "sum"
        elif ph:
            name = ph.group(1) or ph.group(2)
            if name is None:
                # positional: numbered placeholders name their slot, plain ones are counted from the start of the statement
                if ph.group(3):
                    name = positiontup[int(ph.group(3)) - 1]
                else:
                    name = positiontup[len(re.findall(r"\?|%s", sql[:set_at]))]
            val = params.get(name)
            kind = "literal" if val is not None else "param"
            bind = (name, val)
        else:
            kind = "?" + rhs
    return dict(update=upd, target=target, where=where, set=kind, bind=bind, index_where=index_where)


def shape_conformance(chk, shapes):
    """shapes: clause -> Shape record from Upsert.tla.  SQLite (the executed reference), PostgreSQL (three drivers, index_elements /
    constraint / index_where targets) and MySQL / MariaDB must render exactly that structure."""
    from sqlalchemy import Column, Integer, MetaData, Table, UniqueConstraint, bindparam
    from sqlalchemy.dialects import mysql, postgresql, sqlite
    from sqlalchemy.dialects.mysql import insert as my_insert
    from sqlalchemy.dialects.postgresql import insert as pg_insert
    from sqlalchemy.dialects.sqlite import insert as sl_insert
    md = MetaData()
    t = Table("u", md, Column("id", Integer, primary_key=True), Column("k", Integer), Column("v", Integer), Column("w", Integer),
              UniqueConstraint("k", name="uq_u_k"))
    n = 0

    def check(name, sql, params, want, clause, positiontup=None):
        nonlocal n
        n += 1
        got = parse_conflict(sql, params, positiontup)
        sig = {"spec": "Upsert", "action": "Shape", "kind": "conformance", "dialect": name, "clause": clause}
        if got is None:
            chk.violation(sig, "%s/%s: no conflict clause in %s" % (name, clause, sql))
            return
        for key in ("update", "target", "where", "set", "index_where"):
            if got.get(key) != want.get(key):
                chk.violation(dict(sig, part=key), "%s/%s: %s is %r, Upsert.tla Shape wants %r: %s" % (name, clause, key, got.get(key), want.get(key), sql))
        if want["set"] == "literal" and (got["bind"] is None or got["bind"][1] != 77):
            chk.violation(dict(sig, part="bind"), "%s/%s: SET literal is bound to %r, not 77" % (name, clause, got["bind"]))
        if want["set"] == "param" and (got["bind"] is None or got["bind"][0] != "nv"):
            chk.violation(dict(sig, part="bind"), "%s/%s: SET parameter is %r, not the caller's nv" % (name, clause, got["bind"]))
    for clause, sh in shapes.items():
        want = dict(update=sh["update"], target="cols:k" if sh["target"] else None, where="u.v < excluded.v" if sh["where"] else None,
                    set=sh["set"], index_where=None)
        # SQLite + PostgreSQL: the same construct API
        for name, ins, dialect in (("sqlite", sl_insert, sqlite.dialect()), ("postgresql+psycopg2", pg_insert, postgresql.psycopg2.dialect()),
                                   ("postgresql+asyncpg", pg_insert, postgresql.asyncpg.dialect()),
                                   ("postgresql+psycopg", pg_insert, postgresql.psycopg.dialect())):
            stmt = with_clause(ins(t).values(k=1, v=2, w=3), t, clause)
            comp = stmt.compile(dialect=dialect)
            check(name, comp.string, comp.params, want, clause, comp.positiontup)
            if name.startswith("postgresql") and sh["target"]:
                base = ins(t).values(k=1, v=2, w=3)
                ex = base.excluded
                setv = {"excluded": ex.v, "literal": 77, "sum": t.c.v + ex.v, "param": bindparam("nv"), "none": None}[sh["set"]]
                where = (t.c.v < ex.v) if sh["where"] else None
                if sh["update"]:
                    s2 = base.on_conflict_do_update(constraint="uq_u_k", set_={"v": setv}, where=where)
                    s3 = base.on_conflict_do_update(index_elements=[t.c.k], index_where=(t.c.k > 0), set_={"v": setv}, where=where)
                else:
                    s2 = base.on_conflict_do_nothing(constraint="uq_u_k")
                    s3 = base.on_conflict_do_nothing(index_elements=[t.c.k], index_where=(t.c.k > 0))
                c2 = s2.compile(dialect=dialect)
                check(name + "/constraint", c2.string, c2.params, dict(want, target="constraint:uq_u_k"), clause, c2.positiontup)
                c3 = s3.compile(dialect=dialect, compile_kwargs={"literal_binds": False})
                w3 = dict(want)
                got3 = parse_conflict(c3.string, c3.params, c3.positiontup)
                if got3 is None or not got3.get("index_where") or not re.fullmatch(r"k > \S+", got3["index_where"]):
                    chk.violation({"spec": "Upsert", "action": "Shape", "kind": "conformance", "dialect": name + "/index_where", "clause": clause},
                                  "%s/%s: partial-index target not rendered: %s" % (name, clause, c3.string))
                else:
                    w3["index_where"] = got3["index_where"]
                    check(name + "/index_where", c3.string, c3.params, w3, clause, c3.positiontup)
        # MySQL / MariaDB: ON DUPLICATE KEY UPDATE has neither DO NOTHING nor WHERE
        if sh["update"] and not sh["where"]:
            for name, dialect in (("mysql", mysql.dialect()), ("mariadb", mysql.mariadbconnector.dialect())):
                base = my_insert(t).values(k=1, v=2, w=3)
                setv = {"excluded": base.inserted.v, "literal": 77, "sum": t.c.v + base.inserted.v, "param": bindparam("nv")}[sh["set"]]
                comp = base.on_duplicate_key_update(v=setv).compile(dialect=dialect)
                check(name, comp.string, comp.params, dict(want, target="duplicate_key"), clause, comp.positiontup)
    return n


def main(chk):
    global _BEHS, _SEED
    rng = random.Random(chk.seed)
    _SEED = chk.seed
    q = tlc.q
    consts = dict(Keys={1, 2}, MaxParams=3, AllBases=False) if chk.quick else dict(Keys={1, 2, 3}, MaxParams=3, AllBases=True)
    consts["Clauses"] = {q(c) for c in CLAUSES}
    cfgt = tlc.cfg(constants=consts, init="InitEmit", invariants=INVS, properties=PROPS, view="View", action_constraints=["Emit"])
    g = graph.dump("Upsert", cfgt, chk.work, timeout=2400)
    r = g.tlc
    if r.violated:
        chk.violation({"spec": "Upsert", "action": "TLC", "invariant": r.violated}, "TLC: %s violated in Upsert.tla" % r.violated)
    behs = behaviours(g)
    _BEHS = behs
    if sum(len(b["edges"]) for b in behs) != len(g.edges):
        chk.machinery("behaviours cover %d of %d edges" % (sum(len(b["edges"]) for b in behs), len(g.edges)))
    n_calib = calibrate(chk, behs)
    nproc = max(1, min(tlc.NPROC, 16, len(behs)))
    chunks = [list(range(i, len(behs), nproc)) for i in range(nproc)]
    if nproc == 1:
        results = [_work(chunks[0])]
    else:
        with mp.get_context("fork").Pool(nproc) as pool:
            results = pool.map(_work, chunks)
    runs = 0
    cov = {}
    for res in results:
        for bi, api, kind, mism in res:
            runs += 1
            key = "%s/%s" % (kind, api)
            cov[key] = cov.get(key, 0) + 1
            cfg = behs[bi]["cfg"]
            for extra, text in mism:
                sig = {"spec": "Upsert", "action": "Behaviour", "kind": "conformance", "engine": kind, "api": api, "clause": cfg["clause"],
                       "sort": api.endswith("sorted"), "nparams": len(cfg["params"])}
                sig.update(extra)
                chk.violation(sig, "%s dialect, %s, clause %s, existing keys %s, parameter keys %s: %s"
                              % (kind, api, cfg["clause"], cfg["existing"], [p["k"] for p in cfg["params"]], text),
                              dict(cfg={k: cfg[k] for k in ("existing", "clause", "params")}, api=api, engine=kind, mismatch=text,
                                   outcomes=behs[bi]["outcomes"], states=behs[bi]["states"], result=behs[bi]["result"]))
    acts = {}
    nontriv = 0
    for e in g.edges:
        key = "%s/%s" % (g.states[e[0]]["clause"], e[1]["ret"])
        acts[key] = acts.get(key, 0) + 1
    for b in behs:
        if any(o != "insert" for o in b["outcomes"]):
            nontriv += 1
    for c in CLAUSES:
        need = ["insert", "skip"] + (["update"] if c not in ("nothing", "nothing_any") else [])
        if c in ("excluded", "literal", "sum", "param"):
            need.remove("skip")
        for o in need:
            if not acts.get("%s/%s" % (c, o)):
                chk.machinery("vacuous: no edge %s/%s" % (c, o))
    shapes = {}
    for b in behs:
        shapes.setdefault(b["cfg"]["clause"], b["cfg"]["shape"])
    n_shapes = shape_conformance(chk, shapes)
    pick = [b for b in behs if len(b["outcomes"]) == 3 and len(set(b["outcomes"])) == 3]
    samples = [dict(existing=b["cfg"]["existing"], clause=b["cfg"]["clause"], params=b["cfg"]["params"], outcomes=b["outcomes"],
                    result=b["result"], final=b["states"][-1]) for b in (rng.sample(pick, min(3, len(pick))) if pick else behs[:2])]
    return chk.finish(
        dict(states=r.distinct, transitions=r.generated, traces_validated_against_impl=runs, distinct_nontrivial=nontriv, evaluations=runs,
             behaviours=len(behs), edges=len(g.edges), api_runs=cov, edge_classes=acts, shape_cases=n_shapes, samples=samples, exhaustive=True,
             sqlite_calibration_steps=n_calib,
             rule="one case = one behaviour of Upsert.tla (existing rows x clause x parameter list), executed once per API variant and dialect "
                  "configuration; non-trivial = at least one parameter set conflicts (outcome update or skip)",
             checker_cmd="tlc Upsert.tla (VIEW View, ACTION_CONSTRAINT Emit)", constants={k: sorted(v) if isinstance(v, set) and k == "Keys" else v
                                                                                         for k, v in consts.items() if k != "Clauses"}),
        assumptions=["SQLite executes; PostgreSQL / MySQL: compiled statement structure only",
                     "PostgreSQL-shaped dialect configuration executed on SQLite through the alias-rewriting cursor",
                     "RETURNING of a batched statement is shuffled (seeded) by the cursor; unsorted results are compared as multisets"])
