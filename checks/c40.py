"""C40 loader strategies change how data is loaded, never what is loaded - OrmQuery.tla part 1 (DESIGN 3.14, 4 C40-C42).

The specification defines the result rows of every query (Eval) and, separately, the object graph of every entity as a function of the
DATA SET ALONE (GraphP / GraphC: collections in id order, attribute values, NULLs, empty collections) - so a loader strategy or column
option has nowhere to enter: that is the property.  TLC checks the theorems of part 1 on every (data set, query) case and prints it.
Binding: every case that returns entities is executed under EVERY assignment of {lazy, joined, subquery, selectin, immediate} to the
relationship path of its root (P.children -> C.gs, or C.parent + C.gs), as query options, as mapper-level lazy= configuration and as
options overriding a different mapper-level configuration, combined with column options {defer, load_only, undefer on deferred columns,
deferred columns untouched, with_expression, raiseload on an untouched relationship}, aliased root entities, yield_per where supported,
a warm identity map, populate_existing, Result.unique(); the primary rows must equal the spec's rows (uniq under unique()) and the
snapshot of every returned entity (attributes, collections in order, two levels deep, back references) must equal the spec's graph.
"""
import itertools
import random

from checks import ormquery_common as oq

LEVEL = "model_checking"
MANIFEST = dict(
    text="OrmQuery.tla defines query results relationally and the loaded object graph (P.children ordered by id -> C.gs ordered by id, "
         "C.parent, every attribute value incl. NULLs and empty collections) as a function of the data set alone. Every TLC-enumerated case "
         "(systematic query grid incl. LIMIT/OFFSET, DISTINCT and joins - the hard cases of joined eager loading - plus seeded random queries "
         "and data sets of <=3 x <=3 x <=2 rows) that returns entities is executed on SQLite under all 25 assignments of {lazy, joined, subquery, "
         "selectin, immediate} along the root's relationship path, given as query options, as mapper configuration or as options overriding "
         "another mapper configuration, with column options (defer, load_only, undefer, deferred, with_expression, raiseload untouched), "
         "aliased roots, yield_per, warm identity map, populate_existing, unique(): rows and the two-level snapshot of every entity must "
         "equal the specification's. Statement counts are not compared, contents always.",
    design_ref="3.14 (OrmQuery), 4 (C40-C42)",
    note="trusted: TLC; the spec's relational semantics is calibrated against a hand-built Core statement on SQLite in C41; bounds: "
         "relationship path of length 2, 3 tables, values 1..2 + NULL; noload and raiseload-when-triggered change contents by definition and "
         "are excluded; yield_per only with the strategies that support it; SQLite only",
    technique="TLA+ spec (OrmQuery.tla) + TLC theorem checking on every enumerated case; spec->code replay of every entity-returning case "
              "under every loader-strategy assignment")

INVS = ["Theorems"]
CASES = []
SEED = 0
TIER = "quick"
NAME = dict(lazy="lazyload", joined="joinedload", subquery="subqueryload", selectin="selectinload", immediate="immediateload")
COLOPTS = ["none", "defer", "load_only", "undefer", "deferred", "wexpr", "raise"]
YP_OK = ("lazy", "selectin", "immediate")


def _sig(q, v, kind):
    return dict(spec="OrmQuery", action="load", kind=kind, root=q["root"], s1=v["s1"], s2=v["s2"], mode=v["mode"], colopt=v["colopt"],
                alias=v["alias"], warm=v["warm"], yp=v["yp"], unique=v["unique"], pe=v["pe"], pf=q["pf"], jn=q["jn"], sel=q["sel"],
                dist=q["dist"], ord=q["ord"], lim=q["lim"] != -1, off=q["off"] != -1)


def variants(q, rng, per_assignment):
    out = []
    for s1, s2 in itertools.product(oq.STRATS, oq.STRATS):
        for _ in range(per_assignment):
            v = dict(s1=s1, s2=s2, mode=rng.choice(("opt", "opt", "map", "over")), colopt=rng.choice(COLOPTS),
                     alias=rng.random() < 0.25, warm=rng.random() < 0.25, yp=False, unique=rng.random() < 0.4, pe=False)
            if v["warm"]:
                v["pe"] = rng.random() < 0.4
            if s1 in YP_OK and s2 in YP_OK and v["mode"] != "over" and rng.random() < 0.3:
                v["yp"] = True
                v["unique"] = False
            if q["pf"] == "uni":
                v["alias"] = False          # the root already is an aliased entity over the UNION
            out.append(v)
    return out


def build(q, v, rel, sa, orm, ds, rng):
    """-> (statement with loader options, mapping)"""
    s1, s2, mode, colopt = v["s1"], v["s2"], v["mode"], v["colopt"]
    root = q["root"]
    kw = dict(deferred=colopt in ("undefer", "deferred"), expr=colopt == "wexpr")
    if mode == "opt":
        M = rel.mapping(**kw)
    elif mode == "map":
        M = rel.mapping(children=s1, gs=s2, **kw) if root == "P" else rel.mapping(parent=s1, gs=s2, **kw)
    else:
        o1, o2 = rng.choice(oq.STRATS), rng.choice(oq.STRATS)
        M = rel.mapping(children=o1, gs=o2, **kw) if root == "P" else rel.mapping(parent=o1, gs=o2, **kw)
    P, C, G = M.P, M.C, M.G
    if q["pf"] == "uni":
        R0 = P if root == "P" else C
        rattr = R0.x if root == "P" else R0.y
        down = R0.children if root == "P" else R0.gs
        u = sa.union(sa.select(R0).where(rattr == q["pv"]), sa.select(R0).where(down.any())).subquery()
        pt = oq.orm_parts(dict(q, pf="none"), M, sa, orm, False, root_entity=orm.aliased(R0, u), ds=ds)
    else:
        pt = oq.orm_parts(q, M, sa, orm, v["alias"], ds=ds)
    R, J = pt["R"], pt["J"]
    stmt = oq.orm_select(q, M, sa, orm, parts=pt)
    opts = []
    L = lambda s, attr: getattr(orm, NAME[s])(attr)      # noqa: E731
    explicit = mode != "map"
    if root == "P":
        sub = []
        if explicit:
            g = L(s2, C.gs)
            if colopt == "raise":
                g = g.raiseload(G.child)
            sub.append(g)
        elif colopt == "raise":
            sub.append(orm.defaultload(C.gs).raiseload(G.child))
        if colopt == "defer":
            opts.append(orm.defer(R.x))
            sub.append(orm.defer(C.y))
        elif colopt == "load_only":
            opts.append(orm.load_only(R.id))
            sub.append(orm.load_only(C.id))
        elif colopt == "undefer":
            opts.append(orm.undefer(R.x))
            sub.append(orm.undefer(C.y))
        elif colopt == "wexpr":
            opts.append(orm.with_expression(R.xp, R.x + 10))
        head = L(s1, R.children) if explicit else (orm.defaultload(R.children) if sub else None)
        if head is not None:
            opts.append(head.options(*sub) if sub else head)
        if J is not None and q["sel"] == "pair" and explicit:
            opts.append(L(s2, J.gs))          # the C entity selected next to its parent: same strategy for its collection
    else:
        if explicit:
            par = L(s1, R.parent)
            gs = L(s2, R.gs)
        else:
            par = gs = None
        if colopt == "defer":
            opts.append(orm.defer(R.y))
            par = (par or orm.defaultload(R.parent)).options(orm.defer(P.x))
        elif colopt == "load_only":
            opts.append(orm.load_only(R.id))
            par = (par or orm.defaultload(R.parent)).options(orm.load_only(P.id))
        elif colopt == "undefer":
            opts.append(orm.undefer(R.y))
            par = (par or orm.defaultload(R.parent)).options(orm.undefer(P.x))
        elif colopt == "wexpr":
            opts.append(orm.with_expression(R.yp, R.y + 10))
        elif colopt == "raise":
            gs = (gs or orm.defaultload(R.gs)).raiseload(G.child)
        opts += [o for o in (par, gs) if o is not None]
    if opts:
        stmt = stmt.options(*opts)
    eo = {}
    if v["yp"]:
        eo["yield_per"] = 1
    if v["pe"]:
        eo["populate_existing"] = True
    if eo:
        stmt = stmt.execution_options(**eo)
    return stmt, M


def check_entity(cls, o, c, colopt, is_root=True):
    """None or text: the loaded graph of entity o differs from the spec's graph"""
    if cls == "P":
        got, want = oq.snap_p(o), c["pgraph"][o.id - 1]
        if got != want:
            return "P#%d loaded as %r, the data set says %r" % (o.id, got, want)
        for ch in o.children:
            if colopt != "raise" and ch.parent is not o:
                return "P#%d: child %d .parent is not its parent object" % (o.id, ch.id)
        if colopt == "wexpr" and is_root and oq.z(o.xp) != (want["x"] + 10 if want["x"] else 0):
            return "P#%d: with_expression(x + 10) = %r, x = %r" % (o.id, o.xp, want["x"])
    elif cls == "C":
        got, want = oq.snap_c(o), c["cgraph"][o.id - 1]
        if got != want:
            return "C#%d loaded as %r, the data set says %r" % (o.id, got, want)
        par = o.parent
        if want["pid"] == 0:
            if par is not None:
                return "C#%d: parent %r, pid is NULL" % (o.id, par.id)
        else:
            pw = c["pgraph"][want["pid"] - 1]
            if par is None or (par.id, oq.z(par.x)) != (pw["id"], pw["x"]):
                return "C#%d: parent loaded as %r, the data set says %r" % (o.id, par and (par.id, par.x), (pw["id"], pw["x"]))
        if colopt == "wexpr" and is_root and oq.z(o.yp) != (want["y"] + 10 if want["y"] else 0):
            return "C#%d: with_expression(y + 10) = %r, y = %r" % (o.id, o.yp, want["y"])
    else:
        got = oq.snap_g(o)
        want = {"id": o.id, "z": c["ds"]["gz"][o.id - 1], "cid": c["ds"]["gc"][o.id - 1]}
        if got != want:
            return "G#%d loaded as %r, the data set says %r" % (o.id, got, want)
    return None


def worker(indices):
    import sqlalchemy as sa
    from sqlalchemy import orm
    oq.quiet()
    rel = oq.Rel()
    rng = random.Random(SEED * 104729 + (indices[0] if indices else 0))
    per = 1
    viol = []
    cnt = dict(cases=0, runs=0, nontrivial=0, entities=0, sql=0, assignments=0)
    strat_cov = {}
    for ci in indices:
        c = CASES[ci]
        q, ds = c["q"], c["ds"]
        cnt["cases"] += 1
        rel.load(ds)
        exp = [tuple(r) for r in c["rows"]]
        uq = [tuple(r) for r in c["uniq"]]
        root = q["root"]
        shape = [root] + ([("P" if q["jn"] in oq.JUP else ("C" if root == "P" else "G"))] if q["sel"] == "pair" else [])
        # non-trivial: some returned root entity has a non-empty collection (there is something an eager loader could get wrong)
        nt = False
        for t in exp:
            g = c["pgraph"][t[0] - 1]["cs"] if root == "P" else c["cgraph"][t[0] - 1]["gs"]
            nt = nt or bool(g)
        if nt:
            cnt["nontrivial"] += 1
        for v in variants(q, rng, per):
            cnt["runs"] += 1
            if nt:
                strat_cov[(v["s1"], v["s2"])] = strat_cov.get((v["s1"], v["s2"]), 0) + 1
            try:
                stmt, M = build(q, v, rel, sa, orm, ds, rng)
                n0 = rel.nsql
                with orm.Session(rel.engine) as s:
                    if v["warm"]:
                        R0 = M.P if root == "P" else M.C
                        w = s.get(R0, 1)
                        if w is not None:
                            (w.children if root == "P" else w.gs)
                    unique = v["unique"]
                    try:
                        res = s.execute(stmt)
                        rows = res.unique().all() if unique else res.all()
                    except sa.exc.InvalidRequestError as ex:
                        if unique or "unique()" not in str(ex):
                            raise
                        # joined eager loading of a collection demands unique(): part of HOW; the contents are compared under unique()
                        unique = True
                        s.rollback()
                        rows = s.execute(stmt).unique().all()
                    want = uq if unique else exp
                    tups = [oq.orm_tuple(r, q["sel"]) for r in rows]
                    ok = tups == want if c["ordered"] else sorted(tups) == sorted(want)
                    if not ok:
                        viol.append((_sig(q, v, "rows"), "primary rows %r under %r, the query means %r%s; q=%r ds=%r" % (
                            tups, v, want, " (unique)" if unique else "", q, ds), dict(case=c, variant=v)))
                        continue
                    msg = None
                    for r in rows:
                        for pos, (cls, o) in enumerate(zip(shape, r)):
                            if o is None or isinstance(o, int):
                                continue
                            cnt["entities"] += 1
                            msg = msg or check_entity(cls, o, c, v["colopt"], is_root=pos == 0)
                    if msg:
                        viol.append((_sig(q, v, "graph"), "%s under %r; q=%r ds=%r" % (msg, v, q, ds), dict(case=c, variant=v)))
                cnt["sql"] += rel.nsql - n0
            except Exception as ex:       # a loader that raises on a well-formed query did not load what the query means
                import traceback
                viol.append((dict(_sig(q, v, "exception"), exc=type(ex).__name__),
                             "%s: %s under %r; q=%r ds=%r" % (type(ex).__name__, " ".join(str(ex).split())[:300], v, q, ds),
                             dict(case=c, variant=v, tb=traceback.format_exc()[-1500:])))
    return viol, cnt, strat_cov


def plans_for(chk):
    base = dict(oq.BASE)
    sc = oq.scale()
    if chk.quick:
        return [("InitPart1", dict(base, K=1, GridKeepF=max(1, int(20 * sc)), GridKeep=max(1, int(25 * sc)), NQ=int(800 * sc)))]
    return [("InitPart1", dict(base, K=1, GridKeepF=60, GridKeep=60, NQ=int(2000 * sc))),
            ("InitPart1", dict(base, K=0, NQ=int(2000 * sc), NP=2, NC=3, NG=3))]


def main(chk):
    global CASES, SEED, TIER
    SEED, TIER = chk.seed, chk.tier
    allcases, runs = oq.generate(chk, plans_for(chk), INVS, timeout=900 if chk.quick else 3000)
    cases = [c for c in allcases if c["q"]["sel"] in oq.ENTITY_SELS]
    rng = random.Random(chk.seed)
    rng.shuffle(cases)
    CASES = cases
    res = oq.pmap(worker, len(cases))
    tot = dict(cases=0, runs=0, nontrivial=0, entities=0, sql=0)
    scov = {}
    for viol, cnt, sc in res:
        for sig, what, rp in viol:
            chk.violation(sig, what, rp)
        for k_ in tot:
            tot[k_] += cnt[k_]
        for k_, v in sc.items():
            scov["%s/%s" % k_] = scov.get("%s/%s" % k_, 0) + v
    for s1, s2 in itertools.product(oq.STRATS, oq.STRATS):
        if oq.scale() >= 1 and not chk.violations and not scov.get("%s/%s" % (s1, s2)):
            chk.machinery("vacuous: strategy assignment %s/%s never ran on a case with a non-empty collection" % (s1, s2))
    hard = sum(1 for c in cases if c["rows"] and (c["q"]["lim"] != -1 or c["q"]["off"] != -1 or c["q"]["dist"]) and c["q"]["jn"] != "none")
    if oq.scale() >= 1 and not hard and not chk.violations:
        chk.machinery("vacuous: no LIMIT/OFFSET/DISTINCT query over a join with a non-empty result")
    samples = [dict(ds=c["ds"], q=c["q"], rows=c["rows"], graph_of_first=(c["pgraph"] if c["q"]["root"] == "P" else c["cgraph"])[c["rows"][0][0] - 1])
               for c in cases if c["rows"] and c["q"]["lim"] != -1 and c["q"]["jn"] != "none"][:3]
    return chk.finish(
        dict(states=sum(r["distinct"] for r in runs), transitions=sum(r["generated"] for r in runs),
             traces_validated_against_impl=tot["cases"], evaluations=tot["runs"], distinct_nontrivial=tot["nontrivial"],
             entities_snapshotted=tot["entities"], sql_statements=tot["sql"], limit_distinct_join_cases=hard, strategy_runs_nontrivial=scov,
             samples=samples, tlc_runs=runs, exhaustive=False,
             rule="one case per TLC initial state (data set x query) that returns entities; every case runs under all 25 strategy assignments "
                  "(x column option / mode / alias / warm / yield_per / unique drawn per run); non-trivial = a returned root entity has a "
                  "non-empty collection",
             checker_cmd="tlc OrmQuery.tla (INIT InitPart1, INVARIANT Theorems)"),
        assumptions=["SQLite only; bounded data sets; relationship path of length 2 (P.children -> C.gs; C.parent, C.gs)",
                     "noload / triggered raiseload excluded (they change contents by definition); statement counts not compared",
                     "Result.unique() is applied where joined eager loading of a collection requires it; the spec's `uniq` is then expected"])
