"""ORM fixtures and drivers binding PyCollections.tla to instrumented relationship collections (C38).

A fixture = one mapped Parent class with one relationship `coll` to its own Child class using a given collection class,
with append / remove / bulk_replace / append_wo_mutation listeners that record item LABELS.  No database is involved: the
property is about the in-memory collection and the attribute events it fires.
"""
import itertools

from checks import pycoll_common as pc

_seq = itertools.count()


class Fixture:
    def __init__(self, name, kind, collection_class, backref=False):
        import sqlalchemy as sa
        from sqlalchemy import event
        from sqlalchemy.orm import registry, relationship
        self.name, self.kind = name, kind
        reg = registry()
        n = next(_seq)
        ptab = sa.Table("p%d" % n, reg.metadata, sa.Column("id", sa.Integer, primary_key=True))
        ctab = sa.Table("c%d" % n, reg.metadata, sa.Column("id", sa.Integer, primary_key=True),
                        sa.Column("pid", sa.ForeignKey("p%d.id" % n)), sa.Column("kw", sa.String))

        class Parent:
            pass

        class Child:
            def __init__(self, lab):
                self.lab = lab
                self.kw = pc.key_str(lab % 10)

            def __repr__(self):
                return "c%d" % self.lab

        self.Parent, self.Child = Parent, Child
        reg.map_imperatively(Child, ctab)
        kw = dict(collection_class=collection_class(Child) if getattr(collection_class, "_needs_child", False) else collection_class)
        if backref:
            kw["backref"] = "parent"
        reg.map_imperatively(Parent, ptab, properties={"coll": relationship(Child, **kw)})
        reg.configure()
        self.backref = backref
        self.ev_add, self.ev_rem, self.ev_bulk, self.ev_wo = [], [], [], []
        event.listen(Parent.coll, "append", lambda t, v, i: self.ev_add.append(v.lab))
        event.listen(Parent.coll, "remove", lambda t, v, i: self.ev_rem.append(v.lab))
        event.listen(Parent.coll, "bulk_replace", lambda t, v, i: self.ev_bulk.append([x.lab for x in v]))
        event.listen(Parent.coll, "append_wo_mutation", lambda t, v, i: self.ev_wo.append(v.lab))
        self.pool = {}

    # ---- one collection instance
    def fresh(self, val, shared_items=True):
        """New parent whose collection holds `val` (spec value) without having fired events."""
        from sqlalchemy.orm.attributes import set_committed_value
        if not shared_items or self.backref:
            self.pool = {}
        p = self.Parent()
        self.parent = p
        items = pc.Items(self.kind, val)
        objs = [self.item(i) for i in items]
        if self.kind == "set":
            init = set(objs)
        else:
            init = objs
        set_committed_value(p, "coll", init)
        if self.backref:
            for o in objs:
                set_committed_value(o, "parent", p)
        self.clear_events()
        return p.coll

    def clear_events(self):
        del self.ev_add[:], self.ev_rem[:], self.ev_bulk[:], self.ev_wo[:]

    def item(self, i):
        o = self.pool.get(i)
        if o is None:
            o = self.pool[i] = self.Child(i)
        return o

    @staticmethod
    def label(o):
        return o.lab

    def assign(self, v):
        self.parent.coll = set(v) if self.kind == "set" else v

    def coll(self):
        return self.parent.coll

    def mkself(self, items):
        c = self.parent.coll.__class__
        try:
            return c(items)
        except TypeError:
            r = c()
            for x in items:
                (r.add if hasattr(r, "add") else r.append)(x)
            return r

    def run_case(self, case, argform="list"):
        """Perform one TLC case on a fresh collection. Returns None or (class, text) of the first mismatch."""
        kind, op, exp = self.kind, case["op"], case["exp"]
        t = self.fresh(case["val"])
        old = pc.contents(kind, t, self.label, pc.unkey_str)
        old_items = pc.Items(kind, case["val"])
        exc, rk, ret = pc.perform(kind, t, op, item=self.item, label=self.label, mkself=self.mkself, key=pc.key_str,
                                  assign=self.assign, argform=argform, sortkey=self.label)
        t2 = self.parent.coll
        got = pc.contents(kind, t2, self.label, pc.unkey_str)
        m = pc.outcome_mismatch(kind, exp, exc, rk, ret, got, old, unkey=pc.unkey_str)
        self.legacy = None
        if op["n"] == "setslice" and not (argform == "iter" and pc.dec(op["c"]) not in (None, 1)):
            lexc, lval = legacy_setslice(case["val"], slice(pc.dec(op["a"]), pc.dec(op["b"]), pc.dec(op["c"])), list(op["v"]))
            self.legacy = (lexc == exc and (lval == got or lexc != "none"))
        if m:
            return "outcome", m
        if op["n"] != "assign" and t2 is not t:
            return "outcome", "the attribute no longer returns the same collection object after %s" % op["n"]
        new_items = [x if not isinstance(x, list) else x[1] for x in got]
        m = pc.events_mismatch(kind, old_items, new_items, list(self.ev_add), list(self.ev_rem), exp,
                               members_only=(op["n"] == "assign"))
        if m:
            return "events", m
        if op["n"] == "assign" and len(self.ev_bulk) != 1:
            return "events", "bulk_replace fired %d times for one assignment" % len(self.ev_bulk)
        if op["n"] != "assign" and self.ev_bulk:
            return "events", "bulk_replace fired for %s" % op["n"]
        if self.backref and len(set(new_items)) == len(new_items) and len(set(old_items)) == len(old_items):
            for lab, o in self.pool.items():
                has = lab in new_items
                if (o.parent is self.parent) != has:
                    return "backref", "item %d: in collection=%s but item.parent is %r" % (lab, has, o.parent)
        return None


def legacy_setslice(l, sl, value):
    """The pinned tree's _list_decorators.__setitem__ slice branch (before fix 9cb0b6d) run on a plain list: returns
    (exc, contents).  Used ONLY to make the known-finding signature exact: a slice-assignment divergence is attributed to the
    known defect when the collection did precisely what this algorithm does."""
    l = list(l)
    try:
        step = sl.step or 1
        start = sl.start or 0
        if start < 0:
            start += len(l)
        stop = sl.stop if sl.stop is not None else len(l)
        if stop < 0:
            stop += len(l)
        if step == 1:
            for i in range(start, stop, step):
                if len(l) > start:
                    del l[start]
            for i, item in enumerate(value):
                l.insert(i + start, item)
        else:
            rng = list(range(start, stop, step))
            if len(value) != len(rng):
                raise ValueError("size")
            for i, item in zip(rng, value):
                l[i] = item
    except Exception as e:
        return type(e).__name__, l
    return "none", l


# ----------------------------------------------------------------------------- collection classes under test
def collection_classes():
    """name -> (kind, collection_class) for every collection flavour the property names."""
    from sqlalchemy.orm import attribute_keyed_dict, keyfunc_mapping, column_keyed_dict
    from sqlalchemy.orm.collections import collection, KeyFuncDict

    class MyList(list):
        """user subclass: instrumented by duck typing through _list_decorators"""

    class MySet(set):
        pass

    class ObjList:
        """not a list at all: bare `collection` decorators (appender / remover / iterator / adds / replaces / removes_return)"""
        __emulates__ = list

        def __init__(self):
            self.data = []

        @collection.appender
        def append(self, x):
            self.data.append(x)

        @collection.remover
        def remove(self, x):
            self.data.remove(x)

        @collection.iterator
        def __iter__(self):
            return iter(self.data)

        def __len__(self):
            return len(self.data)

        @collection.adds(2)
        def insert(self, i, x):
            self.data.insert(i, x)

        @collection.removes_return()
        def pop(self, i=-1):
            return self.data.pop(i)

        @collection.replaces(2)
        def __setitem__(self, i, x):
            old = self.data[i]
            self.data[i] = x
            return old

        def __getitem__(self, i):
            return self.data[i]

        def index(self, x):
            return self.data.index(x)

        def count(self, x):
            return self.data.count(x)

        def __contains__(self, x):
            return x in self.data

        def sort(self, key=None):
            self.data.sort(key=key)

        def reverse(self):
            self.data.reverse()

    def colkeyed(Child):
        return column_keyed_dict(Child.__mapper__.local_table.c.kw)
    colkeyed._needs_child = True

    return {
        "InstrumentedList": ("list", list),
        "MyList(list)": ("list", MyList),
        "ObjList(@collection)": ("list", ObjList),
        "InstrumentedSet": ("set", set),
        "MySet(set)": ("set", MySet),
        "attribute_keyed_dict": ("dict", attribute_keyed_dict("kw")),
        "keyfunc_mapping": ("dict", keyfunc_mapping(lambda c: c.kw)),
        "column_keyed_dict": ("dict", colkeyed),
    }


OBJLIST_OPS = {"getitem", "setitem", "insert", "pop", "remove", "append", "index", "count", "contains", "sort", "reverse", "assign"}


class SeqDriver:
    """Replays walks of the sequence machines (NextList / NextSet / NextDict) on ONE collection instance per walk."""

    def __init__(self, fx, rng):
        self.fx, self.rng = fx, rng
        self.in_step = True

    def reset(self, state):
        self.t = self.fx.fresh(state, shared_items=False)
        self.dups = False
        self.in_step = True

    def step(self, frm, act, to):
        fx, kind = self.fx, self.fx.kind
        op, exp = act["op"], act["exp"]
        t = fx.parent.coll
        old = pc.contents(kind, t, fx.label, pc.unkey_str)
        old_items = pc.Items(kind, frm)
        fx.clear_events()
        argform = self.argform = self.rng.choice(("list", "iter", "tuple"))
        exc, rk, ret = pc.perform(kind, t, op, item=fx.item, label=fx.label, mkself=fx.mkself, key=pc.key_str,
                                  assign=fx.assign, argform=argform, sortkey=fx.label)
        if kind == "set" and op["n"] == "pop" and exc == "none" and ret != op["b"] and ret in old:
            # set.pop() took another member than the edge chose: exchange the two labels (both were members)
            x, y = op["b"], ret
            ox, oy = fx.pool[x], fx.pool[y]
            ox.lab, oy.lab = y, x
            fx.pool[x], fx.pool[y] = oy, ox
            fx.ev_rem[:] = [x if l == y else l for l in fx.ev_rem]
            ret = x
        got = pc.contents(kind, fx.parent.coll, fx.label, pc.unkey_str)
        self.in_step = (got == pc.exp_contents(kind, to))
        m = pc.outcome_mismatch(kind, exp, exc, rk, ret, got, old, unkey=pc.unkey_str)
        self.legacy = None
        if op["n"] == "setslice" and not (argform == "iter" and pc.dec(op["c"]) not in (None, 1)):
            lexc, lval = legacy_setslice(frm, slice(pc.dec(op["a"]), pc.dec(op["b"]), pc.dec(op["c"])), list(op["v"]))
            self.legacy = (lexc == exc and (lval == got or lexc != "none"))
        if m:
            return "outcome", m
        new_items = pc.Items(kind, to)
        self.dups = self.dups or len(set(new_items)) != len(new_items) or len(set(op["v"] and map(str, op["v"]) or ())) != len(op["v"])
        m = pc.events_mismatch(kind, old_items, new_items, list(fx.ev_add), list(fx.ev_rem), exp, members_only=(op["n"] == "assign"))
        if m:
            return "events", m
        if fx.backref and not self.dups:
            for lab, o in fx.pool.items():
                if (o.parent is fx.parent) != (lab in new_items):
                    return "backref", "item %d: in collection=%s but item.parent is %r" % (lab, lab in new_items, o.parent)
        return None

    def finish(self, state):
        # drain: empty the collection through the public API; every remaining member must leave with exactly one remove event
        fx, kind = self.fx, self.fx.kind
        t = fx.parent.coll
        members = pc.Items(kind, state)
        fx.clear_events()
        t.clear()
        if pc.bag(fx.ev_rem) != pc.bag(members) or fx.ev_add:
            return "events", "drain: clear() of %r fired remove %r append %r" % (members, list(fx.ev_rem), list(fx.ev_add))
        if len(t) != 0:
            return "outcome", "drain: collection not empty after clear()"
        return None
