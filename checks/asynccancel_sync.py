"""C29 clause (a) "sync == async": the walks of ConnTxn.tla (the specification of the SYNC Connection, verified for C23)
are replayed through AsyncConnection / AsyncTransaction with the SAME expected observations.

AsyncConnDriver reuses checks.conntxn_driver.Driver.step unchanged: the connection and the transaction handles it works on
are thin adapters whose methods return the awaitable of the asyncio API; `_call` runs each awaitable to completion on the
driver's own event loop (one public call per step).  Two drivers underneath:
    impl="aiosqlite"   the real driver (worker thread; timing not controllable - clause (a) only)
    impl="fake"        checks.async_fakedriver (every driver call suspends once)
Extra observation (not in ConnTxn's Obs): while a transaction is open and usable the rows the connection ITSELF sees
(SELECT through AsyncConnection.execute -> AsyncAdapt cursor -> await_) must be committed + the rows of the open frames.
"""
import asyncio
import inspect
import os
import sqlite3
import warnings

from checks.conntxn_driver import Driver


class _H:
    """AsyncTransaction seen through the sync Transaction surface Driver.step uses"""

    def __init__(self, at):
        self.at = at

    def commit(self):
        return self.at.commit()

    def rollback(self):
        return self.at.rollback()

    def close(self):
        return self.at.close()

    def __enter__(self):
        # what AsyncTransaction.start(is_ctxmanager=True) does after begin(): the sync transaction enters its context
        return self.at.sync_transaction.__enter__()

    def __exit__(self, t, v, tb):
        return self.at.__aexit__(t, v, tb)


class _C:
    def __init__(self, ac, sa):
        self.ac = ac
        self.sa = sa

    def begin(self):
        return self.ac.begin()

    def begin_nested(self):
        return self.ac.begin_nested()

    def execute(self, stmt, params=None):
        return self.ac.execute(stmt, params)

    def commit(self):
        return self.ac.commit()

    def rollback(self):
        return self.ac.rollback()

    def close(self):
        return self.ac.close()

    def get_transaction(self):
        t = self.ac.get_transaction()
        return _H(t) if t is not None else None

    @property
    def closed(self):
        return self.ac.closed

    def in_transaction(self):
        return self.ac.in_transaction()

    def in_nested_transaction(self):
        return self.ac.in_nested_transaction()


async def _await(x):
    return await x


class AsyncConnDriver(Driver):
    def __init__(self, wid, workdir, impl="aiosqlite"):
        os.makedirs(workdir, exist_ok=True)
        self.path = os.path.join(workdir, "db_%s.sqlite" % impl)
        if os.path.exists(self.path):
            os.unlink(self.path)
        self.obs = sqlite3.connect(self.path, isolation_level=None)
        self.obs.execute("create table t (id integer primary key)")
        import sqlalchemy as sa
        from sqlalchemy.ext.asyncio import create_async_engine
        from sqlalchemy.pool import NullPool
        self.sa = sa
        self.loop = asyncio.new_event_loop()
        kw = {}
        if impl == "fake":
            from sqlalchemy.dialects.sqlite.aiosqlite import AsyncAdapt_aiosqlite_dbapi
            from checks.async_fakedriver import make_fake
            self.fake = make_fake()
            kw["module"] = AsyncAdapt_aiosqlite_dbapi(self.fake, sqlite3)
        self.engine = create_async_engine("sqlite+aiosqlite:///" + self.path, connect_args={"autocommit": False},
                                          poolclass=NullPool, **kw)
        self.conn = None
        self.handles = []
        self.selects = 0

    def _run(self, aw):
        return self.loop.run_until_complete(_await(aw))

    def reset(self, state):
        if self.conn is not None:
            try:
                self._run(self.conn.ac.close())
            except Exception:      # noqa
                pass
        self.obs.execute("delete from t")
        self.handles = []
        self.broken = None
        try:
            self.conn = _C(self._run(self.engine.connect()), self.sa)
        except Exception as e:      # noqa  - a tree on which AsyncEngine.connect() fails: every walk reports it as a divergence
            self.conn = None
            self.broken = "await engine.connect() raised %r" % (e,)

    def _call(self, fn):
        from sqlalchemy.ext.asyncio import AsyncTransaction
        with warnings.catch_warnings(record=True) as w:
            warnings.simplefilter("always")
            try:
                res = fn()
                if inspect.isawaitable(res):
                    res = self._run(res)
                ret = "ok"
            except Exception as e:      # noqa
                res = None
                ret = type(e).__name__
        if isinstance(res, AsyncTransaction):
            res = _H(res)
        if any(issubclass(x.category, self.sa.exc.SAWarning) for x in w):
            ret += "+warn"
        return ret, res

    def step(self, frm, act, to):
        if self.broken:
            return self.broken
        m = Driver.step(self, frm, act, to)
        if m:
            return m
        # the transaction's own view, only where reading it cannot change the state the spec tracks
        o = act["obs"]
        if o["closed"] or not o["intx"]:
            return None
        h = to["h"]
        guard = (to["root"] != 0 and not h[to["root"] - 1]["active"]) or (to["nested"] != 0 and not h[to["nested"] - 1]["active"])
        ctxbad = to["tcm"] != 0 and not h[to["tcm"] - 1]["active"]
        if guard or ctxbad:
            return None
        try:
            res = self._run(self.conn.ac.execute(self.sa.text("select id from t order by id")))
            got = [r[0] for r in res.all()]
        except Exception as e:      # noqa
            return "SELECT inside the open transaction raised %r" % (e,)
        self.selects += 1
        exp = set(o["committed"])
        for fr in to["dbtx"]:
            exp |= set(fr)
        if got != sorted(exp):
            return "rows seen inside the transaction %r, spec (committed + open frames) %r" % (got, sorted(exp))
        return None

    def close(self):
        try:
            if self.conn is not None:
                self._run(self.conn.ac.close())
            self._run(self.engine.dispose())
            self.obs.close()
            self.loop.close()
        except Exception:      # noqa
            pass
