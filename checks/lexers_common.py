"""Shared harness for the Lexers.tla bindings (C05 literals, C06 identifiers).

* `enc` / `dec`                 strings <-> sequences of the specification's one-character strings ("~" stands for U+00E9)
* `run(chk, mode, fams, ...)`   one TLC run of specs/Lexers.tla over several families -> (Result, {family name: [case, ...]})
* `lit_family(...)` / `ident_family(...)`  family records (the data TLC reads through IOEnv.LEX_DATA)
* `LIT_CONFIGS` / `IDENT_CONFIGS`          the implementation configurations bound to each family
* `sqlite_keywords(path, candidates)`      MEASURE which words SQLite refuses (or silently misreads) as bare identifiers
"""
import json
import os
import re
import sqlite3

from engine import tlc

NONASCII = "é"      # the specification writes "~" for a non-ASCII letter (TLC prints ASCII only)
LIT_ALPHA = list("'\"\\%:aA ;-.]`")
LIT_ALPHA_SMALL = list("'\\%a")
ID_ALPHA = list("'\"\\%:aA ;-.]`") + list("[_1$~")
ID_ALPHA_SMALL = list("\"`]a.%")
# first-character rule: every digit class (0, a middle digit, 9), underscore, dollar and a letter in first AND later positions
ID_ALPHA_INITIAL = list("019a_$")
INITIAL_WORDS = ["007", "00a", "0_day", "0x10", "2024_sales", "99", "a0", "_0", "0_", "$a", "a$"] + ["%dlives" % d for d in range(10)]


def enc(s):
    return [("~" if c == NONASCII else c) for c in s]


def dec(seq):
    return "".join(NONASCII if c == "~" else c for c in seq)


def lit_family(name, ren_bs=False, ren_n=False, dblpct=False, lex_bs=False, lex_n=False, backend="sqlite", expect=True, rendered=(),
               drv_pct=None, mode="lit", chars=(), maxlen=0):
    return dict(name=name, mode=mode, chars=list(chars), maxlen=maxlen, maxparts=1, ren_bs=ren_bs, ren_n=ren_n, ren_pct=dblpct, drv_pct=dblpct if drv_pct is None else drv_pct, lex_bs=lex_bs, lex_n=lex_n, backend=backend, expect=expect,
                reserved=[], legal=[], illegal_initial=[], keywords=[], words=[], rendered=list(rendered))


def _cost(fam):
    n = len(fam["chars"])
    if fam["mode"] == "scalar":
        return len(fam["rendered"])
    words = len(fam.get("words", ()))
    per = sum(n ** k for k in range(fam["maxlen"] + 1)) + words
    return per ** fam["maxparts"] if fam["mode"] == "dotted" else per


def _run1(chk, fams, invariants, tag, timeout):
    work = os.path.join(chk.work, "tlc-%s" % tag)
    os.makedirs(work, exist_ok=True)
    data = os.path.join(work, "lex_data.json")
    with open(data, "w") as f:
        json.dump(dict(fams=fams), f)
    cfgt = tlc.cfg(invariants=list(invariants))
    return tlc.run("Lexers", cfgt, work, workers=1, timeout=timeout, env={"LEX_DATA": data}, extra=["-continue"], keep_stdout=False)


def run(chk, fams, invariants=(), tag="", timeout=None, shards=None):
    """TLC over all families, split over `shards` concurrent TLC processes (initial-state enumeration is sequential in TLC).
    Returns (summary result, {family: [case...]}) with character sequences left as lists (use dec)."""
    from concurrent.futures import ThreadPoolExecutor
    shards = max(1, min(shards or tlc.NPROC, len(fams), 6))
    groups = [[] for _ in range(shards)]
    load = [0] * shards
    for fam in sorted(fams, key=_cost, reverse=True):
        i = load.index(min(load))
        groups[i].append(fam)
        load[i] += _cost(fam) + 300
    timeout = timeout or (900 if chk.quick else 3000)
    with ThreadPoolExecutor(max_workers=shards) as ex:
        results = list(ex.map(lambda a: _run1(chk, a[1], invariants, "%s-%d" % (tag, a[0]), timeout), enumerate(groups)))
    r = results[0]
    by = {}
    for i, x in enumerate(results):
        for o in x.json:
            by.setdefault(o["f"], []).append(o)
        x.json = []
        if i:
            r.distinct += x.distinct
            r.generated += x.generated
            r.wall = max(r.wall, x.wall)
            r.violated = r.violated or x.violated
    r.runs = len(results)
    for fam in fams:
        if fam["name"] not in by:
            chk.machinery("Lexers.tla: TLC printed no case for family %s" % fam["name"])
    return r, by


# ------------------------------------------------------------------------------------------------ dialect configurations
def _dialects():
    from sqlalchemy.dialects import mssql, mysql, oracle, postgresql, sqlite
    from sqlalchemy.dialects.postgresql import asyncpg, psycopg2
    from sqlalchemy.dialects.mysql import mysqldb, pymysql
    from sqlalchemy.dialects.mssql import pyodbc
    from sqlalchemy.dialects.oracle import oracledb

    def pg_bs():
        d = asyncpg.dialect()
        d._backslash_escapes = True          # what initialize() sets when standard_conforming_strings is off
        return d

    def pg_bs_pct():
        d = psycopg2.dialect()
        d._backslash_escapes = True
        return d

    def my_nobs():
        d = mysqldb.dialect()
        d._backslash_escapes = False         # sql_mode NO_BACKSLASH_ESCAPES
        return d

    return {
        "sqlite": sqlite.dialect, "sqlite_format": lambda: sqlite.dialect(paramstyle="format"),
        "sqlite_pyformat": lambda: sqlite.dialect(paramstyle="pyformat"), "sqlite_numeric": lambda: sqlite.dialect(paramstyle="numeric"),
        "pg_asyncpg": asyncpg.dialect, "pg_psycopg2": psycopg2.dialect, "pg_default": postgresql.dialect,
        "pg_asyncpg_backslash": pg_bs, "pg_psycopg2_backslash": pg_bs_pct,
        "mysql_mysqldb": mysqldb.dialect, "mysql_pymysql": pymysql.dialect, "mysql_default": mysql.dialect,
        "mysql_no_backslash_escapes": my_nobs,
        "mssql_pyodbc": pyodbc.dialect, "mssql_default": mssql.dialect,
        "oracle_oracledb": oracledb.dialect, "oracle_default": oracle.dialect,
    }


BACKEND = {"sqlite": "sqlite", "pg": "pg", "mysql": "mysql", "mssql": "mssql", "oracle": "oracle"}


def backend_of(config):
    return BACKEND[config.split("_")[0]]


def make_dialect(config):
    return _dialects()[config]()


def dblpct_of(dialect):
    """the specification's rule: a format / pyformat DBAPI consumes %% -> %, so every literal % must be doubled"""
    return dialect.paramstyle in ("format", "pyformat")


# the literal family each configuration must implement: (config, type name) -> family name.
# unicode=True selects the Unicode/UnicodeText types (MSSQL renders those as N'...')
def lit_family_of(config, unicode_type, dialect):
    be = backend_of(config)
    bs = bool(getattr(dialect, "_backslash_escapes", False))
    n = be == "mssql" and unicode_type
    return ("N" if n else "bs" if bs else "std") + ("_pct" if dblpct_of(dialect) else "") + "@" + be


def lit_families_for(configs_types, alphabets):
    """family records for the (config, unicode?, dialect) triples + the deliberately mismatched ones.
    alphabets: [(tag, chars, maxlen)] - every family is enumerated once per alphabet"""
    out = []
    for tag, chars, maxlen in alphabets:
        fams = {}
        for config, uni, dialect in configs_types:
            name = lit_family_of(config, uni, dialect)
            if name in fams:
                continue
            kind, be = name.split("@")
            fams[name] = lit_family(name + "#" + tag, ren_bs=kind.startswith("bs"), ren_n=kind.startswith("N"), dblpct=kind.endswith("_pct"),
                                    lex_bs=kind.startswith("bs"), lex_n=(be == "mssql"), backend=be, chars=chars, maxlen=maxlen)
        out += list(fams.values())
    # sensitivity of the theorem: the '' renderer read by a backslash-escaping backend, the \\ renderer read by a standard one,
    # N'...' read by a backend without national literals, % not doubled for a pyformat driver
    tag, chars, maxlen = alphabets[0]
    kw = dict(expect=False, chars=chars, maxlen=min(maxlen, 2))
    out.append(lit_family("MISMATCH:std-read-by-backslash-lexer", lex_bs=True, backend="mysql", **kw))
    out.append(lit_family("MISMATCH:backslash-doubled-for-standard-lexer", ren_bs=True, backend="pg", **kw))
    out.append(lit_family("MISMATCH:N-prefix-for-non-mssql", ren_n=True, backend="pg", **kw))
    out.append(lit_family("MISMATCH:percent-not-doubled-for-format-driver", backend="pg", dblpct=False, drv_pct=True, **kw))
    return out


# ------------------------------------------------------------------------------------------------ identifier families
def ident_family(name, dialect, backend, chars, maxlen, keywords, words, expect=True, mode="ident", maxparts=1):
    """reserved words / legal characters / illegal initial characters EXTRACTED from the dialect's IdentifierPreparer"""
    p = dialect.identifier_preparer
    pat = p.legal_characters.pattern
    if not re.match(r"^\^\[[^\]]+\]\+\$$", pat):
        raise ValueError("legal_characters is not a ^[class]+$ pattern any more: %r (the per-character abstraction would be unsound)" % pat)
    universe = sorted(set(chars) | {c for w in words for c in enc(w)})
    legal = [c for c in universe if p.legal_characters.match(dec([c]))]
    bad = sorted(enc(c)[0] for c in p.illegal_initial_characters if len(c) == 1)
    return dict(name=name, mode=mode, chars=list(chars), maxlen=maxlen, maxparts=maxparts, ren_bs=False, ren_n=False, ren_pct=dblpct_of(dialect), drv_pct=dblpct_of(dialect), lex_bs=(backend == "mysql"), lex_n=(backend == "mssql"),
                backend=backend, expect=expect, reserved=[enc(w) for w in sorted(p.reserved_words)], legal=legal,
                illegal_initial=bad, keywords=[enc(w) for w in sorted(keywords)], words=[enc(w) for w in words], rendered=[])


IDENT_CONFIGS = ["sqlite", "sqlite_format", "pg_asyncpg", "pg_psycopg2", "mysql_mysqldb", "mssql_pyodbc", "oracle_oracledb"]
LIT_CONFIGS = ["sqlite", "sqlite_format", "sqlite_pyformat", "pg_asyncpg", "pg_psycopg2", "pg_asyncpg_backslash", "pg_psycopg2_backslash",
               "mysql_mysqldb", "mysql_pymysql", "mysql_no_backslash_escapes", "mssql_pyodbc", "oracle_oracledb"]

# https://www.sqlite.org/lang_keywords.html (3.40): every keyword of SQLite's grammar - CANDIDATES for the measurement below
SQLITE_GRAMMAR_KEYWORDS = """abort action add after all alter always analyze and as asc attach autoincrement before begin between by cascade
case cast check collate column commit conflict constraint create cross current current_date current_time current_timestamp database default
deferrable deferred delete desc detach distinct do drop each else end escape except exclude exclusive exists explain fail filter first
following for foreign from full generated glob group groups having if ignore immediate in index indexed initially inner insert instead
intersect into is isnull join key last left like limit match materialized natural no not nothing notnull null nulls of offset on or order
others outer over partition plan pragma preceding primary query raise range recursive references regexp reindex release rename replace
restrict returning right rollback row rows savepoint select set table temp temporary then ties to transaction trigger unbounded union
unique update using vacuum values view virtual when where window with without""".split()
# not grammar keywords, but read as something else than a column in some position (measured the same way)
SQLITE_EXTRA_CANDIDATES = ["true", "false", "rowid", "oid", "_rowid_", "abs", "count", "date", "time", "text", "integer", "real", "blob", "any",
                           "stored", "strict", "within", "type", "name", "value", "user", "zone"]


def sqlite_illegal_initial(chars):
    """MEASURE which first characters SQLite does not accept in a bare identifier: c + "a", c + "_x" and c + "9" are each used
    unquoted as table / column / index name (the battery of sqlite_keywords).  Returns the set of such characters; a mixed verdict
    for one character means the rule is not a first-character rule (calibration failure)."""
    bad = set()
    for c in chars:
        names = [c + "a", c + "_x", c + "9"]
        failed = sqlite_keywords(None, names)
        if len(failed) == len(names):
            bad.add(c)
        elif failed:
            raise ValueError("SQLite's verdict on bare names starting with %r is mixed: %r" % (c, failed))
    return bad


def sqlite_keywords(path, candidates):
    """Words SQLite (this build) does not read as a plain identifier when written bare: each candidate w is used UNQUOTED as
    table / column / index name in CREATE TABLE, CREATE INDEX, INSERT, SELECT (bare and qualified), WHERE, ORDER BY,
    UPDATE ... RETURNING, DELETE; the value 42 must come back.  Returns {word: first failing statement}."""
    bad = {}
    for w in candidates:
        con = sqlite3.connect(":memory:")
        stmts = [
            ("CREATE TABLE %s (%s INTEGER, other INTEGER)" % (w, w), None),
            ("CREATE INDEX ix_plain ON %s (%s)" % (w, w), None),
            ("INSERT INTO %s (%s, other) VALUES (42, 7)" % (w, w), None),
            ("SELECT %s FROM %s" % (w, w), [(42,)]),
            ("SELECT %s.%s FROM %s" % (w, w, w), [(42,)]),
            ("SELECT other FROM %s WHERE %s = 42" % (w, w), [(7,)]),
            ("SELECT other FROM %s WHERE %s = 41" % (w, w), []),
            ("SELECT %s AS %s FROM %s ORDER BY %s" % (w, w, w, w), [(42,)]),
            ("SELECT x.%s FROM %s AS x" % (w, w), [(42,)]),
            ("SELECT %s.other FROM %s AS %s" % (w, w, w), [(7,)]),
            ("UPDATE %s SET %s = 43 WHERE %s = 42 RETURNING %s" % (w, w, w, w), [(43,)]),
            ("SELECT count(*) FROM %s GROUP BY %s HAVING %s = 43" % (w, w, w), [(1,)]),
            ("DELETE FROM %s WHERE %s = 43" % (w, w), None),
            ("SELECT count(*) FROM %s" % w, [(0,)]),
            ("DROP TABLE %s" % w, None),
            # tables and indexes share a namespace: the index named w comes after the table named w is gone
            ("CREATE TABLE t2 (id INTEGER)", None),
            ("CREATE INDEX %s ON t2 (id)" % w, None),
            ("DROP INDEX %s" % w, None),
        ]
        for sql, want in stmts:
            try:
                got = con.execute(sql).fetchall()
            except sqlite3.Error as e:
                bad[w] = "%s -> %s" % (sql, str(e)[:60])
                break
            if want is not None and got != want:
                bad[w] = "%s -> %r, a plain identifier gives %r" % (sql, got, want)
                break
        con.close()
    return bad
