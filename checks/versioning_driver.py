"""Driver binding Versioning.tla to real Sessions over one SQLite file (pysqlite legacy mode: readers never block)."""
import os
import sqlite3
import warnings


class Driver:
    def __init__(self, wid, workdir, gen="counter"):
        os.makedirs(workdir, exist_ok=True)
        self.path = os.path.join(workdir, "db.sqlite")
        if os.path.exists(self.path):
            os.unlink(self.path)
        import sqlalchemy as sa
        from sqlalchemy import orm
        self.sa, self.orm = sa, orm
        self.gen = gen
        Base = orm.declarative_base()
        kw = {}
        if gen == "custom":
            # client-side generator that is not the default integer counter (still monotone so the spec's numbering applies)
            kw["version_id_generator"] = lambda v: (v or 0) + 1

        class T(Base):
            __tablename__ = "t"
            id = sa.Column(sa.Integer, primary_key=True)
            val = sa.Column(sa.Integer)
            version_id = sa.Column(sa.Integer, nullable=False)
            __mapper_args__ = dict(version_id_col=version_id, **kw)
        self.T = T
        self.engine = sa.create_engine("sqlite:///" + self.path, connect_args={"timeout": 0}, poolclass=sa.pool.NullPool)
        Base.metadata.create_all(self.engine)
        self.obs = sqlite3.connect(self.path, isolation_level=None)
        self.sessions = {}
        self.objs = {}

    def reset(self, state):
        for s in self.sessions.values():
            try:
                s.close()
            except Exception:
                pass
        self.objs = {}
        self.obs.execute("delete from t")
        for k, row in self._items(state["db"]):
            self.obs.execute("insert into t (id, val, version_id) values (?, ?, ?)", (k, row["val"], row["ver"]))
        self.sessions = {x: self.orm.Session(self.engine, autoflush=False, expire_on_commit=False) for x, _ in self._items(state["ses"])}

    @staticmethod
    def _items(f):
        # TLA+ functions over 1..n arrive as JSON lists, others as dicts
        if isinstance(f, list):
            return [(i + 1, v) for i, v in enumerate(f)]
        return [(int(k), v) for k, v in f.items()]

    def _call(self, fn):
        with warnings.catch_warnings(record=True):
            warnings.simplefilter("always")
            try:
                r = fn()
                return "ok", r
            except Exception as e:
                return type(e).__name__, None

    def step(self, frm, act, to):
        a, x, k = act["a"], act["s"], act["k"]
        sess = self.sessions[x]
        if a == "Load":
            ret, o = self._call(lambda: sess.get(self.T, k))
            if ret == "ok":
                if o is None:
                    ret = "nothing"
                else:
                    self.objs[(x, k)] = o
        elif a == "Modify":
            nv = dict(self._items(dict(self._items(to["ses"]))[x]))[k]["nv"]
            o = self.objs[(x, k)]
            ret, _ = self._call(lambda: setattr(o, "val", nv))
        elif a == "MarkDelete":
            ret, _ = self._call(lambda: sess.delete(self.objs[(x, k)]))
        elif a in ("Flush", "Commit"):
            ret, _ = self._call(sess.flush if a == "Flush" else sess.commit)
            if ret == "StaleDataError":
                # harness convention (spec: FailFlush): after a failed flush the session's objects are discarded
                sess.expunge_all()
                for key in [key for key in self.objs if key[0] == x]:
                    del self.objs[key]
            elif a == "Commit" and ret == "ok":
                # objects whose DELETE was committed are gone for the harness (their lifecycle state is C35's business)
                for key in [key for key in self.objs if key[0] == x and self.sa.inspect(self.objs[key]).deleted]:
                    sess.expunge(self.objs[key]) if self.objs[key] in sess else None
                    del self.objs[key]
        elif a == "Rollback":
            def f():
                sess.rollback()
                sess.expunge_all()
            ret, _ = self._call(f)
            for key in [key for key in self.objs if key[0] == x]:
                del self.objs[key]
        else:
            return "unknown action %r" % a
        if ret != act["ret"]:
            return "call outcome %r, spec %r" % (ret, act["ret"])
        o = act["obs"]
        got_db = {r[0]: {"ver": r[2], "val": r[1]} for r in self.obs.execute("select id, val, version_id from t")}
        exp_db = {kk: row for kk, row in self._items(o["db"]) if row["ver"] != 0}
        if got_db != exp_db:
            return "committed rows %r, spec %r" % (got_db, exp_db)
        insp = self.sa.inspect
        for xx, per in self._items(o["objs"]):
            for kk, e in self._items(per):
                ob = self.objs.get((xx, kk))
                if ob is not None and insp(ob).detached:
                    del self.objs[(xx, kk)]
                    ob = None
                if ob is None:
                    got = {"s": "none", "ver": 0, "val": 0}
                elif insp(ob).deleted:
                    got = {"s": "deleted", "ver": 0, "val": 0}
                else:
                    d = insp(ob).dict
                    got = {"s": "loaded", "ver": d.get("version_id"), "val": d.get("val")}
                if got != e:
                    return "session %d object %d: %r, spec %r" % (xx, kk, got, e)
        return None

    def close(self):
        try:
            for s in self.sessions.values():
                s.close()
            self.engine.dispose()
            self.obs.close()
        except Exception:
            pass
