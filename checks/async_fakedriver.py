"""Deterministic fake of the `aiosqlite` surface SQLAlchemy uses (C29, DESIGN Appendix L).

    fake = make_fake(log)                       # a module-like object, one per engine
    engine = create_async_engine("sqlite+aiosqlite:///file", module=fake, ...)
      -> dialect.import_dbapi is bypassed; sqlalchemy wraps it: AsyncAdapt_aiosqlite_dbapi(fake, sqlite3)

* no worker thread: a real `sqlite3` connection underneath (rows, locks and transactions are real and are
  observed by an independent sqlite3 connection);
* every driver coroutine suspends EXACTLY ONCE (`await asyncio.sleep(0)`), so a program has a fixed, finite
  number of suspension points and `task.cancel()` can be delivered at each of them;
* crash-point flavour per call name (`fake.post`): by default the suspension comes BEFORE the effect (a cancel
  delivered there means the database never saw the call); for names in `fake.post` the effect is applied first
  and the suspension comes after it (the database did the work, the coroutine never hears about it);
* `fake.ledger[id]` = "open" | "closed" | "stopped"; `log(kind, **fields)` receives one event per EFFECT
  (open / exec / commit / rollback / close / stop) at the moment it is applied to the real sqlite3 connection.
No sqlalchemy import here; no wall clock; no randomness.
"""
import asyncio
import sqlite3
import types


async def _suspend():
    await asyncio.sleep(0)


def _sqlclass(sql):
    w = sql.strip().split(None, 2)
    k = w[0].upper() if w else ""
    if k == "ROLLBACK" and len(w) > 1 and w[1].upper() == "TO":
        return "ROLLBACK_TO"
    return k


def make_fake(log=None):
    fake = types.SimpleNamespace()
    fake.__version__ = "0.22.1"
    fake.__name__ = "aiosqlite"
    for n in ("DatabaseError", "Error", "IntegrityError", "NotSupportedError", "OperationalError", "ProgrammingError",
              "sqlite_version", "sqlite_version_info"):
        setattr(fake, n, getattr(sqlite3, n))
    fake.ledger = {}
    fake.dirty = {}          # id -> True while DML / SAVEPOINT work is pending since the last COMMIT / ROLLBACK (bookkeeping
    fake.post = set()        # of the fake; the lock probe of the harness is the independent observation)
    fake.next_id = [0]
    fake.calls = []
    fake.log = log or (lambda kind, **kw: None)

    async def _gate(name, effect, cid=0):
        """one driver call = one suspension; `effect` is applied after it (pre) or before it (post).
        `call` is logged when the coroutine is entered, `ret` when it hands its result back (never after a cancellation)."""
        fake.log("call", k=name, id=cid)
        if name in fake.post:
            r = effect()
            await _suspend()
        else:
            await _suspend()
            r = effect()
        fake.log("ret", k=name, id=cid)
        return r

    class _Tx:
        def put_nowait(self, item):
            fut, fn = item
            try:
                fut.set_result(fn())
            except Exception as e:     # noqa
                fut.set_exception(e)

    class Cursor:
        def __init__(self, conn):
            self._conn = conn
            self._cur = None
            self.arraysize = 1

        def _open(self):
            self._conn._check()
            self._cur = self._conn._conn.cursor()
            return self

        async def __aenter__(self):
            return await _gate("cursor", self._open, self._conn.id)

        async def __aexit__(self, *a):
            await self.close()

        def _do_execute(self, sql, params, many=False):
            c = self._conn
            c._check()
            if self._cur is None:
                self._cur = c._conn.cursor()
            if many:
                self._cur.executemany(sql, params)
            else:
                self._cur.execute(sql, params if params is not None else ())
            k = _sqlclass(sql)
            if k in ("INSERT", "UPDATE", "DELETE", "SAVEPOINT", "CREATE", "DROP"):
                fake.dirty[c.id] = True
            fake.log("drv", op="exec", id=c.id, sql=k, arg=_arg(sql, params))

        async def execute(self, sql, params=None):
            return await _gate("execute", lambda: self._do_execute(sql, params), self._conn.id)

        async def executemany(self, sql, seq):
            return await _gate("execute", lambda: self._do_execute(sql, seq, many=True), self._conn.id)

        async def fetchall(self):
            return await _gate("fetch", self._cur.fetchall, self._conn.id)

        async def fetchone(self):
            return await _gate("fetch", self._cur.fetchone, self._conn.id)

        async def fetchmany(self, size=None):
            return await _gate("fetch", lambda: self._cur.fetchmany(size or 1), self._conn.id)

        def _close(self):
            if self._cur is not None and self._conn._conn is not None:
                self._cur.close()

        async def close(self):
            await _gate("cursorclose", self._close, self._conn.id)

        @property
        def description(self):
            return self._cur.description if self._cur is not None else None

        @property
        def rowcount(self):
            return self._cur.rowcount

        @property
        def lastrowid(self):
            return self._cur.lastrowid

    def _arg(sql, params):
        """INSERT: the row id bound as first parameter; SAVEPOINT / RELEASE / ROLLBACK TO: the number in sa_savepoint_<n>"""
        try:
            if params and not isinstance(params, dict) and isinstance(params[0], int):
                return params[0]
            tail = sql.strip().rsplit("_", 1)
            if len(tail) == 2 and tail[1].isdigit():
                return int(tail[1])
        except Exception:      # noqa
            pass
        return 0

    class Connection:
        def __init__(self, *a, **k):
            k.pop("check_same_thread", None)
            self._args = (a, k)
            self._conn = None
            self._connection = None
            self._tx = _Tx()
            self._thread = types.SimpleNamespace(daemon=True)
            fake.next_id[0] += 1
            self.id = fake.next_id[0]

        def __await__(self):
            return self._connect().__await__()

        def _open(self):
            a, k = self._args
            self._conn = sqlite3.connect(*a, **k)
            self._connection = self._conn
            fake.ledger[self.id] = "open"
            fake.dirty[self.id] = False
            fake.log("drv", op="open", id=self.id)
            return self

        async def _connect(self):
            return await _gate("connect", self._open, self.id)

        def _check(self):
            if self._conn is None:
                raise ValueError("no active connection")

        def cursor(self):
            return Cursor(self)

        def _do_commit(self):
            self._check()
            self._conn.commit()
            fake.dirty[self.id] = False
            fake.log("drv", op="commit", id=self.id)

        def _do_rollback(self):
            self._check()
            self._conn.rollback()
            fake.dirty[self.id] = False
            fake.log("drv", op="rollback", id=self.id)

        async def commit(self):
            await _gate("commit", self._do_commit, self.id)

        async def rollback(self):
            await _gate("rollback", self._do_rollback, self.id)

        def _shut(self, how):
            if self._conn is not None:
                self._conn.close()      # sqlite3 discards an open transaction on close
                self._conn = None
                self._connection = None
                fake.ledger[self.id] = how
                fake.dirty[self.id] = False
                fake.log("drv", op="close" if how == "closed" else "stop", id=self.id)

        async def close(self):
            await _gate("close", lambda: self._shut("closed"), self.id)

        def stop(self):
            self._shut("stopped")

        def _create_function(self, a, k):
            self._check()
            self._conn.create_function(*a, **k)

        async def create_function(self, *a, **k):
            await _gate("function", lambda: self._create_function(a, k), self.id)

        @property
        def isolation_level(self):
            return self._conn.isolation_level

        @property
        def in_transaction(self):
            return self._conn.in_transaction if self._conn is not None else False

    fake.Connection = Connection
    fake.Cursor = Cursor
    fake.connect = lambda *a, **k: Connection(*a, **k)
    return fake
