"""C45 Session.merge copies state onto the session's single instance - OrmSessionExt.tla (DESIGN 3.8, 4 "C45-C48")."""
from checks import ormsessionext_common as X

LEVEL = "model_checking"
MANIFEST = dict(
    text="OrmSessionExt.tla adds Merge(src, load) to the OrmSession mechanism: src ranges over transient objects and detached copies (clean, or modified after detaching) of both primary keys with every subset of {id, v} loaded, merged into sessions where the identity is present (loaded, expired, modified, marked deleted), pending, only a row, or absent. TLC checks as action properties that merge returns the identity map's instance for the key (or a new pending one when no row exists), copies exactly the loaded attributes, leaves unloaded ones alone (or loaded from the row), is idempotent (second merge returns the same instance; after a flush objects and rows are equal), and that load=False emits no SQL, flags nothing dirty and raises the documented errors. Every edge is replayed on a real Session: returned instance identity, inspect() flags, loaded values, session.new/dirty, identity map, rows, events, statement count.",
    design_ref="3.8, 4 (C45-C48), Appendix F",
    note="trusted: TLC, before_cursor_execute as SQL oracle; one mapped class T(id, v) without relationships: cascaded relationship merge, version_id_col check, options= and merge_all are not covered; detached sources are built with make_transient_to_detached + a scratch Session's expire()",
    technique="TLA+ spec (OrmSessionExt.tla EXTENDS OrmSession.tla) + TLC exhaustive model checking; spec->code replay of every state-graph edge into a real Session")

INVS = ["OneIdentity", "OnePerObject"]
PROPS = ["MergeTokSeparate", "MergeReturnsIdentity", "MergeUsesExisting", "MergeCopiesLoaded", "MergeKeepsUnloaded", "MergeNoLoadSilent", "MergeIdempotent"]
FOOTPRINT = ["Merge", "MergeTok", "Add", "Flush", "Commit", "Rollback", "Delete", "SetV", "Expire"]


def spec(chk):
    q = chk.quick
    return dict(
        cfgs=[dict(name="merge", acts=["SetV", "Expire", "Merge"], depth=3 if q else 4, deep_depth=4 if q else 5, eoc=True,
                   random=100 if q else 1000),
              dict(name="merge1", acts=["SetV", "Expire", "Merge"], srckeys=(1,), depth=5, edge_sample=0.3 if q else None, deep_depth=None if q else 6,
                   eoc=True, random=100 if q else 1000),
              dict(name="mergetok", acts=["SetV", "Expire", "MergeTok"], depth=6 if q else 7, edge_sample=0.1 if q else 0.3,
                   edge_probs={"MergeTok": 1.0}, eoc=True, random=100 if q else 500)],
        invs=INVS, props=PROPS, footprint=FOOTPRINT,
        nontrivial=lambda frm, act: act["a"] in ("Merge", "MergeTok"))


def main(chk):
    P = spec(chk)
    res = X.run_ext(chk, "C45", P)
    return X.finish(chk, "C45", P, res,
                    "every labelled edge of the OrmSessionExt state graph (Merge with 28 source/load combinations per state) replayed on a real "
                    "Session; non-trivial = Merge edges", INVS, PROPS,
                    ["SQLite only (file, autocommit=False, NullPool); one mapped class T(id, v), no relationships: the cascade clause of C45 is not covered",
                     "a transient source always carries its primary key; a new instance is not generated from a detached source without loaded id",
                     "merge is not called while the session waits for rollback()"])
