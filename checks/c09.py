"""C09 (clause 2) column types apply bind / result processing exactly once - TypePipeline.tla (DESIGN 3.13, 4 C09, 5).

TLC: the pipeline of one value as a machine (Python-side bind stages outermost decorator first, bind_expression, the walk down
the read path that decides where column_expression is rendered, Python-side result stages innermost first) for every
(type configuration x write context x read path); invariants AtMostOnce, Ordered, Mirror, ExactlyOnce (repaired mechanism),
LegacyOnlyNestedCompound (the pinned mechanism deviates exactly on compounds nested at a member position > 0), EventsAreValue.
Binding (spec -> code): tagging + counting TypeDecorator / UserDefinedType classes on real SQLite; every stage appends its tag
to the value, so the stored string, the loaded string and the recorded call list must EQUAL the specification's pipeline for the
case.  Parenthesised nested compounds cannot be parsed by SQLite: for those read paths the rendered SQL (PostgreSQL dialect) of
the leaf SELECT is the observation.  The value round-trip clause of C09 is not claimed (DESIGN 5).
"""
import os
import re

from engine import tlc

LEVEL = "model_checking"
MANIFEST = dict(
    text="TypePipeline.tla: the processing pipeline of one value as a state machine over 8 type configurations (TypeDecorator chains of "
         "depth 1-2 over impl types with / without dialect-level processors, bind_expression / column_expression on the decorator or on the "
         "impl) x 11 write contexts (VALUES, parameters, executemany, insertmanyvalues+RETURNING, literal rendering, scalar / callable "
         "defaults, UPDATE, ORM add / update / bulk) x 23 read paths (label, subquery, nested subquery, CTE, scalar subquery, UNION members, "
         "compound in subquery, nested compounds, RETURNING of INSERT / UPDATE / DELETE / executemany, ORM entity / attribute / refresh / "
         "aliased / subquery-aliased, cached statement, Result.columns view). TLC proves each processor occurs exactly once and in order; "
         "tagging/counting types on real SQLite must reproduce the stored value, loaded value and call list of every case.",
    design_ref="DESIGN 3.13, 4 C09, 5",
    note="clause 1 (value round-trip within precision) is NOT claimed; SQLite executes, nested compounds are checked on rendered SQL only; "
         "the tagging types are the harness' own TypeDecorator / UserDefinedType subclasses",
    technique="TLA+ spec (TypePipeline.tla) + TLC state machine (one behaviour per case x mechanism variant); spec->code replay of every "
              "terminal state with tagging types")

TYPES = ["D1S", "D2D1S", "D1P", "D2D1P", "P", "X1S", "X2D1P", "D1XP"]
WRITES = ["values", "params", "many", "many_ret", "literal", "default", "callable_default", "update", "orm_add", "orm_update", "orm_bulk"]
READS = ["sel", "label", "cached", "columns_view", "subq", "subq2", "cte", "scalar", "union0", "union1", "subq_union1", "union1_subq",
         "nested01", "nested10", "nested11", "ret_insert", "ret_update", "ret_delete", "ret_many",
         "orm_entity", "orm_attr", "orm_refresh", "orm_aliased", "orm_subq"]
INVS = ["AtMostOnce", "Ordered", "Mirror", "ExactlyOnce", "LegacyOnlyNestedCompound", "EventsAreValue"]


def _set(xs):
    return "{" + ", ".join(tlc.q(x) for x in xs) + "}"


def _leaf_ce(sql, tok):
    """number of column_expression wrappers in the leaf SELECT that delivers token vN (WHERE id = N)"""
    n = int(tok[1:])
    segs = re.split(r"(?i)(?=\bSELECT\b)", sql)
    for s in segs:
        if re.search(r"\bid = %d\b" % n, s):
            return s.count("tagce(")
    return -1


_W = None


def _replay(chunk):
    global _W
    from checks import stmtshapes_common as sc
    if _W is None:
        _W = sc.TypePipelineWorld()
    res = []
    for key, fixed, legacy in chunk:
        t, w, r = key
        try:
            obs = _W.run(t, w, r)
        except Exception as e:
            res.append((key, "other", "harness: %s: %s" % (type(e).__name__, str(e)[:300]), None))
            continue
        res.append((key,) + _compare(obs, fixed, legacy))
    return res


def _split(val):
    w = [x for x in val if x[0] in "bl" and x[1] == ":"]
    be = ["BE"] if "BE" in val else []
    return w, be, [x for x in val if x not in w and x != "BE"]


def _compare(obs, fixed, legacy):
    """-> (kind, text, detail): kind None = conforms; 'legacy' = equals the pinned pipeline where the repaired one differs"""
    def check(exp):
        w, be, rd = _split(exp["val"])
        wev = [x for x in exp["ev"] if x[0] in "bl"]
        rev = [x for x in exp["ev"] if x[0] == "r"]
        errs = []
        for tk in obs["toks"]:
            want_stored = "|".join([tk] + w + be)
            if obs["stored"].get(tk) != want_stored:
                errs.append("stored value of %s %r, pipeline %r" % (tk, obs["stored"].get(tk), want_stored))
            got = [e[0] for e in obs["wlog"] if e[1] == tk]
            if got != wev:
                errs.append("write-side calls for %s %r, pipeline %r" % (tk, got, wev))
        if obs["compile_only"] is not None:
            n = _leaf_ce(obs["compile_only"], obs["want"])
            if n != rd.count("CE"):
                errs.append("leaf SELECT of %s renders column_expression %d time(s), pipeline %d: %s" % (
                    obs["want"], n, rd.count("CE"), " ".join(obs["compile_only"].split())))
            return errs
        wants = [obs["want"]] if obs["want"] else obs["toks"]
        for tk in wants:
            want_loaded = "|".join([tk] + w + be + rd)
            if obs["loaded"].get(tk) != want_loaded:
                errs.append("loaded value of %s %r, pipeline %r" % (tk, obs["loaded"].get(tk), want_loaded))
            got = [e[0] for e in obs["rlog"] if e[1] == tk]
            if got != rev:
                errs.append("read-side calls for %s %r, pipeline %r" % (tk, got, rev))
        # every OTHER value fetched by the same statement is processed exactly once as well
        for tk, v in (obs["loaded"] or {}).items():
            if tk not in wants:
                got = [e[0] for e in obs["rlog"] if e[1] == tk]
                if got != rev:
                    errs.append("read-side calls for co-fetched %s %r, pipeline %r" % (tk, got, rev))
        return errs
    e1 = check(fixed)
    if not e1:
        return None, "", None
    if legacy["val"] != fixed["val"] and not check(legacy):
        return "legacy", "; ".join(e1[:2]), e1
    return "other", "; ".join(e1[:3]), e1


def main(chk):
    import multiprocessing as mp
    types = TYPES if not chk.quick else TYPES
    cfgt = tlc.cfg(constants=dict(Types=_set(types), Writes=_set(WRITES), Reads=_set(READS)), invariants=INVS)
    r = tlc.run("TypePipeline", cfgt, os.path.join(chk.work, "tlc"), workers=1, timeout=900 if chk.quick else 2400, keep_stdout=False)
    if r.violated:
        chk.violation({"spec": "TypePipeline", "action": "TLC", "invariant": r.violated}, "TLC: %s violated in the specification" % r.violated)
    cases = {}
    for c in r.json:
        cases.setdefault((c["t"], c["w"], c["r"]), {})[bool(c["fixed"])] = c
    if not cases:
        chk.machinery("TLC printed no pipelines")
    bad = [k for k, v in cases.items() if set(v) != {True, False}]
    if bad:
        chk.machinery("pipeline printed for one mechanism variant only: %r" % bad[:3])
    # vacuity: all contexts, both hooks, SQL-side tags and the deviation class occur
    allv = [v[True]["val"] for v in cases.values()]
    for need in ("b:D2", "l:D1", "r:P", "BE", "CE"):
        if not any(need in v for v in allv):
            chk.machinery("vacuous: stage %s never occurs" % need)
    ndev = sum(1 for v in cases.values() if v[True]["val"] != v[False]["val"])
    if not ndev:
        chk.machinery("vacuous: the pinned and the repaired mechanism never differ")
    work = [(k, v[True], v[False]) for k, v in sorted(cases.items())]
    import random
    random.Random(chk.seed).shuffle(work)
    nproc = max(1, min(tlc.NPROC, 8))
    chunks = [work[i::nproc] for i in range(nproc)]
    ctx = mp.get_context("fork")
    with ctx.Pool(nproc) as pool:
        res = [x for part in pool.map(_replay, [c for c in chunks if c]) for x in part]
    nfind = 0
    for key, kind, text, detail in res:
        if kind is None:
            continue
        t, w, rd = key
        sig = {"spec": "TypePipeline", "action": "pipeline", "type": t, "write": w, "read": rd,
               "nested_compound_member_gt0": bool(cases[key][True]["nestedLater"]),
               "decorator_over_impl_column_expression": bool(cases[key][True]["dropsDecorators"])}
        if kind == "legacy":
            nfind += 1
            # which of the two pinned deviations the observation shows: a missing CE tag or missing decorator result stages
            fv, lv = cases[key][True]["val"], cases[key][False]["val"]
            classes = []
            if fv.count("CE") != lv.count("CE"):
                classes.append("NestedCompoundCE")
            if [x for x in fv if x.startswith("r:")] != [x for x in lv if x.startswith("r:")] and not rd.startswith("nested"):
                classes.append("ImplColumnExpressionDropsDecorator")
            chk.violation(dict(sig, finding="+".join(classes), legacy_algorithm=True), "%s / %s / %s: %s" % (t, w, rd, text),
                          {"case": key, "errors": detail})
        else:
            chk.violation(dict(sig, finding="", legacy_algorithm=False), "%s / %s / %s: %s" % (t, w, rd, text), {"case": key, "errors": detail})
    stages = sum(len(v[True]["val"]) for v in cases.values())
    samples = [{"case": k, "pipeline": cases[k][True]["val"]} for k in
               [("D2D1P", "many_ret", "union1"), ("X2D1P", "literal", "subq2"), ("D1XP", "orm_add", "nested11")] if k in cases]
    samples.append({"case": ("D1XP", "values", "nested11"), "pinned_pipeline": cases[("D1XP", "values", "nested11")][False]["val"]})
    return chk.finish(
        dict(states=r.distinct, transitions=r.generated, depth=r.depth, traces_validated_against_impl=len(res), evaluations=stages,
             distinct_nontrivial=sum(1 for k in cases if k[2] not in ("sel",) or k[1] not in ("values",)),
             pipelines=len(cases), pipelines_where_pinned_mechanism_deviates=ndev, deviations_confirmed_on_tree=nfind,
             compile_only_pipelines=sum(1 for k in cases if k[2].startswith("nested")), samples=samples, exhaustive=True,
             rule="one pipeline per (type configuration, write context, read path), each explored for the pinned and the repaired "
                  "column_expression mechanism; non-trivial = any nesting or any write context other than plain VALUES; the replay compares "
                  "stored value, loaded value and the Python-side call list per token",
             checker_cmd="tlc TypePipeline.tla -workers 1"),
        assumptions=["clause 1 of C09 (value round-trip) is not claimed", "SQLite only; nested compounds observed on rendered SQL (PostgreSQL dialect)",
                     "types: the harness' tagging TypeDecorator / UserDefinedType subclasses over String",
                     "bounded: decorator chains of depth <= 2; one value per processing path (two / three for executemany and compounds)"])
