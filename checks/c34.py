"""C34 The identity map holds at most one object per row - OrmSession.tla (DESIGN 3.8, Appendix F)."""
from checks import ormsession_common as C

LEVEL = "model_checking"
MANIFEST = dict(
    text="OrmSession.tla with primary-key switches, expunge/re-add, expire, refresh, get and flushes over 2-3 objects competing for 2 primary keys: TLC checks that the identity map is injective in both directions, that a persistent object is the one registered under its key, that the map holds only objects attached to the session and none in the deleted state, and (action properties) that Session.get returns the identity map's object for the key, with zero statements and no state change when the entry is present and unexpired. Every labelled edge is replayed on a real Session comparing identity_map contents, the identity of the object get() returns, `o in session`, state keys and the statement count from before_cursor_execute after every step.",
    design_ref="3.8, 4 (C30-C39), Appendix F, F.2",
    note="trusted: TLC, before_cursor_execute as SQL oracle; merge, populate_existing, yield_per, identity tokens and Query are not modelled (get/refresh/expire/flush/pk switch/expunge are); instances loaded by get() that are none of the model objects are checked and released in the same step",
    technique="TLA+ spec (OrmSession.tla) + TLC exhaustive model checking; spec->code replay of every state-graph edge plus TLC -simulate behaviours into a real Session")

ABS_INVS = ["OneIdentity", "OnePerObject", "PersistentInMap", "DeletedNotInMap", "MapHoldsAttached"]
ABS_PROPS = ["GetReturnsMapped", "GetIsMapEntry"]
MECH_INVS = ["OneIdentity", "OnePerObject", "LifeType"]
FOOTPRINT = ["Add", "Flush", "Commit", "Rollback", "Delete", "Expunge", "SetPk", "Get", "Refresh", "Expire", "ExpireAll"]


def spec(chk):
    q = chk.quick
    acts = ["SetPk", "Expunge", "Get", "Refresh", "Expire"]
    return dict(
        cfgs=[
            dict(name="pk", objs=2, maxsp=1, depth=7 if q else 8, ideal_depth=8 if q else 9, eoc=True, acts=acts,
                 random=200 if q else 2000, sim=(40, 20) if q else (600, 30)),
            dict(name="pk3", objs=3, maxsp=1, depth=5 if q else 6, ideal_depth=6 if q else 7, eoc=True, acts=acts + (["Sp", "Close"] if not q else []),
                 random=100 if q else 1000),
        ],
        mech_invs=MECH_INVS, mech_props=[], abs_invs=ABS_INVS, abs_props=ABS_PROPS,
        devs={"a": dict(acts=[]), "c": dict(acts=["Misuse"]), "gsw": dict(acts=["SetPk", "Get"]), "kswx": dict(acts=["SetPk", "Sp", "Expunge"]),
              "rsw2": dict(acts=["SetPk"], objs=3, depth=8)},
        footprint=FOOTPRINT,
        nontrivial=lambda frm, act: act["a"] in ("Get", "Refresh", "SetPk", "Expunge") or (act["a"] in ("Flush", "Commit") and bool(act["ev"])),
    )


def main(chk):
    P = spec(chk)
    tot, cov, samples, plans, dev_real, dev_hits = C.run_property(chk, "C34", P)
    return chk.finish(
        dict(states=tot["states"], transitions=tot["transitions"], traces_validated_against_impl=tot["walks"] + tot["random_walks"],
             distinct_nontrivial=tot["nontrivial"], evaluations=tot["steps"], samples=samples[:4], plan=plans, action_coverage=cov,
             edges=tot["edges"], ideal_states=tot.get("ideal_states", 0), ideal_transitions=tot.get("ideal_transitions", 0),
             tlc_runs=tot["tlc_runs"], timing={k: v for k, v in tot.items() if k.startswith("t_")}, deep_walk_steps=tot.get("deep_walk_steps", 0),
             deviations_present=sorted(dev_real), deviations_exposed=dev_hits, exhaustive=True,
             rule="every labelled edge of the OrmSession state graph (cfgs %s) replayed on a real Session; non-trivial = get / refresh / "
                  "primary-key switch / expunge edges and flushes that move objects into or out of the identity map" % [c["name"] for c in P["cfgs"]],
             checker_cmd="tlc OrmSession.tla (INVARIANT %s; PROPERTY %s)" % (",".join(ABS_INVS), ",".join(ABS_PROPS))),
        assumptions=["SQLite only (file, autocommit=False, NullPool); one mapped class T(id, v); integer primary keys {1, 2}",
                     "merge / Query / populate_existing / yield_per / identity_token are outside this model",
                     "bounded: %s" % [(c["name"], c["objs"], c["maxsp"], c["depth"]) for c in P["cfgs"]]])
