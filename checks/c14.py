"""C14 DDL is emitted in dependency order for any foreign-key graph - Catalog.tla / DdlGraphs.tla / TraceCatalog.tla
(DESIGN 3.2, Appendix J; notes/C14.md).

1. TLC model-checks the enforcing catalog itself (Catalog.tla: NoDangling, DropIsSafe, AddIsSafe, ... strict and no-ALTER mode).
2. TLC enumerates the FK graphs (DdlGraphs.tla: every edge set x use_alter assignment, doubled pairs, unnamed variants; GraphSane,
   PlanExists on each) and prints one case per graph.
3. code -> spec: for every case the driver builds the real MetaData and records the DDL streams of create_all / drop_all /
   Table.create / Table.drop / Index.create / Index.drop / sorted_tables on a PostgreSQL-dialect mock, a SQLite-dialect mock and a
   real SQLite database (foreign_keys=ON); TLC validates every trace against the catalog in batch runs (one per shard) and
   names trace id, event index and failing conjunct of every rejection.
4. binding self-test: three corrupted copies of an accepted trace must be rejected at the predicted event with the predicted conjunct.
"""
import concurrent.futures
import json
import multiprocessing as mp
import os
import random
import re

from engine import tlc
from checks import catalog_driver as cd

LEVEL = "model_checking"
MANIFEST = dict(
    text="Catalog.tla is a database catalog that enforces existence the way PostgreSQL does (CREATE TABLE needs every inline FK target, "
         "ADD CONSTRAINT both tables, DROP TABLE no surviving FK from another table); TLC model-checks it (no reachable state has a dangling "
         "constraint) and DdlGraphs.tla enumerates every FK graph over <=3 tables (all edge sets incl. self references and cycles x every use_alter "
         "assignment, two FKs per pair at <=2 tables; <=4 tables bounded/sampled in thorough). For each graph the real MetaData is built and the DDL "
         "of create_all/drop_all (checkfirst off/on, pre-existing closed subsets), Table/Index.create/drop and sorted_tables is recorded - parsed "
         "from the SQL text - on a PostgreSQL-dialect mock, a SQLite-dialect mock and a real SQLite with foreign_keys=ON and rows; TLC validates "
         "every stream against the catalog with per-call postconditions (catalog = graph after create_all, empty after drop_all).",
    design_ref="3.2, 4 (C14), 6 (unnamed cycle), Appendix J",
    note="trusted: TLC; Catalog.tla as the statement of what PostgreSQL enforces (no PostgreSQL server here, SQLite does not enforce at DDL time "
         "except DROP TABLE with referencing rows); the regex DDL parser and has_table bookkeeping of the mock backends (the latter checked by TLC "
         "through HT/HI events); unnamed-constraint cycles: documented CircularDependencyError modelled as allowed",
    technique="TLA+ specs (Catalog.tla, DdlGraphs.tla, TraceCatalog.tla) + TLC model checking and exhaustive graph enumeration; "
              "code->spec batch trace validation of recorded DDL streams; corrupted-trace binding self-test")

_RE_COV = re.compile(r"^<(\w+) line \d+, col \d+ to line \d+, col \d+ of module Catalog(?: \([\d ]+\))?>: (\d+):(\d+)", re.M)
CAT_INVS = ["TypeOK", "NamesUnique", "SrcExists", "IxIntegrity"]
CAT_PROPS = ["NoCollateral", "NoAlterFrozen"]
BASE = dict(TableU="{}", Mult=1, Alter=True, StrictCreate=True, StrictDrop=True, N=0, K=0, MaxEdges=0, Sample=0, Named=True)
EXHAUSTIVE_SUBSETS_UP_TO = 2
JOPTS = ["-XX:ParallelGCThreads=2", "-XX:CICompilerCount=2"]      # many small single-worker JVMs run side by side


def _catalog_runs(chk, runs, pool):
    if chk.quick:
        plans = [("{1,2,3}", 1, True), ("{1,2,3}", 1, False)]
    else:
        plans = [("{1,2,3}", 2, True), ("{1,2,3,4}", 1, True), ("{1,2,3}", 1, False)]
    st = tr = 0

    def one(i):
        tabs, mult, strict = plans[i]
        c = dict(BASE, TableU=tabs, Mult=mult, Alter=strict, StrictCreate=strict, StrictDrop=strict)
        invs = CAT_INVS + (["NoDangling"] if strict else [])
        props = CAT_PROPS + (["DropIsSafe", "AddIsSafe"] if strict else [])
        return tlc.run("Catalog", tlc.cfg(constants=c, invariants=invs, properties=props), os.path.join(chk.work, "cat%d" % i),
                       workers=4, timeout=1500, coverage=True, java_opts=JOPTS)

    futs = [pool.submit(one, i) for i in range(len(plans))]
    yield None
    for (tabs, mult, strict), fut in zip(plans, futs):
        r = fut.result()
        cov = {}
        for mt in _RE_COV.finditer(r.stdout):      # engine.tlc's pattern misses the "(l c l c)" suffix TLC adds for sub-actions of Next
            cov[mt.group(1)] = cov.get(mt.group(1), 0) + int(mt.group(3))
        r.stdout = ""
        label = "Catalog tables=%s mult=%d %s" % (tabs, mult, "strict" if strict else "no-alter/lenient")
        if r.violated:
            chk.violation({"spec": "Catalog", "action": "TLC", "invariant": r.violated, "cfg": label},
                          "TLC: %s violated in Catalog.tla (%s)" % (r.violated, label))
        for a in ["CreateTable", "DropTable", "CreateIndex", "DropIndex"] + (["AddConstraint", "DropConstraint"] if strict else []):
            if not cov.get(a):
                chk.machinery("vacuous: Catalog action %s never taken (%s)" % (a, label))
        st += r.distinct
        tr += r.generated
        runs.append({"cfg": label, "distinct": r.distinct, "generated": r.generated, "depth": r.depth, "wall_s": round(r.wall, 1)})
    yield st, tr


def _graph_plans(chk):
    # (N, K, MaxEdges, Sample, Named)
    p = [(1, 5, 1, 0, True), (2, 5, 4, 0, True), (3, 2, 9, 0, True), (3, 5, 9, 600, True),
         (2, 1, 4, 0, False), (3, 1, 9, 0, False)]
    if not chk.quick:
        p += [(3, 5, 2, 0, True), (4, 2, 3, 0, True), (4, 2, 8, 6000, True), (4, 5, 8, 3000, True), (4, 2, 16, 2000, True),
              (4, 1, 4, 0, False)]
    return p


def _enumerate_graphs(chk, runs, pool):
    cases = []
    st = tr = 0
    plans = _graph_plans(chk)

    def one(i):
        n, k, me, sample, named = plans[i]
        c = dict(BASE, N=n, K=k, MaxEdges=me, Sample=sample, Named=named)
        return tlc.run("DdlGraphs", tlc.cfg(constants=c, init="GInit", next_="GStutter", invariants=["GraphSane", "PlanExists"]),
                       os.path.join(chk.work, "graphs%d" % i), workers=1, timeout=1500, keep_stdout=False, java_opts=JOPTS,
                       extra=["-seed", str(chk.seed)] if sample else [])

    futs = [pool.submit(one, i) for i in range(len(plans))]
    for (n, k, me, sample, named), fut in zip(plans, futs):
        r = fut.result()
        label = "DdlGraphs N=%d K=%d MaxEdges=%d Sample=%d Named=%s" % (n, k, me, sample, named)
        if r.violated:
            chk.violation({"spec": "DdlGraphs", "action": "TLC", "invariant": r.violated, "cfg": label},
                          "TLC: %s violated in DdlGraphs.tla (%s)" % (r.violated, label))
        if not r.json:
            chk.machinery("TLC printed no graphs for " + label)
        st += r.distinct
        tr += r.generated
        runs.append({"cfg": label, "distinct": r.distinct, "generated": r.generated, "graphs": len(r.json), "wall_s": round(r.wall, 1),
                     "exhaustive": sample == 0})
        cases.extend(r.json)
    return cases, st, tr


def _validate(args):
    path, work = args
    cfg = tlc.cfg(constants=BASE, init="TInit", next_="TNext", invariants=["AcceptedStatesLegal"], postcondition="Summary")
    r = tlc.run("TraceCatalog", cfg, work, workers=1, timeout=1700, env={"TRACE_FILE": path}, keep_stdout=False, heap="4g", java_opts=JOPTS)
    return r


def _find_traces(paths, tids):
    """one pass over the shard files -> {trace id: trace} for the ids asked for"""
    out = {}
    if not tids:
        return out
    for p in paths:
        with open(p) as f:
            for line in f:
                tid = line[7:line.index('"', 7)]          # every line starts with {"id":"<tid>"
                if tid in tids:
                    out[tid] = json.loads(line)
    return out


def replay(chk, path):
    """./check C14 --replay replays/C14/<file>.json : re-record the rejected traces from (case, gid, seed) on the current tree and re-validate"""
    with open(path) as f:
        data = json.load(f)
    out = os.path.join(chk.work, "replay.ndjson")
    want = set()
    with open(out, "w") as f:
        for c in data["cases"]:
            rp = c["replay"]
            if "case" not in rp:
                continue
            want.add(rp["rejection"]["rej"])
            for kind, sc, tr in cd.traces_for_case(rp["gid"], rp["case"], rp["seed"], EXHAUSTIVE_SUBSETS_UP_TO):
                if tr["id"] == rp["rejection"]["rej"]:
                    f.write(json.dumps(tr, separators=(",", ":")) + "\n")
    r = _validate((out, os.path.join(chk.work, "replay_val")))
    rej = [j for j in r.json if "rej" in j]
    for j in rej:
        print("REJECTED %s at event %d %s: %s" % (j["rej"], j["at"], json.dumps(j["ev"], sort_keys=True), ", ".join(sorted(j["why"]))))
        chk.violation({"spec": "TraceCatalog", "action": j["ev"]["e"], "why": ";".join(sorted(j["why"]))}, "replayed trace %s rejected" % j["rej"])
    print("replayed %d trace(s), %d rejected" % (len(want), len(rej)))
    return chk.finish(dict(traces_validated_against_impl=len(want), traces_rejected=len(rej)))


def main(chk):
    runs = []
    with concurrent.futures.ThreadPoolExecutor(max_workers=max(2, tlc.NPROC)) as pool:
        # 1. the catalog itself (started now, collected after the graphs)
        cat = _catalog_runs(chk, runs, pool)
        next(cat)
        # 2. the graphs
        cases, st2, tr2 = _enumerate_graphs(chk, runs, pool)
        st1, tr1 = next(cat)
    # identical graphs reached through different plans are recorded once
    seen = set()
    uniq = []
    for c in cases:
        key = cd.describe(c)
        if key not in seen:
            seen.add(key)
            uniq.append(c)
    dev = float(os.environ.get("VERIF_C14_DEV", "1"))      # development only: record a seeded fraction of the graphs (evidence says so)
    if dev < 1:
        r0 = random.Random(chk.seed + 17)
        uniq = [c for c in uniq if r0.random() < dev]
    cases = list(enumerate(uniq))
    random.Random(chk.seed).shuffle(cases)          # balance the shards
    nsh = max(1, min(tlc.NPROC, len(cases) // 200 + 1), len(cases) // 3000 + 1)      # <= ~300k events per TLC batch
    paths = [os.path.join(chk.work, "traces_%02d.ndjson" % i) for i in range(nsh)]
    jobs = [(cases[i::nsh], chk.seed, paths[i], EXHAUSTIVE_SUBSETS_UP_TO) for i in range(nsh)]
    # 3. record
    if nsh == 1:
        stats = [cd.record_chunk(jobs[0])]
    else:
        with mp.get_context("fork").Pool(min(nsh, tlc.NPROC)) as pool:
            stats = pool.map(cd.record_chunk, jobs)
    tot = {"traces": 0, "events": 0, "ac_from_cycle": 0, "rows": 0, "raised": 0}
    by_kind, by_event, by_call, by_warn = {}, {}, {}, {}
    cands = []
    for s in stats:
        for k in tot:
            tot[k] += s[k]
        for src, dst in ((s["by_kind"], by_kind), (s["by_event"], by_event), (s["by_call"], by_call), (s["by_warn"], by_warn)):
            for k, v in src.items():
                dst[k] = dst.get(k, 0) + v
        cands.extend(s["candidates"])
    # 4. binding self-test traces go into the first batch, next to the thousands of genuine ones
    expected_rej = {}
    cands.sort(key=lambda t: t["id"])
    if cands:
        orig = cands[0]
        with open(paths[0], "a") as f:
            for t, at, why in cd.corruptions(orig):
                f.write(json.dumps(t, separators=(",", ":")) + "\n")
                expected_rej[t["id"]] = (at, why)
    # 5. validate: one TLC run per shard
    with concurrent.futures.ThreadPoolExecutor(max_workers=tlc.NPROC) as ex:
        results = list(ex.map(_validate, [(p, os.path.join(chk.work, "val_%02d" % i)) for i, p in enumerate(paths)]))
    st3 = tr3 = consumed = total = 0
    rejections = []
    for p, r in zip(paths, results):
        if r.violated:
            chk.violation({"spec": "TraceCatalog", "action": "TLC", "invariant": r.violated},
                          "TLC: %s violated while consuming %s" % (r.violated, os.path.basename(p)))
        st3 += r.distinct
        tr3 += r.generated
        summ = [j for j in r.json if "consumed" in j]
        if len(summ) != 1:
            chk.machinery("TraceCatalog printed no summary for %s" % p)
        consumed += summ[0]["consumed"]
        total += summ[0]["total"]
        rejs = [j for j in r.json if "rej" in j]
        if len(rejs) != summ[0]["rejected"]:
            chk.machinery("TraceCatalog reports %d rejected traces but printed %d" % (summ[0]["rejected"], len(rejs)))
        rejections.extend(rejs)
    runs.append({"cfg": "TraceCatalog x %d shard(s)" % nsh, "distinct": st3, "generated": tr3,
                 "wall_s": round(max(r.wall for r in results), 1)})
    if consumed != total or total != tot["traces"] + len(expected_rej):
        chk.machinery("TraceCatalog consumed %d of %d traces (%d recorded)" % (consumed, total, tot["traces"] + len(expected_rej)))
    # 6. verdicts
    real_rej = [j for j in rejections if not j["rej"].startswith("selftest:")]
    self_rej = {j["rej"]: j for j in rejections if j["rej"].startswith("selftest:")}
    if cands:
        if any(j["rej"] == orig["id"] for j in real_rej):
            pass    # the tree is broken on the very trace picked: the real rejection below is the verdict
        else:
            for tid, (at, why) in expected_rej.items():
                j = self_rej.get(tid)
                if j is None:
                    chk.machinery("binding self-test: corrupted trace %s was ACCEPTED by TraceCatalog" % tid)
                if j["at"] != at or why not in j["why"]:
                    chk.machinery("binding self-test: %s rejected at event %s for %s, expected event %d for %s"
                                  % (tid, j["at"], j["why"], at, why))
    elif not real_rej:
        chk.machinery("vacuous: no PostgreSQL trace contains both ADD CONSTRAINT and DROP CONSTRAINT")
    case_by_gid = dict(cases)
    detailed = _find_traces(paths, {j["rej"] for j in real_rej[:400]})       # full traces for the first few hundred only
    for j in real_rej:
        tid = j["rej"]
        gid, be, sc = tid.split(":")[:3]
        case = case_by_gid[int(gid[1:])]
        why = sorted(j["why"])
        tr = detailed.get(tid)
        call = j["call"]
        chk.violation({"spec": "TraceCatalog", "action": j["ev"]["e"], "call": call, "why": ";".join(why), "impl": be, "scenario": sc,
                       "cyclic": case["allcyclic"], "use_alter": any(f["ua"] for f in case["fk"]), "named": case["named"]},
                      "trace %s rejected at event %d %s during %s: failing conjunct(s) %s; graph %s; catalog then %s"
                      % (tid, j["at"], json.dumps(j["ev"], sort_keys=True), call or "-", ", ".join(why), cd.describe(case),
                         json.dumps(j["cat"], sort_keys=True)),
                      {"trace": tr, "rejection": j, "case": case, "gid": int(gid[1:]), "seed": chk.seed})
    # vacuity: every DDL action and every public call of the property's footprint occurred (and, absent rejections, was accepted)
    need_ev = ["pg:CT", "pg:AC", "pg:DC", "pg:DT", "pg:CI", "pg:DI", "pg:HT", "pg:HI", "lite:CT", "lite:DT", "lite:CI", "lite:HT",
               "real:CT", "real:DT", "real:CI", "real:DI", "real:Obs"]
    need_call = ["create_all", "drop_all", "table_create", "table_drop", "index_create", "index_drop", "sorted_tables"]
    if not real_rej:
        for k in need_ev:
            if not by_event.get(k):
                chk.machinery("vacuous: no %s event recorded" % k)
        for k in need_call:
            if not by_call.get(k):
                chk.machinery("vacuous: %s never called" % k)
        for k, what in (("ac_from_cycle", "automatic cycle resolution (ADD CONSTRAINT without use_alter)"),
                        ("rows", "real SQLite run with referencing rows"), ("raised", "documented CircularDependencyError for an unnamed cycle")):
            if not tot[k]:
                chk.machinery("vacuous: %s never exercised" % what)
        for k in ("drop-cycle", "sort-cycle"):
            if not by_warn.get(k):
                chk.machinery("vacuous: warning %s never seen" % k)
    graphs = [c for _, c in cases]
    nontriv = sum(1 for c in graphs if any(f["s"] != f["d"] for f in c["fk"]))
    samples = []
    for t in cands[:2]:
        samples.append({"id": t["id"], "graph": [(f["s"], f["d"], "use_alter" if f["ua"] else "") for f in t["fk"]],
                        "events": [" ".join(str(e.get(k)) for k in ("e", "c", "t", "n", "d", "x") if e.get(k) not in (None, "")) +
                                   ("(" + ",".join(x["n"] for x in e["fks"]) + ")" if e.get("fks") else "") for e in t["ev"]]})
    return chk.finish(
        dict(states=st1 + st2 + st3, transitions=tr1 + tr2 + tr3, traces_validated_against_impl=tot["traces"],
             evaluations=tot["events"], distinct_nontrivial=nontriv, graphs=len(graphs),
             graphs_cyclic=sum(1 for c in graphs if c["allcyclic"]), graphs_with_use_alter=sum(1 for c in graphs if any(f["ua"] for f in c["fk"])),
             graphs_with_doubled_pair=sum(1 for c in graphs if any(f["k"] == 2 for f in c["fk"])),
             graphs_unnamed=sum(1 for c in graphs if not c["named"]),
             graphs_4_tables=sum(1 for c in graphs if c["n"] == 4),
             traces_rejected=len(real_rej), selftest_corrupted_traces_rejected=len(self_rej), shards=nsh,
             traces_by_backend_scenario=by_kind, events_by_backend_kind=by_event, calls=by_call, warnings_seen=by_warn,
             cycles_resolved_automatically=tot["ac_from_cycle"], real_runs_with_rows=tot["rows"], documented_circular_errors=tot["raised"],
             samples=samples, tlc_runs=runs, exhaustive=(dev >= 1), dev_subsample=dev,
             rule="one case per graph printed by DdlGraphs.tla (edge set x per-FK option; exhaustive where tlc_runs says so, seeded samples "
                  "otherwise); per case: PostgreSQL-mock S1 always and S3 with a seeded (pre-existing subset, dropped subset) pair when a non-trivial "
                  "closed subset exists (else p=1/4), SQLite-mock and real SQLite S1 / S1cf / S3 (seeded; exactly one of the two for 3+ tables with mixed "
                  "use_alter flags), S2 when the graph is acyclic without use_alter; for <=2 tables every (pre-existing, dropped) pair on the "
                  "PostgreSQL mock; non-trivial = at least one FK between "
                  "two different tables (order matters)",
             checker_cmd="tlc Catalog.tla; tlc DdlGraphs.tla (INIT GInit); tlc TraceCatalog.tla (INIT TInit NEXT TNext POSTCONDITION Summary, -workers 1)"),
        assumptions=["Catalog.tla is the statement of PostgreSQL's DDL-time enforcement; no PostgreSQL server is available to calibrate it",
                     "SQLite: executed for real with foreign_keys=ON; it enforces only DROP TABLE against referencing rows (rows inserted when the graph is acyclic without use_alter)",
                     "mock backends answer has_table/has_index from the DDL seen so far; TLC checks every answer against the catalog",
                     "bounded: <=3 tables (quick) / <=4 tables bounded or sampled (thorough); one schema, one index per table, integer columns",
                     "unnamed FK cycles: CircularDependencyError on drop_all is the documented outcome and accepted only then"])
