"""Hand-stepped asyncio event loop (C29): one `step()` = exactly one iteration of the loop (every callback that was
ready at the start of the iteration runs once), virtual clock, no wall-clock waits, no threads.

    st = Stepper()
    task = st.spawn(coro)              # not started until the first step()
    st.step()                          # run one iteration
    st.idle()                          # nothing ready, no timer due -> every task is finished or blocked for ever
    st.drain()                         # step until idle (bounded)
    st.advance(dt)                     # move the virtual clock (timers: pool timeout, asyncio.timeout)
    st.run(coro)                       # run_until_complete with the same loop (clause (a): one public call per step)

A task is "suspended at its k-th suspension point" after the k-th iteration in which it ran and did not finish; the
harness delivers `task.cancel()` between two iterations, i.e. exactly at that suspension point.
"""
import asyncio


class Stepper:
    def __init__(self):
        self.loop = asyncio.new_event_loop()
        self.now = 0.0
        self.loop.time = lambda: self.now      # virtual clock: timers fire only when the harness advances it
        self.iterations = 0
        self.unhandled = []
        self.loop.set_exception_handler(lambda loop, ctx: self.unhandled.append(
            "%s: %r" % (ctx.get("message"), ctx.get("exception"))))

    def spawn(self, coro):
        return self.loop.create_task(coro)

    def step(self):
        self.loop.call_soon(self.loop.stop)
        self.loop.run_forever()
        self.iterations += 1

    def idle(self):
        lp = self.loop
        if lp._ready:
            return False
        return not any((not h._cancelled) and h._when <= self.now for h in lp._scheduled)

    def pending_timers(self):
        return sorted(h._when for h in self.loop._scheduled if not h._cancelled)

    def drain(self, limit=5000):
        n = 0
        while not self.idle():
            self.step()
            n += 1
            if n > limit:
                raise RuntimeError("event loop does not become idle within %d iterations" % limit)
        return n

    def advance(self, dt):
        self.now += dt

    def run(self, coro):
        return self.loop.run_until_complete(coro)

    def close(self):
        try:
            for t in asyncio.all_tasks(self.loop):
                t.cancel()
            self.drain()
            self.loop.run_until_complete(self.loop.shutdown_asyncgens())
        except Exception:     # noqa
            pass
        self.loop.close()
