"""Single source for MANIFEST.json (tools/mkmanifest.py)."""
HOOK_COMMITS = []
# properties whose check the integrator has verified on the clean tree (others stay under not_applicable until then)
READY = ["C01", "C02", "C03", "C04", "C05", "C06", "C07", "C08", "C09", "C10", "C11", "C12", "C13", "C14", "C15", "C16", "C17", "C18", "C19", "C20", "C21", "C22", "C23", "C24", "C25", "C26", "C27", "C28", "C29", "C30", "C31", "C32", "C33", "C34", "C35", "C36", "C37", "C38", "C39", "C40", "C41", "C42", "C43", "C44", "C45", "C46", "C47", "C48", "C49", "C50", "C51", "C52", "C53", "C54", "C55", "C56"]
NOTES = ("Technique: explicit TLA+ specifications (specs/*.tla) checked with TLC, bound to /repo's working tree by "
         "spec->code replay of TLC-enumerated cases / state-graph edges and code->spec trace validation. "
         "See DESIGN.md. Exit 2 = machinery failure (never a property verdict).")
ENGINES = [
    {"name": "tlc+replay", "path": "/verif/engine", "serves_properties": [],
     "kind_free_text": "TLC 1.8 model checking of specs/*.tla + conformance replay into the real code (engine/tlc.py, engine/graph.py, engine/verdict.py)"},
]
NOT_APPLICABLE = {
}
CHECKS = {
    "C19": dict(
        text="TLC checks TopoSort.tla exhaustively (every items order x every dependency set up to 3-4 nodes, find_cycles with nondeterministic set iteration) against the declarative definition of topological order and of 'lies on a cycle'; every enumerated case is then executed by the real sort/sort_as_subsets/find_cycles and must equal the specification's result. Exhaustive within the bound, random graphs of 6-7 nodes beyond.",
        design_ref="3.1, 4 (C19), Appendix C",
        note="trusted: TLC, the transcription of the declarative graph definitions; bound N<=4 exhaustive; node hash orders sampled (int/str/colliding objects)",
        technique="TLA+ spec (TopoSort.tla) + TLC exhaustive enumeration; spec->code replay of every enumerated case"),
}
for k in CHECKS:
    ENGINES[0]["serves_properties"].append(k)
