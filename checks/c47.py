"""C47 With autoflush on, queries see all pending changes - OrmSessionExt.tla (DESIGN 3.8, 4 "C45-C48")."""
from checks import ormsessionext_common as X

LEVEL = "model_checking"
MANIFEST = dict(
    text="OrmSessionExt.tla: from every state of bounded histories of add / attribute change / delete / expire / commit / rollback (2 objects, 2 keys, 2 values) two continuations exist for each read: the read with autoflush on (select all, select WHERE v = x, populate_existing, Session.get of an absent or expired identity, load of an expired attribute = the lazy-load-like path, refresh) and flush() followed by the same read inside `with session.no_autoflush`. TLC checks that both give the same result, the same successor state, the same lifecycle events and the same number of statements (AutoflushEquiv), and that a query's result is exactly the rows after every pending insert / update / delete (QuerySeesFlushed). Both continuations of every state are replayed on a real Session and must each equal the spec's single expected outcome: returned instances, loaded values, rows seen by the session's connection, events, statement count.",
    design_ref="3.8, 4 (C45-C48), Appendix F",
    note="trusted: TLC, before_cursor_execute as SQL oracle; one class T(id, v) without relationships: relationship lazy loads are represented by the expired-attribute load (same _load_expired / load_on_ident autoflush hook); Query (legacy) API not driven, select() + Session.execute / Session.get / attribute access are",
    technique="TLA+ spec (OrmSessionExt.tla EXTENDS OrmSession.tla) + TLC exhaustive model checking; spec->code replay of every state-graph edge (both continuations) into a real Session")

INVS = ["OneIdentity"]
PROPS = ["AutoflushEquiv", "QuerySeesFlushed", "ColumnQuerySeesFlushed"]
FOOTPRINT = ["QueryC", "FQueryC", "QueryAll", "QueryV", "Get", "Read", "FQueryAll", "FQueryV", "FGet", "FRead", "FRefresh", "Refresh", "Add", "SetV", "Delete", "Flush"]
READS = ("QueryAll", "QueryV", "QueryC", "Get", "Read", "Refresh")


def pending(frm):
    inmap = lambda o: frm["key"][o] != 0 and frm["imap"][frm["key"][o] - 1] == o      # noqa
    return bool(frm["new"]) or bool(frm["sdel"]) or any(inmap(o) and frm["mod"][o] for o in frm["life"])


def spec(chk):
    q = chk.quick
    acts = ["SetV", "Expire", "Query", "QueryV", "QueryC", "FQuery", "Get", "FGet", "Read", "FRead", "Refresh", "FRefresh"]
    return dict(
        cfgs=[dict(name="af", acts=acts, depth=5 if q else 6, deep_depth=7 if q else 8, edge_sample=1.0,
                   edge_probs={"QueryC": 0.35, "FQueryC": 0.2} if q else {"QueryC": 0.5, "FQueryC": 0.3}, eoc=True, random=200 if q else 2000)],
        invs=INVS, props=PROPS, footprint=FOOTPRINT,
        nontrivial=lambda frm, act: (act["a"] in READS or act["a"][1:] in READS) and pending(frm))


def main(chk):
    P = spec(chk)
    res = X.run_ext(chk, "C47", P)
    return X.finish(chk, "C47", P, res,
                    "every labelled edge of the OrmSessionExt state graph replayed on a real Session: each read with autoflush on and, from the same "
                    "state, flush() + the same read under no_autoflush; non-trivial = reads (either continuation) from a state with pending changes",
                    INVS, PROPS,
                    ["SQLite only (file, autocommit=False, NullPool); one mapped class T(id, v), no relationships (lazy load = expired attribute load)",
                     "refresh(o) is equivalent to flush-then-refresh only when o itself has no pending change (refresh discards it first): the spec "
                     "states the equivalence for query / get-miss / expired-attribute load; refresh edges are still replayed in both forms"])
