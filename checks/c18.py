"""C18 LIMIT/OFFSET and their dialect emulations return exactly the requested slice - LimitOffset.tla (DESIGN 3.12, 4 C18).

TLC: for every ordered result of <= MaxRows rows with ties and every limit / offset in {None, 0..MaxN}: the meaning of each rendering
(LIMIT L OFFSET O, MySQL LIMIT a, b, OFFSET..FETCH, TOP, the ROW_NUMBER() wrapper, Oracle's two-level ROWNUM form with ROWNUM's real
semantics) equals Slice (FormsOK, WrapperOK, RownumOK), the one-level ROWNUM form does not (NaiveBreaks), FETCH WITH TIES / PERCENT
(TiesOK, PercentOK).  Every state prints the slice and the arguments each dialect's form must carry.
Binding: SQLite executes every case natively (plain, join, subquery, DISTINCT, GROUP BY queries; integer, expression and
literal_binds arguments; ties-only ordering compared by key); the MSSQL pre-2012 ROW_NUMBER wrapper produced by
MSSQLCompiler.translate_select_structure is an ordinary SELECT and is EXECUTED on SQLite: rows must equal the slice; TOP, OFFSET..FETCH
(MSSQL 2012+, Oracle 12c+, PostgreSQL), MySQL's comma form and Oracle's ROWNUM nesting are checked structurally against the form whose
meaning the specification proves, values included.
"""
import os
import random
import re

from engine import tlc

LEVEL = "model_checking"
MANIFEST = dict(
    text="LimitOffset.tla: Slice / FETCH WITH TIES / PERCENT over ordered results with ties, and the meaning of every dialect rendering "
         "(LIMIT/OFFSET, MySQL LIMIT a,b, OFFSET..FETCH, TOP, the ROW_NUMBER() OVER wrapper, Oracle's nested ROWNUM form with ROWNUM's "
         "filter-then-number semantics); TLC proves each equal to Slice for all results of <=4 (quick) / <=6 (thorough) rows, limit/offset in "
         "{None,0..3/4}, and that the naive one-level ROWNUM form is wrong. Every case runs on SQLite natively (plain / join / subquery / "
         "DISTINCT / GROUP BY, int / expression / literal_binds arguments), the MSSQL ROW_NUMBER wrapper built by translate_select_structure is "
         "executed on SQLite and must return the slice; TOP, OFFSET..FETCH, WITH TIES, PERCENT, MySQL and PostgreSQL forms and Oracle's ROWNUM "
         "nesting are matched structurally (clause nesting depth, ORDER BY placement, numeric values) against the form the specification proves.",
    design_ref="3.12, 4 (C18)",
    note="trusted: TLC; SQLite as executor of the native form and of the translated MSSQL wrapper (its outer query has no ORDER BY: the "
         "specification proves set equality, list equality is what SQLite happens to return); Oracle / MSSQL 2012+ / PostgreSQL / MySQL forms "
         "are not executable here: structural conformance of the compiled text only; WITH TIES and PERCENT have no executable backend",
    technique="TLA+ spec (LimitOffset.tla) + TLC exhaustive theorem checking; spec->code replay of every case (execution on SQLite, "
              "structural conformance elsewhere)")


def _sig(**kw):
    return dict(spec="LimitOffset", **kw)


def _compile(stmt, dialect):
    try:
        return " ".join(str(stmt.compile(dialect=dialect, compile_kwargs={"literal_binds": True})).split())
    except Exception as ex:          # an internal error of the compiler is a wrong rendering, not a harness failure
        return "COMPILE-ERROR %s: %s ORDER BY x" % (type(ex).__name__, " ".join(str(ex).split()))


def _depth_of(text, pos):
    return text.count("(", 0, pos) - text.count(")", 0, pos)


def _expr_value(s):
    """value of a rendered integer expression like '2 + 3' or '(2)'"""
    parts = re.findall(r"\d+", s)
    if not parts or not re.fullmatch(r"[\d\s+()]+", s):
        return None
    return sum(int(p) for p in parts)


def main(chk):
    import warnings
    import sqlalchemy as sa
    from sqlalchemy.dialects import mssql, mysql, oracle, postgresql, sqlite
    warnings.filterwarnings("ignore", category=sa.exc.SAWarning)
    rng = random.Random(chk.seed)
    consts = dict(MaxRows=4, MaxN=3, MaxKey=3) if chk.quick else dict(MaxRows=6, MaxN=4, MaxKey=3)
    cfg = tlc.cfg(constants=consts, invariants=["FormsOK", "WrapperOK", "RownumOK", "NaiveBreaks", "SliceSane", "TiesOK", "PercentOK"])
    r = tlc.run("LimitOffset", cfg, os.path.join(chk.work, "tlc"), workers=1, timeout=900 if chk.quick else 3000, keep_stdout=False)
    if r.violated:
        chk.violation(_sig(action="TLC", invariant=r.violated), "TLC: %s violated in LimitOffset.tla" % r.violated)
    cases = r.json
    if not cases:
        chk.machinery("TLC printed no cases")
    # ------------------------------------------------------------------ database: one table per key sequence
    eng = sa.create_engine("sqlite:///" + os.path.join(chk.work, "c18.db"))
    md = sa.MetaData()
    tables = {}
    with eng.begin() as conn:
        for c in cases:
            ks = tuple(c["keys"])
            if ks in tables:
                continue
            name = "t_" + ("".join(map(str, ks)) or "empty")
            t = sa.Table(name, md, sa.Column("id", sa.Integer, primary_key=True), sa.Column("k", sa.Integer))
            u = sa.Table("u_" + name, md, sa.Column("id", sa.Integer, primary_key=True), sa.Column("w", sa.Integer))
            t.create(conn)
            u.create(conn)
            if ks:
                conn.execute(t.insert(), [dict(id=i + 1, k=k) for i, k in enumerate(ks)])
                conn.execute(u.insert(), [dict(id=i + 1, w=7) for i in range(len(ks))])
            tables[ks] = (t, u)

    def queries(t, u):
        sub = sa.select(t.c.id, t.c.k).subquery()
        return {
            "plain": sa.select(t.c.id).order_by(t.c.k, t.c.id),
            "join": sa.select(t.c.id, u.c.w).join(u, u.c.id == t.c.id).order_by(t.c.k, t.c.id),
            "subquery": sa.select(sub.c.id).order_by(sub.c.k, sub.c.id),
            "distinct": sa.select(t.c.id, t.c.k).distinct().order_by(t.c.k, t.c.id),
            "group_by": sa.select(t.c.id, sa.func.count().label("n")).group_by(t.c.id, t.c.k).order_by(t.c.k, t.c.id),
            "desc": sa.select(t.c.id).order_by(t.c.k.desc(), t.c.id.desc()),
        }

    def compounds(t):
        """compound selects whose fully ordered result is again the whole table in (k, id) order"""
        odd = sa.select(t.c.id, t.c.k).where(t.c.id % 2 == 1)
        even = sa.select(t.c.id, t.c.k).where(t.c.id % 2 == 0)
        every = sa.select(t.c.id, t.c.k)
        none = sa.select(t.c.id, t.c.k).where(t.c.id < 0)
        out = {"union": sa.union(odd, even), "union_all": sa.union_all(odd, even), "intersect": sa.intersect(every, every),
               "except": sa.except_(every, none)}
        return {k: v.order_by(v.selected_columns.k, v.selected_columns.id) for k, v in out.items()}

    def apply(q, lim, off, mode):
        if mode == "int":
            L, O = lim, off
        elif mode == "expr":
            L = None if lim is None else sa.literal(lim) + sa.literal(0)
            O = None if off is None else sa.literal(off) + sa.literal(0)
        else:
            L = None if lim is None else sa.bindparam("lim", lim, sa.Integer)
            O = None if off is None else sa.bindparam("off", off, sa.Integer)
        if L is not None:
            q = q.limit(L)
        if O is not None:
            q = q.offset(O)
        return q

    d_sqlite = sqlite.dialect()
    d_ms_old = mssql.dialect()
    d_ms_old._supports_offset_fetch = False
    d_ms_new = mssql.dialect()
    d_ms_new._supports_offset_fetch = True
    d_ora_old = oracle.dialect(enable_offset_fetch=False)
    d_ora_new = oracle.dialect()
    d_pg = postgresql.dialect()
    d_my = mysql.dialect()
    from sqlalchemy.engine import default as _default
    d_generic = _default.DefaultDialect()
    nexec = nshape = nontriv = 0
    counts = {}
    samples = []

    def bump(k):
        counts[k] = counts.get(k, 0) + 1

    with eng.connect() as conn:
        for c in cases:
            lim = None if c["lim"] == -1 else c["lim"]
            off = None if c["off"] == -1 else c["off"]
            if lim is None and off is None:
                continue
            ks = tuple(c["keys"])
            t, u = tables[ks]
            n = len(ks)
            want = c["slice"]
            if 0 < len(want) < n:
                nontriv += 1
            base = base0 = dict(lim=c["lim"], off=c["off"], rows=n, ties=len(set(ks)) < len(ks))
            qs = queries(t, u)
            cqs = compounds(t)
            # ---------------- A. SQLite native
            for qname, q in qs.items():
                exp = want if qname != "desc" else [n + 1 - i for i in want]
                for mode in ("int", "expr", "bind"):
                    if mode != "int" and qname not in ("plain", "distinct"):
                        continue
                    stmt = apply(q, lim, off, mode)
                    got = [row[0] for row in conn.execute(stmt)]
                    nexec += 1
                    bump("sqlite/" + qname)
                    if got != exp:
                        chk.violation(_sig(action="sqlite_native", query=qname, args=mode, **base),
                                      "SQLite %s query, limit=%r offset=%r (%s) over keys %r returns ids %r, the slice is %r"
                                      % (qname, lim, off, mode, list(ks), got, exp), dict(case=c, sql=str(stmt)))
                if qname == "plain":
                    text = _compile(apply(q, lim, off, "int"), d_sqlite)
                    try:
                        got = [row[0] for row in conn.exec_driver_sql(text)]
                    except sa.exc.DBAPIError as ex:
                        got = "%s: %s" % (type(ex).__name__, str(ex.orig)[:80])
                    nexec += 1
                    if got != want:
                        chk.violation(_sig(action="sqlite_literal_binds", query=qname, offset_only=lim is None, **base),
                                      "SQLite, statement compiled with literal_binds (%s): %r, the slice is %r" % (text, got, want), dict(case=c, sql=text))
            # ties-only ordering: any order among equal keys is a fully ordered result; the KEYS of the returned rows are determined
            stmt = apply(sa.select(t.c.id, t.c.k).order_by(t.c.k), lim, off, "int")
            got = [row[1] for row in conn.execute(stmt)]
            nexec += 1
            if got != [ks[i - 1] for i in want]:
                chk.violation(_sig(action="sqlite_native", query="ties_only", args="int", **base),
                              "ORDER BY k only: keys of the rows %r, keys of the slice %r" % (got, [ks[i - 1] for i in want]), dict(case=c))
            # compound selects: limit / offset on the compound as a whole, and on a MEMBER (wrapped in a subquery: SQLite accepts no
            # parenthesised members)
            for qname, q in cqs.items():
                for mode in ("int", "bind"):
                    stmt = apply(q, lim, off, mode)
                    try:
                        got = [row[0] for row in conn.execute(stmt)]
                    except sa.exc.SQLAlchemyError as ex:
                        got = "%s: %s" % (type(ex).__name__, str(ex).splitlines()[0][:100])
                    nexec += 1
                    bump("sqlite/compound")
                    if got != want:
                        chk.violation(_sig(action="sqlite_native", query=qname, args=mode, **base),
                                      "SQLite %s, limit=%r offset=%r (%s) over keys %r returns ids %r, the slice is %r"
                                      % (qname, lim, off, mode, list(ks), got, want), dict(case=c, sql=str(stmt)))
            member = apply(sa.select(t.c.id, t.c.k).order_by(t.c.k, t.c.id), lim, off, "int").subquery()
            rest = sa.select(t.c.id, t.c.k).where(t.c.id < 0)
            for qname, cs_ in (("member_union_all", sa.union_all(sa.select(member.c.id, member.c.k), rest)),
                               ("member_union", sa.union(rest, sa.select(member.c.id, member.c.k)))):
                stmt = cs_.order_by(cs_.selected_columns.k, cs_.selected_columns.id)
                got = [row[0] for row in conn.execute(stmt)]
                nexec += 1
                bump("sqlite/compound_member")
                if got != want:
                    chk.violation(_sig(action="sqlite_native", query=qname, args="int", **base),
                                  "SQLite %s with limit=%r offset=%r on the member returns ids %r, the slice is %r" % (qname, lim, off, got, want),
                                  dict(case=c, sql=str(stmt)))
            # a parenthesised member carrying the clause (PostgreSQL text): the member's own LIMIT / OFFSET must be inside the parentheses
            pm = sa.union_all(apply(sa.select(t.c.id, t.c.k).order_by(t.c.k, t.c.id), lim, off, "int"), rest)
            text = _compile(pm, d_pg)
            nshape += 1
            mm = re.match(r"\(SELECT .*? ORDER BY [^()]*?(?: LIMIT (\d+|ALL))?(?: OFFSET (\d+))?\) UNION ALL SELECT", text)
            pa_ = c["pg"]
            if not mm or (-1 if mm.group(1) in (None, "ALL") else int(mm.group(1)), -1 if mm.group(2) is None else int(mm.group(2))) != (pa_["L"], pa_["O"]):
                chk.violation(_sig(action="limit_offset_text", dialect="postgresql", query="member_parenthesised", **base),
                              "PostgreSQL union member with limit=%r offset=%r: %s" % (lim, off, text), dict(case=c, sql=text))
            # ---------------- B. MSSQL before 2012: TOP or the ROW_NUMBER() wrapper, executed on SQLite
            for qname in ("plain", "join", "subquery", "distinct", "group_by", "desc"):
                exp = want if qname != "desc" else [n + 1 - i for i in want]
                stmt = apply(qs[qname], lim, off, "int")
                comp = d_ms_old.statement_compiler(d_ms_old, None)
                try:
                    tr = comp.translate_select_structure(stmt)
                except sa.exc.CompileError as ex:
                    chk.violation(_sig(action="mssql_wrapper", query=qname, error="CompileError", **base), "MSSQL (pre-2012) %s: %s" % (qname, ex), dict(case=c))
                    continue
                text = _compile(stmt, d_ms_old)
                nshape += 1
                if c["top"]:
                    bump("mssql/top")
                    m = re.match(r"SELECT (DISTINCT )?TOP (\d+) ", text)
                    if tr is not stmt or not m or int(m.group(2)) != lim or "ORDER BY" not in text or "mssql_rn" in text:
                        chk.violation(_sig(action="mssql_top", query=qname, **base), "MSSQL limit=%r without offset must render SELECT TOP %r .. ORDER BY: %s"
                                      % (lim, lim, text), dict(case=c, sql=text))
                    continue
                bump("mssql/wrapper")
                if tr is stmt:
                    chk.violation(_sig(action="mssql_wrapper", query=qname, **base), "MSSQL (pre-2012) did not wrap limit=%r offset=%r: %s" % (lim, off, text),
                                  dict(case=c, sql=text))
                    continue
                # the compiled text carries the requested values: rn > off, rn <= lim + off, ROW_NUMBER over the query's ORDER BY
                m_lo = re.search(r"mssql_rn > (\d+)", text)
                m_hi = re.search(r"mssql_rn <= ([\d +]+)", text)
                ok = ("ROW_NUMBER() OVER (ORDER BY" in text and (m_lo is not None) == (off is not None) and (m_hi is not None) == (lim is not None)
                      and (m_lo is None or int(m_lo.group(1)) == off) and (m_hi is None or _expr_value(m_hi.group(1)) == lim + (off or 0)))
                if not ok:
                    chk.violation(_sig(action="mssql_wrapper_text", query=qname, **base), "MSSQL wrapper for limit=%r offset=%r carries other values: %s"
                                  % (lim, off, text), dict(case=c, sql=text))
                try:
                    got = [row[0] for row in conn.execute(tr)]
                except sa.exc.DBAPIError as ex:
                    got = "%s: %s" % (type(ex).__name__, str(ex.orig)[:100])
                nexec += 1
                if got != exp:
                    same_set = isinstance(got, list) and sorted(got) == sorted(exp)
                    chk.violation(_sig(action="mssql_wrapper", query=qname, same_set=same_set, **base),
                                  "the translated MSSQL ROW_NUMBER wrapper (%s), executed on SQLite for limit=%r offset=%r over keys %r, returns %r; the slice is %r"
                                  % (qname, lim, off, list(ks), got, exp), dict(case=c, sql=text))
            # ---------------- C. text forms of the other dialects: the plain query and the compound selects
            oa = c["offset_fetch"]
            for shape, stmt in [("plain", apply(qs["plain"], lim, off, "int"))] + [(k, apply(q, lim, off, "int")) for k, q in cqs.items()]:
                base = dict(base0, query=shape)
                # MSSQL 2012+
                text = _compile(stmt, d_ms_new)
                nshape += 1
                if c["top"] and shape == "plain":
                    ok = re.match(r"SELECT TOP (\d+) ", text) and int(re.match(r"SELECT TOP (\d+) ", text).group(1)) == lim
                else:           # a compound SELECT has no columns clause for TOP: OFFSET 0 ROWS FETCH FIRST n ROWS ONLY
                    m = re.search(r"ORDER BY .* OFFSET (\d+) ROWS(?: FETCH FIRST (\d+) ROWS ONLY)?$", text)
                    ok = m and int(m.group(1)) == oa["o"] and (int(m.group(2)) if m.group(2) else -1) == oa["n"]
                bump("mssql2012")
                if not ok:
                    dropped = shape != "plain" and " ROWS" not in text and "TOP" not in text
                    chk.violation(_sig(action="offset_fetch_text", dialect="mssql2012", clause_dropped=dropped, **base),
                                  "MSSQL 2012+ %s limit=%r offset=%r: %s" % (shape, lim, off, text), dict(case=c, sql=text))
                if shape != "plain":
                    # before 2012 there is no clause that could follow a compound SELECT: refusing is correct, dropping is not
                    text = _compile(stmt, d_ms_old)
                    nshape += 1
                    if not text.startswith("COMPILE-ERROR CompileError"):
                        chk.violation(_sig(action="offset_fetch_text", dialect="mssql_old", clause_dropped="mssql_rn" not in text and "TOP" not in text, **base),
                                      "MSSQL before 2012 %s limit=%r offset=%r is neither refused nor limited: %s" % (shape, lim, off, text), dict(case=c, sql=text))
                # Oracle 12c+
                text = _compile(stmt, d_ora_new)
                nshape += 1
                m = re.search(r"ORDER BY .*?(?: OFFSET (\d+) ROWS)?(?: FETCH FIRST (\d+) ROWS ONLY)?$", text)
                ok = m and (int(m.group(1)) if m.group(1) else 0) == oa["o"] and (int(m.group(2)) if m.group(2) else -1) == oa["n"] and "ROWNUM" not in text
                bump("oracle12")
                if not ok:
                    chk.violation(_sig(action="offset_fetch_text", dialect="oracle12", **base), "Oracle 12c+ limit=%r offset=%r: %s" % (lim, off, text), dict(case=c, sql=text))
                # PostgreSQL
                text = _compile(stmt, d_pg)
                nshape += 1
                m = re.search(r"ORDER BY .*?(?: LIMIT (\d+|ALL))?(?: OFFSET (\d+))?$", text)
                pa = c["pg"]
                gotL = None if m is None else -1 if m.group(1) in (None, "ALL") else int(m.group(1))
                gotO = None if m is None else -1 if m.group(2) is None else int(m.group(2))
                bump("pg")
                if m is None or (gotL, gotO) != (pa["L"], pa["O"]) or (m.group(1) == "ALL") != (lim is None):
                    chk.violation(_sig(action="limit_offset_text", dialect="postgresql", **base), "PostgreSQL limit=%r offset=%r: %s" % (lim, off, text), dict(case=c, sql=text))
                # the generic compiler third-party dialects inherit: LIMIT n | LIMIT -1, OFFSET only if given
                text = _compile(stmt, d_generic)
                nshape += 1
                m = re.search(r"ORDER BY .*?(?: LIMIT (-?\d+))?(?: OFFSET (\d+))?$", text)
                gotL = None if m is None else -1 if m.group(1) is None else int(m.group(1))
                gotO = None if m is None else -1 if m.group(2) is None else int(m.group(2))
                bump("generic")
                if m is None or (gotL, gotO) != (pa["L"], pa["O"]) or (m.group(1) == "-1") != (lim is None):
                    chk.violation(_sig(action="limit_offset_text", dialect="default", **base), "generic dialect limit=%r offset=%r: %s" % (lim, off, text), dict(case=c, sql=text))
                # MySQL
                text = _compile(stmt, d_my)
                nshape += 1
                ma = c["mysql"]
                m2 = re.search(r"ORDER BY .* LIMIT (\d+), (\d+)$", text)
                m1 = re.search(r"ORDER BY .* LIMIT (\d+)$", text)
                if ma["a"] == -1:
                    ok = m1 and not m2 and int(m1.group(1)) == ma["b"]
                else:
                    ok = m2 and int(m2.group(1)) == ma["a"] and (m2.group(2) == "18446744073709551615" if ma["b"] == -2 else int(m2.group(2)) == ma["b"])
                bump("mysql")
                if not ok:
                    chk.violation(_sig(action="limit_offset_text", dialect="mysql", **base), "MySQL limit=%r offset=%r must be %r: %s" % (lim, off, ma, text), dict(case=c, sql=text))

            base = base0
            # ---------------- D. Oracle before 12c: the nesting of the ROWNUM form
            for qname in ("plain", "join", "distinct"):
                text = _compile(apply(qs[qname], lim, off, "int"), d_ora_old)
                nshape += 1
                bump("oracle_rownum")
                problems = []
                p_order = text.find("ORDER BY")
                p_max = text.find("ROWNUM <=")
                p_rn = text.find("ROWNUM AS ora_rn")
                p_off = text.find("ora_rn >")
                d_order = _depth_of(text, p_order) if p_order >= 0 else None
                if p_order < 0:
                    problems.append("no ORDER BY in the innermost query")
                if lim is not None:
                    mm = re.search(r"ROWNUM <= ([\d +]+)", text)
                    if not mm or _expr_value(mm.group(1)) != lim + (off or 0):
                        problems.append("ROWNUM <= %r missing / other value" % (lim + (off or 0)))
                    elif d_order is not None and _depth_of(text, p_max) != d_order - 1:
                        problems.append("ROWNUM <= is not directly around the ordered query")
                elif p_max >= 0:
                    problems.append("ROWNUM <= without a limit")
                if off is not None:
                    mm = re.search(r"ora_rn > (\d+)", text)
                    if not mm or int(mm.group(1)) != off:
                        problems.append("ora_rn > %r missing / other value" % off)
                    elif p_rn < 0 or d_order is None or _depth_of(text, p_rn) != d_order - 1 or _depth_of(text, p_off) != d_order - 2:
                        problems.append("ROWNUM AS ora_rn / ora_rn > are not at the levels the specification's RownumForm has")
                    if re.search(r"WHERE ROWNUM > ", text):
                        problems.append("one-level ROWNUM > (RownumNaive)")
                elif p_off >= 0 or p_rn >= 0:
                    problems.append("ora_rn without an offset")
                if _depth_of(text, p_order) != (2 if off is not None else 1):
                    problems.append("ORDER BY at depth %d" % _depth_of(text, p_order))
                if problems:
                    chk.violation(_sig(action="oracle_rownum_shape", query=qname, **base), "Oracle (ROWNUM form) limit=%r offset=%r: %s | %s"
                                  % (lim, off, "; ".join(problems), text), dict(case=c, sql=text))
            # ---------------- E. FETCH ... WITH TIES / PERCENT, TOP .. WITH TIES / PERCENT (no executable backend: shape and values)
            if lim is not None and lim > 0:
                for opts, word in ((dict(with_ties=True), "WITH TIES"), (dict(percent=True), "PERCENT")):
                    f = qs["plain"].fetch(lim, **opts)
                    if off is not None:
                        f = f.offset(off)
                    for dname, d in (("postgresql", d_pg), ("oracle12", d_ora_new)):
                        text = _compile(f, d)
                        nshape += 1
                        bump("fetch_options")
                        m = re.search(r"ORDER BY .*?(?: OFFSET \(?(\d+)\)? ROWS)? FETCH FIRST \(?(\d+)\)?( PERCENT)? ROWS (ONLY|WITH TIES)$", text)
                        ok = (m and (int(m.group(1)) if m.group(1) else None) == off and int(m.group(2)) == lim
                              and bool(m.group(3)) == ("percent" in opts) and (m.group(4) == "WITH TIES") == ("with_ties" in opts))
                        if not ok:
                            chk.violation(_sig(action="fetch_options_text", dialect=dname, option=word, **base), "%s fetch(%r, %s) offset=%r: %s"
                                          % (dname, lim, word, off, text), dict(case=c, sql=text))
                    if off is None:
                        text = _compile(f, d_ms_old)
                        nshape += 1
                        if not re.match(r"SELECT TOP %d %s " % (lim, word), text) or "ORDER BY" not in text:
                            chk.violation(_sig(action="fetch_options_text", dialect="mssql", option=word, **base), "MSSQL fetch(%r, %s): %s" % (lim, word, text),
                                          dict(case=c, sql=text))
            if len(samples) < 3 and lim and off and 0 < len(want) < n and base["ties"]:
                samples.append(dict(keys=list(ks), limit=lim, offset=off, slice=want, with_ties=c["ties"],
                                    mssql_wrapper=_compile(apply(qs["plain"], lim, off, "int"), d_ms_old),
                                    oracle_rownum=_compile(apply(qs["plain"], lim, off, "int"), d_ora_old)))
    for need in ("sqlite/plain", "sqlite/join", "sqlite/distinct", "sqlite/group_by", "mssql/top", "mssql/wrapper", "mssql2012", "oracle12", "pg", "mysql",
                 "oracle_rownum", "fetch_options", "generic", "sqlite/compound", "sqlite/compound_member"):
        if not counts.get(need):
            chk.machinery("vacuous: nothing exercised %s" % need)
    eng.dispose()
    return chk.finish(
        dict(states=r.distinct, transitions=r.generated, traces_validated_against_impl=nexec + nshape, evaluations=nexec + nshape,
             sqlite_executions=nexec, structural_checks=nshape, distinct_nontrivial=nontriv, cases=len(cases), coverage_by_path=counts,
             samples=samples, tlc_wall_s=round(r.wall, 1), exhaustive=True,
             rule="one case per (key sequence with ties, limit, offset) TLC initial state; non-trivial = the slice is a proper non-empty part of "
                  "the result; each case executed on SQLite in 6 query shapes x 3 argument forms and through the translated MSSQL wrapper, and "
                  "matched structurally on 5 more dialect configurations",
             checker_cmd="tlc LimitOffset.tla"),
        assumptions=["SQLite only executes; MSSQL 2012+, Oracle, PostgreSQL, MySQL forms: structural conformance of the compiled text against the form "
                     "whose meaning LimitOffset.tla proves",
                     "the MSSQL wrapper's outer query has no ORDER BY: list equality holds on SQLite, the specification guarantees set equality",
                     "bounded: results of <=%d rows, limit/offset in {None, 0..%d}" % (consts["MaxRows"], consts["MaxN"])])
