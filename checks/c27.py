"""C27 disconnect handling - ConnFault.tla (DESIGN 3.4 ConnFault, 4 C27)."""
import random

from engine import graph, tlc
from checks.connfault_driver import Driver

LEVEL = "model_checking"
MANIFEST = dict(
    text="ConnFault.tla extends the Connection transaction mechanism with DBAPI faults (disconnect / ordinary error) at every DBAPI-level operation (execute, SAVEPOINT, ROLLBACK TO, RELEASE, commit, rollback), handle_error listener variants (none, re-classify to/from disconnect, invalidate_pool_on_disconnect off) and a QueuePool(2,0) ledger of DBAPI connection ids. TLC checks per variant: a disconnect invalidates the Connection, connections opened before the failure are never handed to it again, while a transaction is attached nothing executes or commits until rollback(), then the next statement reconnects transparently, non-disconnect errors leave the pool untouched, and committed data still equals the nested-transaction reference (RefAgree). Every labelled edge of each variant's graph (fault position x transaction state) is replayed against a real Connection over fault-injecting sqlite3 connections, comparing outcome, flags, invalidated, current connection id, open-connection ledger and committed rows after every step.",
    design_ref="3.4 (ConnFault), 4 (C27)",
    note="trusted: TLC, the fault wrapper (checks/faultdb.py: the next DBAPI call raises; a disconnected connection stays dead), virtual pool clock; SQLite only; <=1 armed fault quick / 2 thorough; Close is not faulted (reset-on-return faults belong to C26). Named deviation: after a rollback() that itself failed, savepoint handles stay active (in_nested_transaction() True without a transaction) - modelled, not claimed.",
    technique="TLA+ spec (ConnFault.tla) + TLC exhaustive model checking per listener variant; spec->code replay of every state-graph edge with fault injection")
INVS = ["CurOpen", "NothingLost", "NoStaleReuse", "RefAgree"]
PROPS = ["DisconnectInvalidates", "BlockedUntilRollback", "TransparentReconnect", "NonDisconnectLeavesPool"]


def main(chk):
    rng = random.Random(chk.seed)
    if chk.quick:
        variants = ["none", "undisc", "todisc", "nopool"]
        base = dict(MaxH=4, MaxRows=2, MaxDepth=7, MaxFaults=1)
    else:
        variants = ["none", "keep", "undisc", "todisc", "nopool"]
        base = dict(MaxH=4, MaxRows=2, MaxDepth=9, MaxFaults=2)
    states = trans = nwalks = steps_total = nontriv = 0
    samples, runs = [], []
    cov = {}
    # (listener, bounds): the last plans trade handles/rows for MORE faults per history (failed reconnect attempts,
    # an ordinary error after a disconnect + recovery, ...)
    multi = dict(MaxH=2, MaxRows=1, MaxDepth=7, MaxFaults=3) if chk.quick else dict(MaxH=3, MaxRows=1, MaxDepth=9, MaxFaults=3)
    plans = [(L, base) for L in variants] + [("none", multi)] + ([] if chk.quick else [("todisc", multi), ("nopool", multi)])
    for L, base in plans:
        consts = dict(base, Faults={tlc.q("disc"), tlc.q("err")}, L=tlc.q(L))
        cfgt = tlc.cfg(constants=consts, init="InitEmit", invariants=INVS, properties=PROPS, view="View",
                       action_constraints=["Emit"], constraints=["Depth"])
        g = graph.dump("ConnFault", cfgt, chk.work, timeout=2400)
        r = g.tlc
        if r.violated:
            chk.violation({"spec": "ConnFault", "action": "TLC", "invariant": r.violated, "listener": L},
                          "TLC: %s violated in ConnFault.tla (listener variant %s)" % (r.violated, L))
        states += r.distinct
        trans += r.generated
        fired = 0
        for e in g.edges:
            a = e[1]
            key = a["a"] + ("/" + a["f"] if a["f"] != "none" else "")
            cov[key] = cov.get(key, 0) + 1
            if a["f"] != "none" and a["ret"] in ("ProgrammingError", "OperationalError"):
                fired += 1
        nontriv += fired
        walks, plan = graph.plan_tours(g, base["MaxDepth"], rng)
        extra = graph.random_walks(g, 200, base["MaxDepth"], rng)
        steps, mism = graph.replay(g, walks + extra, lambda wid, wd, L=L: Driver(wid, wd, L), chk.work + "/replay-" + L, nproc=16)
        for m in mism:
            a = m["act"] if isinstance(m["act"], dict) else {"a": m["act"]}
            chk.violation({"spec": "ConnFault", "action": a.get("a"), "fault": a.get("f"), "kind": "conformance", "listener": L},
                          "real Connection diverges from ConnFault.tla (listener %s): %s" % (L, m["mismatch"]), m)
        nwalks += len(walks) + len(extra)
        steps_total += steps
        runs.append(dict(listener=L, bounds=dict(base), distinct=r.distinct, generated=r.generated, depth=r.depth, edges=len(g.edges),
                         fault_fired_edges=fired, plan=plan, wall_s=round(r.wall, 1)))
        w = max(walks, key=lambda w: sum(1 for ei in w if g.edges[ei][1]["f"] != "none"))
        samples.append({"listener": L, "walk": ["%s%s%s->%s" % (g.edges[ei][1]["a"], "(%d)" % g.edges[ei][1]["arg"] if g.edges[ei][1]["arg"] else "",
                                                              "!" + g.edges[ei][1]["f"] if g.edges[ei][1]["f"] != "none" else "", g.edges[ei][1]["ret"]) for ei in w]})
    for need in ("Exec/disc", "ConnCommit/disc", "ConnRollback/disc", "BeginNested/disc", "H_rollback/disc", "H_commit/disc", "Exec/err", "ConnCommit/err"):
        if not cov.get(need):
            chk.machinery("vacuous: no edge for fault position %s" % need)
    return chk.finish(
        dict(states=states, transitions=trans, traces_validated_against_impl=nwalks, distinct_nontrivial=nontriv,
             evaluations=steps_total, samples=samples, tlc_runs=runs, action_coverage=cov, exhaustive=True,
             rule="every labelled edge of the ConnFault state graph per listener variant covered by a walk from Init and replayed with fault injection; "
                  "non-trivial = edges on which an armed fault actually fired (call raised the injected DBAPI error)",
             checker_cmd="tlc ConnFault.tla (VIEW View, ACTION_CONSTRAINT Emit) per listener variant"),
        assumptions=["SQLite only; fault = next DBAPI-level call raises (disconnect: connection stays dead)",
                     "pool clock virtualised so 'opened before the failure' never depends on wall-clock resolution",
                     "bounds: see tlc_runs[*].bounds"])
