"""C17 lambda statements never reuse stale closure values - StmtCache.tla over the lambda shapes of StmtShapes.tla (DESIGN 3.13, 4 C17)."""
import json
import random

from checks import c02

LEVEL = "model_checking"
MANIFEST = dict(
    text="The lambda shapes of StmtShapes.tla (closure scalar / list for IN / column / table / finished SQL expression / multi-step lambda_stmt / lambda criteria inside a "
         "plain select / with_loader_criteria lambda) with closure valuations incl. None, the empty list, a second column and a second table; chains of 3 and 4 linked lambdas whose FIRST link holds the structural closure value: the "
         "meaning F is that of the statement built directly from the current values; the cache key contains the non-literal closure values. "
         "StmtCache.tla is checked over groups of lambda shapes sharing an LRU cache of capacity 2 (Transparent, NoStaleValues, KeysSound, ...). "
         "Binding: every lambda shape x 4 valuations is invoked with fresh lambda-analysis state and compared with the specification and with "
         "the equivalent plain statement (SQL, parameters, rows); every edge of the cache graphs (all invocation sequences over the cache "
         "states) is replayed: the lambda statement through the cached engine, through compiled_cache=None, on a cache-less engine, and "
         "the plain statement from the current closure values. The code's treatment of a None closure scalar (bound NULL, `x = ?`) is a "
         "named deviation (LamNoneBind) and reported as a known finding.",
    design_ref="3.13, 4 (C17)",
    note="trusted: TLC, SQLite, checks/stmt_common.py (each lambda lives at one source location, closure values arrive as function "
         "arguments); lambda analysis state (AnalyzedCode._fns, _closure_per_cache_key) is reset at the start of every walk = a fresh process",
    technique="TLA+ specs (StmtShapes.tla, StmtCache.tla) + TLC exhaustive over the cache graph; spec->code: shape table + replay of every edge")
LAM = ["lscalar", "llist", "lcol", "ltab", "lmulti", "lwhere", "lcrit", "lexpr", "lchain3", "lchain4"]
NONE_SENSITIVE = ("lscalar", "lcol", "ltab", "lmulti", "lcrit", "lchain3", "lchain4")     # compare a column with the closure scalar INSIDE the lambda


def name(c):
    return "lam|a|%s|none|none|none" % c


def main(chk):
    rng = random.Random(chk.seed)
    cap = 2
    # 1. the property as stated (ideal): lambda == plain statement from the current values, for every shape and valuation
    rt, table_i, vals, tc_i, tm = c02.table_phase(chk, ["lam"], 4, ["none"], lam_none_bind=False, tag="-ideal")
    for m in tm:
        sh = m["shape"].split("|")[2]
        a_none = vals[m["p"] - 1]["a"] == 0 and sh in NONE_SENSITIVE
        chk.violation({"spec": "StmtShapes", "action": "Invoke", "kind": "lambda-vs-plain", "lambda": sh, "p": m["p"], "closure_scalar_none": a_none,
                       "field": m["field"]},
                      "lambda statement %s with closure values V%d %s: %s" % (sh, m["p"], vals[m["p"] - 1], m["text"]), m)
    # 2. the mechanism: if the code shows the named deviation (None closure scalar bound as NULL), the graphs are checked against the
    #    specification WITH the deviation (it must then conform exactly); otherwise against the ideal
    dev = any(vals[m["p"] - 1]["a"] == 0 and m["shape"].split("|")[2] in NONE_SENSITIVE for m in tm)
    if dev:
        rd, table, vals, tc, tm2 = c02.table_phase(chk, ["lam"], 4, ["none"], lam_none_bind=True, tag="-dev")
        for m in tm2:
            chk.violation({"spec": "StmtShapes", "action": "Invoke", "kind": "cold", "lambda": m["shape"].split("|")[2], "p": m["p"],
                           "field": m["field"], "deviation_modelled": True},
                          "lambda statement %s V%d diverges from the specification (LamNoneBind deviation modelled): %s" % (
                              m["shape"], m["p"], m["text"]), m)
    else:
        rd, table, tc = rt, table_i, tc_i
    if chk.violations:
        # the cold executions already violate the property: the verdict is decided, the (long) graph replay adds nothing to it
        return chk.finish(dict(states=rt.distinct, transitions=rt.generated, traces_validated_against_impl=0, evaluations=tc_i.n,
                               shape_cases_executed_cold=tc_i.n, samples=[v[1] for v in chk.violations[:3]],
                               graph_phase="skipped: the shape table already shows violations"), assumptions=[])
    # 3. invocation sequences over a shared cache
    depth = 5 if chk.quick else 6
    groups = [[name(c) for c in g] for g in (["lscalar", "llist", "lcol", "ltab"], ["lmulti", "lwhere", "lcrit", "lexpr"],
                                                    ["lchain3", "lchain4", "lcol"])]
    n_extra = 1 if chk.quick else 5
    while len(groups) < 3 + n_extra:
        g = sorted(rng.sample(LAM, 3 if chk.quick else 4))
        if [name(c) for c in g] not in groups:
            groups.append([name(c) for c in g])
    plans = [(g, 3, ["none"], ["cached"], depth) for g in groups]
    if not chk.quick:
        plans += [(g[:3], 4, ["none"], ["cached"], depth) for g in groups[:2]]
    selftest = c02.faulty_selftest(chk, groups[0], 3, ["none"], cap, lam_none_bind=False)
    G, graphs, runs, walks, extra, plan, steps, mism = c02.graph_phase(chk, plans, cap, vals, table, rng, 200 if chk.quick else 2000, depth,
                                                                      lam_none_bind=dev)
    cov = c02.edge_stats(G)
    # closure values that change the structure: a miss although the cache holds an entry of the same lambda
    for fk, act, tk in G.edges:
        if act["a"] == "Exec" and act["hit"] == "miss" and any(e[0] == act["sh"] for e in G.states[fk]["c"]):
            cov["structure_changed"] = cov.get("structure_changed", 0) + 1
        if act["a"] == "Exec" and act["p"] == 3:
            cov["none_or_empty_closure"] = cov.get("none_or_empty_closure", 0) + 1
    for need in ("cached/hit", "cached/miss", "hit_other_values", "evicting", "structure_changed", "none_or_empty_closure"):
        if not cov.get(need):
            chk.machinery("vacuous: no edge of class %s" % need)
    for m in mism:
        a = m["act"] if isinstance(m["act"], dict) else {"a": m["act"]}
        chk.violation({"spec": "StmtCache", "action": a.get("a"), "kind": "conformance", "lambda": (a.get("sh") or "||").split("|")[2], "p": a.get("p"),
                       "hit": a.get("hit"), "field": m["mismatch"].split(":")[0], "deviation_modelled": dev},
                      "lambda invocation diverges from StmtCache.tla / the plain statement / the cache-less engine: " + m["mismatch"], m)
    w = max(walks, key=c02.interesting(G))
    sample = [dict(group=runs[G.states[G.edges[w[0]][0]]["g"]]["group"],
                   walk=["%s closure=%s -> %s" % (G.edges[ei][1]["sh"].split("|")[2], json.dumps(vals[G.edges[ei][1]["p"] - 1], sort_keys=True) if G.edges[ei][1]["p"] else "-",
                                                   G.edges[ei][1]["hit"]) for ei in w])]
    return chk.finish(
        dict(states=rt.distinct + (rd.distinct if dev else 0) + sum(x["distinct"] for x in runs),
             transitions=rt.generated + (rd.generated if dev else 0) + sum(x["generated"] for x in runs), named_deviation_LamNoneBind=dev,
             traces_validated_against_impl=len(walks) + len(extra), evaluations=steps + tc_i.n + (tc.n if dev else 0), lambda_shapes=len(table),
             shape_cases_executed_cold=tc_i.n + (tc.n if dev else 0), tlc_runs=runs, plan=plan,
             distinct_nontrivial=cov.get("hit_other_values", 0) + cov.get("structure_changed", 0), edge_classes=cov,
             faulty_spec_rejected_by=selftest, samples=sample, exhaustive=True,
             rule="every lambda shape x 4 closure valuations invoked cold; every labelled edge (cache state x invocation) of %d groups of 4 "
                  "lambda shapes replayed; non-trivial = hits on an entry populated with other closure values, and invocations whose closure "
                  "column/table differs from a cached form of the same lambda" % len(plans),
             checker_cmd="tlc StmtCache.tla (LamNoneBind = FALSE: property; TRUE: mechanism with the named deviation)"),
        assumptions=["SQLite only; lambdas live at one source location each, closure values are function arguments",
                     "closure values generated: scalars 1/2/3/None, lists [1] [1,2] [] [3,1], columns a.x/a.y, tables a / s1.a",
                     "lambda analysis caches are cleared at the start of every walk (equivalent to a fresh process)"])
