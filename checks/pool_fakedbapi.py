"""Scriptable fake DBAPI for the pool checks (C25 / C26), DESIGN 2.6.

* every connection gets an id 1, 2, 3 ... in the order the pool opened them;
* `ledger[id]` is "open" or "closed" (the open/closed ledger the property's `observe_at` names);
* every DBAPI call the pool makes (`connect`, `close`, `rollback`, `commit`, `ping`) is appended to `calls`
  and consults the FAULT PLAN first:
      plan.script  list consumed one entry per DBAPI call, in call order: falsy = succeed, truthy = fail with the driver's
                   Error, "base" = fail with Interrupted (a BaseException that is NOT an Exception: KeyboardInterrupt,
                   asyncio.CancelledError, a gevent Timeout) - (sequential checks: the TLC edge dictates the list; `overrun`
                   counts calls made after it ran dry)
      plan.nth     {(call_name, n): True}  fail the n-th call of that name (1-based; schedule checks: seeded)
  A failing `close` still closes the connection in the ledger (a DBAPI whose close() raises has dropped the socket;
  the pool swallows the error), a failing `connect` opens nothing.
No sqlalchemy import here; no wall clock; no randomness.
"""


class Error(Exception):
    """the fake driver's error class (what a DBAPI would raise)"""


class Interrupted(BaseException):
    """an interrupt delivered while the driver is inside a call: not an Exception, so `except Exception` does not see it"""


class Plan:
    def __init__(self):
        self.script = None
        self.pos = 0
        self.overrun = 0
        self.nth = {}
        self.count = {}

    def set_script(self, seq):
        self.script = list(seq)
        self.pos = 0
        self.overrun = 0

    def unused(self):
        return 0 if self.script is None else len(self.script) - self.pos

    def fault(self, name):
        n = self.count.get(name, 0) + 1
        self.count[name] = n
        if self.nth.get((name, n)):
            return True
        if self.script is not None:
            if self.pos < len(self.script):
                v = self.script[self.pos]
                self.pos += 1
                return "base" if v == "base" else bool(v)
            self.overrun += 1
        return False


class Connection:
    def __init__(self, dbapi, cid):
        self._dbapi = dbapi
        self.id = cid

    def _call(self, name):
        d = self._dbapi
        d.calls.append((name, self.id))
        if d.ledger.get(self.id) != "open" and name != "close":
            d.use_after_close.append((name, self.id))
        return d.plan.fault(name)

    def close(self):
        bad = self._call("close")
        self._dbapi.ledger[self.id] = "closed"
        if bad == "base":
            raise Interrupted("interrupted while closing %d" % self.id)
        if bad:
            raise Error("close failed on %d" % self.id)

    def rollback(self):
        bad = self._call("rollback")
        if bad == "base":
            raise Interrupted("interrupted during rollback on %d" % self.id)
        if bad:
            raise Error("rollback failed on %d" % self.id)

    def commit(self):
        bad = self._call("commit")
        if bad == "base":
            raise Interrupted("interrupted during commit on %d" % self.id)
        if bad:
            raise Error("commit failed on %d" % self.id)

    def ping(self):
        """-> True alive / False dead (called by the test dialect's _do_ping_w_event)"""
        return not self._call("ping")

    def cursor(self):
        raise Error("the pool checks never open cursors")

    def __repr__(self):
        return "<fakeconn %d>" % self.id


class DBAPI:
    """One instance per pool under test."""

    Error = Error

    def __init__(self):
        self.nconn = 0
        self.ledger = {}
        self.calls = []
        self.use_after_close = []
        self.plan = Plan()

    def connect(self, *a, **kw):
        self.calls.append(("connect", 0))
        if self.plan.fault("connect"):
            raise Error("connect failed")
        self.nconn += 1
        c = Connection(self, self.nconn)
        self.ledger[c.id] = "open"
        return c

    def open_ids(self):
        return sorted(i for i, v in self.ledger.items() if v == "open")

    def take_calls(self):
        c, self.calls = self.calls, []
        return c


class PingDialect:
    """What Pool needs from a dialect; sync flavour.  `is_async=True` gives the flavour AsyncAdaptedQueuePool pairs with."""

    has_terminate = False

    def __init__(self, is_async=False):
        self.is_async = is_async

    def do_rollback(self, c):
        c.rollback()

    def do_commit(self, c):
        c.commit()

    def do_close(self, c):
        c.close()

    def do_terminate(self, c):
        c.close()

    def _do_ping_w_event(self, c):
        return c.ping()

    def get_driver_connection(self, c):
        return c
