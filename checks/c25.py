"""C25 the pool never hands one connection to two holders and respects its limits - Pool.tla / TracePool.tla (DESIGN 3.5, App. A, A.2).

(a) TLC model-checks Pool.tla exhaustively (critical-section grain, 2 threads quick / 3 threads thorough, max_overflow 0 / 1 / unlimited,
    faults on) for Exclusive, QueueDisjoint, OpenBound, IdleBound, CountOK, OverflowCounts, NoStale, NoLeak, OpenOwned, WaitListOK,
    TimeoutAfterDeadline, and Served (liveness under fairness, tiny configuration).
(b) code -> spec: the REAL unmodified QueuePool is driven by 2-3 real threads under the baton scheduler, pre-empted at every source
    line of pool/impl.py, pool/base.py, util/queue.py (seeded random and bounded-pre-emption schedules, virtual clock, fake DBAPI with
    fault plan); one event per scheduler step; every trace must be accepted by TracePool.tla (one TLC run per shard, -workers 1,
    POSTCONDITION names the rejected trace and event).  Harness-side Exclusive / ledger / bound assertions on every snapshot.
"""
import concurrent.futures as cf
import json
import multiprocessing as mp
import os
import random
import re
import time

from engine import tlc

LEVEL = "model_checking"
MANIFEST = dict(
    text="Pool.tla models QueuePool at critical-section grain (unlocked reads of _overflow, Queue.get/put under the mutex with the "
         "not_empty wait list, _inc/_dec_overflow, connect / reset / close outcomes, invalidation, finalizer check-in, virtual-clock "
         "timeouts); TLC checks exhaustively (2 threads x max_overflow 0/1/unlimited quick, 3 threads thorough) that no connection has two "
         "holders, open <= pool_size+max_overflow, idle <= pool_size, checkedout() = live checkouts, nothing leaks, TimeoutError only at "
         "the deadline, waiters are eventually served.  The real unmodified QueuePool is then run by 2-3 real threads under a deterministic "
         "baton scheduler pre-empting at every source line (>=200 schedules quick, >=3000 thorough: random, bounded pre-emption, FIFO/LIFO, "
         "timeouts, injected faults) and every recorded step must be an action of the specification (TracePool.tla).",
    design_ref="3.5, 4 (C25/C26), 2.5, 2.6, Appendix A, A.2",
    note="trusted: TLC, the baton scheduler / shim Lock-RLock-Condition / fake DBAPI; pre-emption grain = source line under the GIL "
         "(opcode-level lost updates of a free-threaded build are out of scope); virtual time moves only between operations; "
         "AsyncAdaptedQueuePool / NullPool / StaticPool / SingletonThreadPool are bound sequentially by C26, not under thread schedules",
    technique="TLA+ spec (Pool.tla) + TLC exhaustive model checking incl. liveness; code->spec trace validation of line-level thread "
              "schedules of the real QueuePool against TracePool.tla")

INVS = ["ConnBoundFree", "Exclusive", "QueueDisjoint", "OpenBound", "IdleBound", "CountOK", "OverflowCounts", "NoStale", "NoLeak", "OpenOwned", "WaitListOK"]
TRACE_INVS = ["Progress", "Exclusive", "QueueDisjoint", "OpenBound", "IdleBound", "OverflowCounts", "NoStale", "OpenOwned", "WaitListOK"]
ALL_FAULTS = ("connect", "reset", "inv", "soft", "poolinv", "drop")
FOOTPRINT = ["StartGet", "Read1", "QGet", "Wake", "Read2", "Inc", "Create", "CreateFail", "DecFail", "GetConn", "Reconnect", "ReconnectFail",
             "Fairy", "StartClose", "StartDrop", "Reset", "ResetFail", "StartInvalidate", "Inval", "SoftInvalidate", "StartPoolInv",
             "PoolInvStamp", "Put", "Notify", "FullClose", "FullDec", "Tick"]


def mc_cfg(nthr, sizes, maxos, lifos, ops, faults, maxclock=3, timeouts=(2,), recycles=(9,), sym=True, props=("TimeoutAfterDeadline",),
           spec=None, invs=INVS):
    thr = {"t%d" % i for i in range(1, nthr + 1)}
    return tlc.cfg(constants=dict(Threads=thr, Sizes=set(sizes), Maxos=set(maxos), Lifos=set(lifos), Timeouts=set(timeouts),
                                  Recycles=set(recycles), Ops=ops, MaxConn=2 * nthr * ops, MaxClock=maxclock,
                                  Faults={tlc.q(x) for x in faults}),
                   spec=spec, invariants=invs, properties=list(props), view=None if spec else "View", symmetry="Perms" if sym else None)


# ----------------------------------------------------------------------------- schedule jobs (run in forked worker processes)
def make_policy(spec):
    from checks import pool_common as pc
    if spec[0] == "random":
        return pc.policy_random(random.Random(spec[1]), spec[2], spec[3])
    if spec[0] == "preempt":
        return pc.policy_preempt({int(k): v for k, v in spec[1].items()}, spec[2])
    raise ValueError(spec)


def run_job(job):
    """job: dict(tid, cfg, programs, policy) -> dict(trace | error)"""
    from checks import pool_common as pc, pool_sched as ps
    files = ps.install(ps.VClock())
    try:
        tr, probs, st = pc.run_one(job["cfg"], job["programs"], make_policy(job["policy"]), files, job["tid"])
    except ps.Deadlock as e:
        return {"tid": job["tid"], "deadlock": str(e)}
    except ps.SchedError as e:
        return {"tid": job["tid"], "machinery": str(e)}
    return {"tid": job["tid"], "trace": tr, "problems": probs, "stats": st, "nconn": max([0] + [max(e["o"]["open"] + [e["id"]]) for e in tr["ev"]])}


def _run_jobs(chunk):
    return [run_job(j) for j in chunk]


def gen_jobs(rng, n, quick):
    """the schedule population: (label, share, config generator)"""
    from checks import pool_common as pc
    jobs = []
    F = ["inv", "drop", "soft", "poolinv"]

    def add(label, threads, size, maxo, lifo, timeout, ops, fault_ops, sleep, policy, nth_p=0.3):
        cfg = dict(size=size, maxo=maxo, lifo=lifo, timeout=timeout, nth=[], label=label)
        if rng.random() < nth_p:
            cfg["nth"].append(["connect", rng.randint(1, 4)])
        if rng.random() < nth_p:
            cfg["nth"].append(["rollback", rng.randint(1, 4)])
        if rng.random() < nth_p / 2:
            cfg["nth"].append(["close", rng.randint(1, 3)])
        progs = pc.gen_programs(rng, threads, ops, fault_ops, sleep)
        jobs.append(dict(tid=len(jobs) + 1, cfg=cfg, programs=progs, policy=policy))

    def rnd():
        return ["random", rng.randrange(1 << 30), rng.choice([0.03, 0.1, 0.3, 0.6, 1.0]), rng.choice([0.0, 0.05, 0.2])]
    T2, T3 = ["t1", "t2"], ["t1", "t2", "t3"]
    share = [("A 2thr size1 maxo0 wait/notify/timeout", 0.22), ("B 2thr size1 maxo1", 0.10), ("C 2thr size1 unlimited", 0.08),
             ("D 3thr size1 maxo1", 0.18), ("E 3thr size2 maxo0 LIFO", 0.10), ("F 3thr size2 maxo1 FIFO", 0.07),
             ("G timeout0", 0.07), ("H bounded pre-emption", 0.18)]
    for label, sh in share:
        k = max(3, int(round(n * sh)))
        for i in range(k):
            c = label[0]
            if c == "A":
                add(label, T2, 1, 0, False, rng.choice([2, 3, 5]), 2, F, 4, rnd())
            elif c == "B":
                add(label, T2, 1, 1, False, rng.choice([2, 3]), 2, F, 3, rnd())
            elif c == "C":
                add(label, T2, 1, -1, False, 2, 2, F, 0, rnd())
            elif c == "D":
                add(label, T3, 1, 1, False, rng.choice([2, 4]), 2, F, 4, rnd())
            elif c == "E":
                add(label, T3, 2, 0, True, rng.choice([2, 4]), 2, ["inv", "drop"], 3, rnd())
            elif c == "F":
                add(label, T3, 2, 1, False, 3, 2, F, 3, rnd())
            elif c == "G":
                add(label, rng.choice([T2, T3]), 1, rng.choice([0, 1]), False, 0, 2, F, 0, rnd())
            elif c == "H":
                # systematic: one or two forced pre-emptions at line-level step numbers spread over the whole run
                thr = T2 if i % 3 else T3
                npts = 1 if i % 2 == 0 else 2
                pts = {str(rng.randint(2, 520 if len(thr) == 2 else 800)): rng.randint(0, 1) for _ in range(npts)}
                add(label, thr, 1, 0 if i % 4 else 1, False, 3, 2, ["inv", "drop"] if i % 5 == 0 else [], 0, ["preempt", pts, thr], nth_p=0.0)
    return jobs


def flatten(traces):
    out = []
    for t in traces:
        c = t["cfg"]
        out.append({"tr": t["id"], "n": 0, "t": "-", "k": "new", "op": "-", "res": "-", "id": 0, "clock": 0,
                    "o": {"ov": 0, "q": [], "w": [], "open": []},
                    "size": c["size"], "maxo": c["maxo"], "lifo": c["lifo"], "timeout": c["timeout"], "recycle": c["recycle"]})
        for i, e in enumerate(t["ev"]):
            e = {k: v for k, v in e.items() if k != "at"}
            e["tr"] = t["id"]
            e["n"] = i + 1
            out.append(e)
    return out


_RE_REJ = re.compile(r'"REJECTED trace",\s*(\d+),\s*"at event",\s*(\d+)')


def validate_shard(args):
    """-> dict(ok, rejected=(trace id, event no) | None, violated, distinct, generated, error)"""
    sid, traces, workdir, maxconn = args
    path = os.path.join(workdir, "traces_%d.json" % sid)
    os.makedirs(workdir, exist_ok=True)
    with open(path, "w") as f:
        json.dump(flatten(traces), f, separators=(",", ":"))
    cfgt = tlc.cfg(constants=dict(Threads={tlc.q("t1"), tlc.q("t2"), tlc.q("t3")}, Sizes={1}, Maxos={0}, Lifos={False}, Timeouts={0},
                                  Recycles={9}, Ops=9, MaxConn=maxconn, MaxClock=1000000, Faults={tlc.q(x) for x in ALL_FAULTS}),
                   init="TInit", next_="TNext", invariants=TRACE_INVS, view="TView", postcondition="AllAccepted")
    try:
        r = tlc.run("TracePool", cfgt, os.path.join(workdir, "tlc_%d" % sid), workers=1, timeout=1700, env={"TRACE_FILE": path},
                    keep_stdout=False, heap="3g", java_opts=("-XX:ParallelGCThreads=2",))
    except tlc.TLCError as e:
        m = _RE_REJ.search(str(e))
        if m:
            return {"ok": False, "rejected": (int(m.group(1)), int(m.group(2))), "violated": None, "distinct": 0, "generated": 0}
        return {"ok": False, "error": str(e)[-1500:]}
    if r.violated:
        m = _RE_REJ.search(r.stdout)
        return {"ok": False, "rejected": (int(m.group(1)), int(m.group(2))) if m else None, "violated": r.violated,
                "distinct": r.distinct, "generated": r.generated}
    return {"ok": True, "rejected": None, "violated": None, "distinct": r.distinct, "generated": r.generated}


def validate_all(chk, traces, tag, nshards):
    """all traces through TracePool; a rejected trace is reported and the rest of its shard re-run without it.
    -> (accepted ids, [(trace, event no, violated)], states, transitions)"""
    by_id = {t["id"]: t for t in traces}
    maxconn = 2 + max([0] + [t.get("nconn", 0) for t in traces])
    shards = [traces[i::nshards] for i in range(nshards)]
    shards = [s for s in shards if s]
    rejected, states, trans = [], 0, 0
    rnd = 0
    while shards and rnd < 4:
        rnd += 1
        args = [(rnd * 100 + i, s, os.path.join(chk.work, "tv_" + tag), maxconn) for i, s in enumerate(shards)]
        with cf.ThreadPoolExecutor(max_workers=max(1, min(len(args), tlc.NPROC))) as ex:
            res = list(ex.map(validate_shard, args))
        nxt = []
        for s, r in zip(shards, res):
            if "error" in r:
                chk.machinery("TracePool run failed: " + r["error"])
            states += r["distinct"]
            trans += r["generated"]
            if r["ok"]:
                continue
            if r["rejected"] is None:
                chk.machinery("TracePool: %s violated but no trace position reported" % r["violated"])
            tid, n = r["rejected"]
            rejected.append((by_id[tid], n, r["violated"]))
            rest = [t for t in s if t["id"] != tid]
            if rest:
                nxt.append(rest)
        shards = nxt
    bad = {t["id"] for t, _, _ in rejected}
    return [t["id"] for t in traces if t["id"] not in bad], rejected, states, trans


def main(chk):
    rng = random.Random(chk.seed)
    quick = chk.quick
    W = tlc.NPROC
    cov = {}
    phase = {}
    t0 = time.time()
    # ------------------------------------------------------------------ (a) exhaustive model checking of Pool.tla
    if quick:
        runs = [("2thr size1 maxo{0,1,inf} faults connect/reset/inv/drop", mc_cfg(2, {1}, {0, 1, 9}, {False}, 2, ("connect", "reset", "inv", "drop"))),
                ("2thr size1 maxo{0,1} pool invalidation", mc_cfg(2, {1}, {0, 1}, {False}, 2, ("poolinv",), maxclock=1)),
                ("2thr size1 maxo1 soft invalidation", mc_cfg(2, {1}, {1}, {False}, 2, ("soft",), maxclock=1)),
                ("3thr size1 maxo{0,1} 1 op faults connect/inv/drop", mc_cfg(3, {1}, {0, 1}, {False}, 1, ("connect", "inv", "drop"), maxclock=2))]
    else:
        runs = [("2thr size1 maxo{0,1,inf} all faults", mc_cfg(2, {1}, {0, 1, 9}, {False}, 2, ALL_FAULTS)),
                ("2thr size2 maxo{0,1} FIFO+LIFO faults connect/inv/drop", mc_cfg(2, {2}, {0, 1}, {False, True}, 2, ("connect", "inv", "drop"))),
                ("3thr size1 maxo0 2 ops no faults", mc_cfg(3, {1}, {0}, {False}, 2, ())),
                ("3thr size1 maxo1 2 ops no faults", mc_cfg(3, {1}, {1}, {False}, 2, ())),
                ("3thr size2 maxo0 LIFO 2 ops no faults", mc_cfg(3, {2}, {0}, {True}, 2, ())),
                ("3thr size1 maxo{0,1} 1 op all faults", mc_cfg(3, {1}, {0, 1}, {False}, 1, ALL_FAULTS, maxclock=2)),
                ("2thr size1 maxo1 recycle-by-age", mc_cfg(2, {1}, {1}, {False}, 2, ("inv",), maxclock=3, recycles=(1,)))]
    states = trans = 0
    mc_detail = []
    # liveness under fairness, clock frozen: a waiter is eventually served by a returned connection
    live_cfg = mc_cfg(2, {1}, {0}, {False}, 2, (), maxclock=0, sym=False, props=("Served",), spec="FairSpec", invs=[])
    par = max(1, min(len(runs) + 1, W // 2)) if quick else max(1, min(3, W // 4))
    wk = max(1, W // par)

    def one(item):
        i, label, c = item
        if label == "live":
            return tlc.run("Pool", c, os.path.join(chk.work, "live"), workers=wk, timeout=900, keep_stdout=False, heap="4g")
        return tlc.run("Pool", c, os.path.join(chk.work, "mc%d" % i), workers=wk, timeout=1700, keep_stdout=False,
                       coverage=quick or i in (0, 5), heap="4g" if quick else "8g")
    items = [(i, label, c) for i, (label, c) in enumerate(runs)] + [(99, "live", live_cfg)]
    with cf.ThreadPoolExecutor(max_workers=par) as ex:
        outs = list(ex.map(one, items))
    rl = outs.pop()
    for (label, c), r in zip(runs, outs):
        if r.violated == "ConnBoundFree":
            chk.machinery("model bound MaxConn binds in %s" % label)
        if r.violated:
            chk.violation({"spec": "Pool", "action": "TLC", "invariant": r.violated, "config": label},
                          "TLC: %s violated in Pool.tla (%s)" % (r.violated, label))
        states += r.distinct
        trans += r.generated
        mc_detail.append({"config": label, "distinct": r.distinct, "generated": r.generated, "depth": r.depth, "wall_s": round(r.wall, 1)})
        for a, (d, t) in r.coverage.items():
            cov[a] = cov.get(a, 0) + t
    for a in FOOTPRINT:
        if not cov.get(a):
            chk.machinery("vacuous: action %s of Pool.tla never taken" % a)
    if rl.violated:
        chk.violation({"spec": "Pool", "action": "TLC", "invariant": "Served"}, "TLC: liveness Served violated under FairSpec")
    mc_detail.append({"config": "liveness Served, FairSpec, 2thr size1 maxo0 clock frozen", "distinct": rl.distinct, "generated": rl.generated})
    phase["model_check_s"] = round(time.time() - t0, 1)
    t0 = time.time()
    # ------------------------------------------------------------------ (b) code -> spec
    n = 220 if quick else 3200
    jobs = gen_jobs(rng, n, quick)
    nproc = max(1, min(W, len(jobs) // 8))
    chunks = [jobs[i::nproc] for i in range(nproc)]
    ctx = mp.get_context("fork")
    with ctx.Pool(nproc) as pool:
        results = [x for ch in pool.map(_run_jobs, chunks) for x in ch]
    results.sort(key=lambda x: x["tid"])
    jobs_by = {j["tid"]: j for j in jobs}
    traces, tot = [], {}
    per_label = {}
    for res in results:
        j = jobs_by[res["tid"]]
        if "machinery" in res:
            chk.machinery("scheduler: %s (job %r)" % (res["machinery"], j))
        if "deadlock" in res:
            chk.violation({"spec": "TracePool", "action": "deadlock", "kind": "deadlock", "config": j["cfg"]["label"]},
                          "real QueuePool deadlocks under a schedule: " + res["deadlock"], j)
            continue
        for sig, text in res["problems"]:
            sig = dict(sig, spec="TracePool", config=j["cfg"]["label"])
            chk.violation(sig, "harness assertion on the real pool: " + text, j)
        tr = res["trace"]
        tr["nconn"] = res["nconn"]
        traces.append(tr)
        for k, v in res["stats"].items():
            tot[k] = tot.get(k, 0) + v
        per_label[j["cfg"]["label"]] = per_label.get(j["cfg"]["label"], 0) + 1
    phase["schedules_s"] = round(time.time() - t0, 1)
    t0 = time.time()
    nshards = max(1, min(W, len(traces) // 25))
    # binding self-test, run alongside: a corrupted copy of a recorded trace (wrong connection id handed out / shifted
    # overflow counter) must be rejected by TracePool
    import copy
    corrupt = []
    cand = [t for t in traces if any(e["k"] == "ret" and e["id"] for e in t["ev"])]
    if cand:
        t1 = copy.deepcopy(cand[len(cand) // 2])
        for e in t1["ev"]:
            if e["k"] == "ret" and e["id"]:
                e["id"] += 1
                break
        t2 = copy.deepcopy(cand[len(cand) // 3])
        base = t2["ev"][0]["o"]["ov"]
        for e in t2["ev"]:
            if e["o"]["ov"] != base:
                e["o"]["ov"] += 1
        for k, t in enumerate((t1, t2)):
            t["id"] = 900000 + k
            corrupt.append(t)
    with cf.ThreadPoolExecutor(max_workers=3) as ex:
        fmain = ex.submit(validate_all, chk, traces, "main", nshards)
        fself = [ex.submit(validate_all, chk, [t], "self%d" % k, 1) for k, t in enumerate(corrupt)]
        accepted, rejected, tstates, ttrans = fmain.result()
        selfres = [f.result() for f in fself]
    phase["trace_validation_s"] = round(time.time() - t0, 1)
    for tr, nev, violated in rejected:
        j = jobs_by[tr["id"]]
        ev = tr["ev"][nev - 1] if 0 < nev <= len(tr["ev"]) else None
        what = ("real QueuePool step not explained by Pool.tla: trace %d (%s) event %d %s" % (tr["id"], j["cfg"]["label"], nev, json.dumps(ev))
                if not violated else "invariant %s violated on a state reached by the real QueuePool: trace %d (%s) event %d" % (
                    violated, tr["id"], j["cfg"]["label"], nev))
        chk.violation({"spec": "TracePool", "action": (ev or {}).get("k", "?"), "op": (ev or {}).get("op", "?"), "kind": "trace-rejected",
                       "invariant": violated, "config": j["cfg"]["label"]}, what,
                      {"job": j, "event_no": nev, "event": ev, "context": tr["ev"][max(0, nev - 8):nev]})
    selftest = 0
    for k, (_, rej, _, _) in enumerate(selfres):
        # a mutant that breaks every trace would also "reject" these; they only count when the main batch is clean
        if not rej and not rejected:
            chk.machinery("binding self-test: corrupted trace %d was accepted by TracePool" % k)
        selftest += 1 if rej else 0
    # vacuity of the schedule population
    if not chk.violations and (not tot.get("waits") or not tot.get("timeouts") or not tot.get("conn_errors")):
        chk.machinery("vacuous schedules: waits=%s timeouts=%s connect errors=%s" % (tot.get("waits"), tot.get("timeouts"), tot.get("conn_errors")))
    contended = sum(1 for t in traces if any(e["o"]["w"] or e["res"] == "TimeoutError" for e in t["ev"]))
    sample = []
    if traces:
        t = traces[len(traces) // 2]
        sample = [{"trace": t["id"], "cfg": t["cfg"], "events": len(t["ev"]),
                   "excerpt": ["%s %s %s %s ov=%d q=%r w=%r open=%r" % (e["t"], e["k"], e["op"], e["res"] if e["k"] == "ret" else "", e["o"]["ov"],
                                                                       e["o"]["q"], e["o"]["w"], e["o"]["open"])
                               for e in t["ev"]][:14]}]
    return chk.finish(
        dict(phase_wall=phase, states=states + rl.distinct, transitions=trans + rl.generated, model_check_runs=mc_detail, action_coverage=cov,
             traces_validated_against_impl=len(accepted), traces_rejected=len(rejected), trace_events=tot.get("events", 0),
             scheduler_steps=tot.get("steps", 0), line_preemption_points=tot.get("line_yields", 0),
             trace_states=tstates, trace_transitions=ttrans, schedules_by_family=per_label,
             waits_observed=tot.get("waits", 0), timeouts_observed=tot.get("timeouts", 0), connect_errors_injected=tot.get("conn_errors", 0),
             distinct_nontrivial=contended, evaluations=tot.get("steps", 0), binding_selftests_rejected=selftest, samples=sample,
             exhaustive=True,
             rule="schedules = seeded random (switch probability 0.03..1 per line) and bounded pre-emption (1-2 forced switches) runs of 2-3 real "
                  "threads doing 2 checkout/hold/(close|invalidate|soft-invalidate|pool-invalidate|drop) cycles on the real QueuePool; "
                  "non-trivial = a thread blocked in the queue wait list or a TimeoutError occurred",
             checker_cmd="tlc Pool.tla (SYMMETRY Perms, VIEW View); tlc TracePool.tla -workers 1 (POSTCONDITION AllAccepted)"),
        assumptions=["pre-emption grain is the source line (CPython with the GIL); `self._overflow += 1` is one step",
                     "virtual time advances only while no thread is inside a pool operation; a timed-out waiter leaves the wait list at the tick",
                     "time.time() values that get stored are strictly increasing (the code's documented assumption)",
                     "QueuePool only; the other pool classes are bound by C26 (sequential)",
                     "bounded: <=3 threads, 2 cycles per thread, pool_size <=2"])


def replay(chk, path):
    """re-run the schedule(s) stored in a replay file and validate them again"""
    with open(path) as f:
        data = json.load(f)
    n = 0
    for case in data.get("cases", []):
        rp = case.get("replay") if isinstance(case.get("replay"), dict) else {}
        j = rp.get("job") or (rp if "programs" in rp else None)
        if not j:
            continue
        res = run_job(j)
        if "trace" not in res:
            print("replay:", res)
            chk.violation(case["sig"], "replayed schedule: %r" % (res,), case["replay"])
            continue
        tr = res["trace"]
        tr["nconn"] = res["nconn"]
        _, rej, _, _ = validate_all(chk, [tr], "replay%d" % n, 1)
        n += 1
        for t, nev, violated in rej:
            print("replay: trace rejected at event", nev, json.dumps(t["ev"][nev - 1]))
            chk.violation(case["sig"], "replayed schedule rejected again at event %d" % nev, case["replay"])
        for sig, text in res["problems"]:
            chk.violation(dict(sig, spec="TracePool"), text, case["replay"])
    return chk.finish(dict(replayed=n), assumptions=[])
