"""Shared TLC-config / tour / verdict logic of the OrmSession checks (C32, C33, C34, C35)."""
import os
import re

from engine import graph, tlc

SPEC = "OrmSession"
ALL_ACTS = ["SetV", "SetPk", "Sp", "Expunge", "Expire", "Refresh", "Get", "Close", "MakeTransient", "Fail", "Misuse"]
DEV_ALL = ["a", "b", "c", "d", "e", "f1", "f2", "f3", "g", "h", "eoc", "ksw", "kswx", "kswmerge"]


def q(s):
    return '"%s"' % s


def consts(objs, maxsp, depth, eoc, acts, dev, vals=(0, 1), keys=(1, 2)):
    return {
        "Objs": "{" + ", ".join(q("o%d" % i) for i in range(1, objs + 1)) + "}",
        "Keys": "{" + ", ".join(str(k) for k in keys) + "}",
        "Vals": "{" + ", ".join(str(k) for k in vals) + "}",
        "MaxSp": maxsp, "MaxDepth": depth, "Eoc": bool(eoc),
        "Acts": "{" + ", ".join(q(a) for a in acts) + "}",
        "Dev": "{" + ", ".join(q(a) for a in sorted(dev)) + "}",
    }


def trace_actions(stdout):
    """action labels of a TLC counterexample (from the `last` variable of each printed state)"""
    out = []
    for blk in re.findall(r'last = \[(.*?)\]\n', stdout, flags=re.S):
        a = re.search(r'a \|-> "(\w+)"', blk)
        g = re.search(r'arg \|-> <<([^>]*)>>', blk)
        r = re.search(r'ret \|-> "([^"]*)"', blk)
        if a:
            out.append("%s(%s)->%s" % (a.group(1), g.group(1).replace('"', "") if g else "", r.group(1) if r else "?"))
    return out[1:]
