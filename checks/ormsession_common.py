"""Shared TLC-config / tour / verdict logic of the OrmSession checks (C32, C33, C34, C35)."""
import os
import re

from engine import graph, tlc

SPEC = "OrmSession"
ALL_ACTS = ["SetV", "SetPk", "Sp", "Expunge", "Expire", "Refresh", "Get", "Close", "MakeTransient", "Fail", "Redo", "Misuse"]
DEV_ALL = ["a", "b", "c", "d", "e", "f2", "g", "h", "gsw", "rsw2", "eoc", "ksw", "kswx", "kswmerge"]


def q(s):
    return '"%s"' % s


def consts(objs, maxsp, depth, eoc, acts, dev, vals=(0, 1), keys=(1, 2), start="empty"):
    return {
        "Objs": "{" + ", ".join(q("o%d" % i) for i in range(1, objs + 1)) + "}",
        "Keys": "{" + ", ".join(str(k) for k in keys) + "}",
        "Vals": "{" + ", ".join(str(k) for k in vals) + "}",
        "MaxSp": maxsp, "MaxDepth": depth, "Eoc": bool(eoc), "Start": q(start),
        "Acts": "{" + ", ".join(q(a) for a in acts) + "}",
        "Dev": "{" + ", ".join(q(a) for a in sorted(dev)) + "}",
    }


def trace_actions(stdout):
    """action labels of a TLC counterexample (from the `last` variable of each printed state)"""
    out = []
    for blk in re.findall(r'last = \[(.*?)\]\n', stdout, flags=re.S):
        a = re.search(r'a \|-> "(\w+)"', blk)
        g = re.search(r'arg \|-> <<([^>]*)>>', blk)
        r = re.search(r'ret \|-> "([^"]*)"', blk)
        if a:
            out.append("%s(%s)->%s" % (a.group(1), g.group(1).replace('"', "") if g else "", r.group(1) if r else "?"))
    return out[1:]


# ---------------------------------------------------------------------------------------------- deviation probes
def probe_deviations(workdir):
    """Which of the named deviations (OrmSession.tla constant Dev) does the Session of the tree under test show?
    Each probe is the shortest history that distinguishes the deviating behaviour from the documented one; the spec is
    then run with exactly this set, so the conformance replay stays strict in both directions."""
    from checks.ormsession_driver import Real
    r = Real(os.path.join(workdir, "probe"), "probe")
    dev = set()

    def run(script, eoc=True, pks=None):
        # a probe that cannot even be observed (a broken tree) decides nothing: the replay reports the breakage
        try:
            r.reset(pks or {"o1": 1, "o2": 2}, expire_on_commit=eoc)
            rets = []
            for a, arg in script:
                rets.append(r.do(a, arg))
            return rets, r.observe()
        except Exception:      # noqa
            try:
                r.session = None
            except Exception:      # noqa
                pass
            return ["?"] * len(script), {"o": {"o1": {"life": "?", "key": -1}, "o2": {"life": "?", "key": -1}}, "ev": {}, "imap": {}}

    def evs(o):
        return {k[0]: v for k, v in o["ev"].items()}

    try:
        _, o = run([("Add", "o1"), ("Flush", None), ("Delete", "o1"), ("Flush", None), ("Rollback", None), ("Add", "o1"), ("Flush", None)])
        if o["o"]["o1"]["life"] == "deleted":
            dev.add("a")
        _, o = run([("Add", "o1"), ("Commit", None), ("Delete", "o1"), ("Flush", None), ("Close", None)])
        if o["o"]["o1"]["life"] == "deleted":
            dev.add("b")
        rets, o = run([("Add", "o1"), ("Flush", None), ("Delete", "o1"), ("Flush", None), ("Delete", "o1")])
        if rets[-1] == "ok" and o["imap"].get(1) == "o1":
            dev.add("c")
        _, o = run([("Add", "o1"), ("Commit", None), ("Delete", "o1"), ("Rollback", None)])
        if evs(o).get("deleted_to_persistent"):
            dev.add("d")
        _, o = run([("Add", "o1"), ("Commit", None), ("Delete", "o1"), ("Get", 1)])
        if evs(o).get("persistent_to_deleted", 0) > 1:
            dev.add("e")
        _, o = run([("Add", "o1"), ("Flush", None), ("Expunge", "o1"), ("Rollback", None)])
        if evs(o).get("persistent_to_transient"):
            dev.add("f2")
        _, o = run([("Add", "o1"), ("Commit", None), ("Delete", "o1"), ("BeginNested", None), ("Expunge", "o1"), ("Commit", None)])
        if evs(o).get("deleted_to_detached"):
            dev.add("g")
        _, o = run([("Add", "o1"), ("Flush", None), ("MakeTransient", "o1"), ("Rollback", None)])
        if evs(o).get("pending_to_transient"):
            dev.add("h")
        rets, o = run([("Add", "o1"), ("SetPk", ("o1", 2)), ("Commit", None), ("Delete", "o1"), ("Add", "o2"), ("Get", 2)])
        if rets[-1] == "obj:o1":
            dev.add("gsw")
        rets, o = run([("Add", "o1"), ("Flush", None), ("Delete", "o1"), ("Add", "o3"), ("SetPk", ("o2", 1)), ("Add", "o2"), ("Flush", None)],
                      pks={"o1": 1, "o2": 2, "o3": 1})
        if rets[-1] == "ok" and o["o"]["o2"]["life"] == "persistent" and o["o"]["o3"]["life"] == "persistent":
            dev.add("rsw2")
        _, o = run([("Add", "o1"), ("Commit", None), ("Delete", "o1"), ("Commit", None)], eoc=False)
        if o["o"]["o1"]["life"] == "deleted":
            dev.add("eoc")
        _, o = run([("Add", "o1"), ("Flush", None), ("SetPk", ("o1", 2)), ("Flush", None), ("Rollback", None)])
        if o["o"]["o1"]["life"] == "detached":
            dev.add("ksw")
        _, o = run([("Add", "o1"), ("BeginNested", None), ("SetPk", ("o1", 2)), ("Flush", None), ("Expunge", "o1"), ("SpRollback", None)])
        if o["imap"].get(1) == "o1":
            dev.add("kswx")
        _, o = run([("Add", "o1"), ("Commit", None), ("SetPk", ("o1", 2)), ("Flush", None), ("BeginNested", None), ("SetPk", ("o1", 1)),
                    ("Flush", None), ("SpCommit", None), ("Rollback", None)])
        if o["o"]["o1"]["key"] == 2:
            dev.add("kswmerge")
    finally:
        r.close()
    return dev


# ---------------------------------------------------------------------------------------------- pipeline
import json
import random
import time
from concurrent.futures import ThreadPoolExecutor

# deviation -> what it is (shown in violation text; the precise description lives in known_findings.d and notes/OrmSession.md)
DEV_WHAT = {
    "a": "stale _deleted flag: add; flush; delete; flush; rollback leaves the transient object with _deleted=True, re-add + flush reports it deleted while it is in the identity map with a live row",
    "b": "Session.close() with an object whose DELETE was flushed leaves it in the deleted state bound to the closed session (no deleted_to_detached)",
    "c": "Session.delete() of an object that already was deleted (deleted state, or detached with was_deleted) puts a deleted object back into the identity map",
    "d": "deleted_to_persistent fires on rollback / failed flush for an object that was only marked with delete() (never flushed)",
    "e": "persistent_to_deleted fires twice when get() refreshes an expired identity-map entry that the autoflush just deleted",
    "f2": "rollback of add; flush; expunge announces persistent_to_transient (deleted_to_detached) for an object that already is detached",
    "g": "expunge() of a deleted object inside a savepoint leaves it in the outer transaction's snapshot: commit fires deleted_to_detached again for the detached object (make_transient + rollback raises)",
    "h": "rollback fires pending_to_transient for an object make_transient() already sent to transient",
    "gsw": "Session.get() on an expired entry whose row is switched to another object by the autoflush returns the old object (deleted state, refreshed from the other object's row) instead of the identity map's object",
    "rsw2": "two pending objects that carry the primary key of an object deleted in the same flush are BOTH turned into an UPDATE of that row (row switch): both end persistent under one identity key, the identity map keeps one of them (hash order) and only warns 'Identity map already had an identity ... replacing it'",
    "eoc": "expire_on_commit=False: delete(o); commit() leaves o in the deleted state bound to the session; deleted_to_detached never fires",
    "ksw": "rollback of a transaction that inserted an object and switched its primary key restores the old key on the now transient object: it ends detached with the identity of a row that does not exist",
    "kswx": "rollback of a primary key switch re-inserts an object into the identity map that was expunged since: a detached object in the identity map, get() raises DetachedInstanceError",
    "kswmerge": "committing a savepoint overwrites the outer transaction's record of an object's original key: after pk 1->2 (outer), 2->1 (savepoint, released), rollback restores key 2 while the row is back at 1",
}


def mk_cfg(cs, invs=(), props=(), emit=False):
    return tlc.cfg(constants=cs, init="InitEmit" if emit else "Init", invariants=list(invs), properties=list(props), view="View",
                   action_constraints=["Emit"] if emit else [], constraints=["Depth"])


def fmt_walk(acts):
    return " ".join("%s(%s)->%s" % (a["a"], ",".join(str(x) for x in a["arg"]), a["ret"] if isinstance(a["ret"], str) else "/".join(a["ret"]))
                    for a in acts)


def simulate_graph(cs, workdir, num, depth, seed):
    """deep random behaviours: TLC -simulate prints the edges of each behaviour in order (workers 1); returns (graph, walks)"""
    cs = dict(cs, MaxDepth=depth)
    cfgt = mk_cfg(cs, emit=True)
    r = tlc.run(SPEC, cfgt, workdir, workers=1, timeout=900, simulate="num=%d" % num,
                extra=["-depth", str(depth), "-seed", str(seed)], keep_stdout=False, heap="4g")
    # in simulation mode TLC evaluates the action constraint for every candidate successor of the current state: the output
    # is a sequence of batches (same `from`); the behaviour took the candidate whose `to` is the next batch's `from`
    g = graph.Graph()
    batches = []
    for o in r.json:
        if "init" in o:
            k = graph.key(o["init"])
            g.states.setdefault(k, o["init"])
            g.out.setdefault(k, [])
            if k not in g.inits:
                g.inits.append(k)
        elif "from" in o:
            fk = graph.key(o["from"])
            g.add_edge(o["from"], dict(o["act"], obs=o["obs"]), o["to"])
            ei = len(g.edges) - 1
            lab = (o["act"]["a"], json.dumps(o["act"]["arg"]))
            if batches and batches[-1][0] == fk and lab not in batches[-1][2]:      # a repeated label = next step (self-loop taken)
                batches[-1][1].append(ei)
                batches[-1][2].add(lab)
            else:
                batches.append((fk, [ei], {lab}))
    walks = []
    cur = None
    for i, (fk, eis, _labs) in enumerate(batches):
        if fk in g.inits or cur is None:
            cur = []
            walks.append(cur)
        nxt = batches[i + 1][0] if i + 1 < len(batches) else None
        chosen = [ei for ei in eis if g.edges[ei][2] == nxt]
        if chosen and nxt not in g.inits:
            cur.append(chosen[0])
        else:
            cur.append(eis[len(eis) // 2])      # last step of the behaviour: any candidate is an edge of the spec
            cur = None
    walks = [w for w in walks if w and g.edges[w[0]][0] in g.inits
             and all(g.edges[w[i]][2] == g.edges[w[i + 1]][0] for i in range(len(w) - 1))]
    return g, walks


def run_property(chk, pid, P):
    """P: dict(cfgs=[...], mech_invs, mech_props, abs_invs, abs_props, devs={d: cfg overrides}, footprint=[...], nontrivial=fn(edge))"""
    from checks.ormsession_driver import Driver
    rng = random.Random(chk.seed)
    t0 = time.time()
    dev_real = probe_deviations(chk.work)
    known_devs = set(DEV_ALL)
    tot = dict(states=0, transitions=0, edges=0, walks=0, steps=0, random_walks=0, tlc_runs=0)
    cov = {}
    samples = []
    plans = {}
    jobs = []
    pool = ThreadPoolExecutor(max_workers=max(2, tlc.NPROC // 2))
    nwork = [0]

    def wd(tag):
        nwork[0] += 1
        return os.path.join(chk.work, "%s_%d" % (tag, nwork[0]))

    # --- abstract layer: the property's invariants on the ideal mechanism (must hold) and on ideal + one deviation at a time
    for c in P["cfgs"]:
        cs = consts(c["objs"], c["maxsp"], c["ideal_depth"], c["eoc"], c["acts"], [], vals=c.get("vals", (0, 1)), start=c.get("start", "empty"))
        jobs.append(("ideal", c["name"], None, pool.submit(
            tlc.run, SPEC, mk_cfg(cs, P["abs_invs"] + P["mech_invs"], P["abs_props"] + P["mech_props"]), wd("ideal"),
            workers=max(2, tlc.NPROC // 4), timeout=1500, keep_stdout=True, heap="4g")))
    for d, c in P["devs"].items():
        if d not in dev_real:
            continue
        cs = consts(c.get("objs", 2), c.get("maxsp", 1), c.get("depth", 8), c.get("eoc", True), c["acts"], [d])
        jobs.append(("dev", d, c, pool.submit(
            tlc.run, SPEC, mk_cfg(cs, P["abs_invs"], P["abs_props"]), wd("dev_" + d), workers=2, timeout=900, keep_stdout=True, heap="2g")))

    # --- mechanism layer: graph with the deviations the code shows, every edge replayed
    for c in P["cfgs"]:
        cs = consts(c["objs"], c["maxsp"], c["depth"], c["eoc"], c["acts"], dev_real & known_devs, vals=c.get("vals", (0, 1)), start=c.get("start", "empty"))
        tg = time.time()
        g = graph.dump(SPEC, mk_cfg(cs, P["mech_invs"], P["mech_props"], emit=True), wd("graph"), timeout=3000, heap="6g")
        r = g.tlc
        tot["t_graph"] = round(tot.get("t_graph", 0) + time.time() - tg, 1)
        tot["tlc_runs"] += 1
        tot["states"] += r.distinct
        tot["transitions"] += r.generated
        tot["edges"] += len(g.edges)
        if r.violated:
            chk.violation({"spec": SPEC, "action": "TLC", "kind": "mechanism", "invariant": str(r.violated), "cfg": c["name"]},
                          "TLC: %s violated in OrmSession.tla with the deviations the code shows (cfg %s): %s" % (
                              r.violated, c["name"], " ".join(trace_actions(r.stdout))))
        for e in g.edges:
            cov[e[1]["a"]] = cov.get(e[1]["a"], 0) + 1
        walks, plan = graph.plan_tours(g, c["depth"], rng)
        extra = graph.random_walks(g, c.get("random", 200), c["depth"], rng)
        plans[c["name"]] = plan
        eoc = c["eoc"]
        tr = time.time()
        steps, mism = graph.replay(g, walks + extra, lambda wid, w, eoc=eoc: Driver(wid, w, eoc=eoc), wd("replay"), nproc=16)
        tot["t_replay"] = round(tot.get("t_replay", 0) + time.time() - tr, 1)
        tot["walks"] += len(walks)
        tot["random_walks"] += len(extra)
        tot["steps"] += steps
        report_mismatches(chk, mism, c["name"])
        if walks:
            for w in (walks[len(walks) // 2], walks[-1]):
                samples.append(fmt_walk([g.edges[ei][1] for ei in w]))
        tot.setdefault("nontrivial", 0)
        tot["nontrivial"] += sum(1 for e in g.edges if P["nontrivial"](g.states[e[0]], e[1]))
        # deeper random behaviours (TLC -simulate), replayed the same way
        if c.get("sim"):
            num, depth = c["sim"]
            ts = time.time()
            g2, w2 = simulate_graph(cs, wd("sim"), num, depth, chk.seed + 1)
            tot["t_sim"] = round(tot.get("t_sim", 0) + time.time() - ts, 1)
            steps2, mism2 = graph.replay(g2, w2, lambda wid, w, eoc=eoc: Driver(wid, w, eoc=eoc), wd("replay"), nproc=16)
            tot["random_walks"] += len(w2)
            tot["steps"] += steps2
            tot["tlc_runs"] += 1
            tot["deep_walk_steps"] = tot.get("deep_walk_steps", 0) + steps2
            report_mismatches(chk, mism2, c["name"] + "/deep")
            for e in g2.edges:
                cov[e[1]["a"]] = cov.get(e[1]["a"], 0) + 1
        del g
    for a in P["footprint"]:
        if not cov.get(a):
            chk.machinery("vacuous: action %s of the property's footprint never taken" % a)

    # --- collect the abstract-layer runs
    dev_hits = {}
    tc = time.time()
    for kind, name, c, fut in jobs:
        r = fut.result()
        tot["tlc_runs"] += 1
        if kind == "ideal":
            tot["ideal_states"] = tot.get("ideal_states", 0) + r.distinct
            tot["ideal_transitions"] = tot.get("ideal_transitions", 0) + r.generated
            if r.violated:
                tr = trace_actions(r.stdout)
                chk.violation({"spec": SPEC, "action": "TLC", "kind": "unattributed", "invariant": str(r.violated), "cfg": name},
                              "TLC: %s violated by the mechanism WITHOUT any named deviation (cfg %s): %s" % (r.violated, name, " ".join(tr)),
                              {"trace": tr})
        else:
            inv = str(r.violated) if r.violated else None
            if inv is None:
                chk.notes.append("deviation %s present in the code but not visible to %s's invariants within the bound" % (name, pid))
                continue
            m = re.search(r"(?:Invariant|Action property|property) (\w+)", inv)
            inv = m.group(1) if m else inv
            tr = trace_actions(r.stdout)
            dev_hits[name] = inv
            chk.violation({"spec": SPEC, "action": "TLC", "kind": "deviation", "deviation": name, "invariant": inv},
                          "%s fails: %s  [shortest history: %s]" % (inv, DEV_WHAT.get(name, name), " ".join(tr)), {"trace": tr, "deviation": name})
    pool.shutdown()
    tot["t_wait_abstract"] = round(time.time() - tc, 1)
    unknown = dev_real - known_devs
    if unknown:
        chk.machinery("probe reported unknown deviations %r" % sorted(unknown))
    return tot, cov, samples, plans, dev_real, dev_hits


def report_mismatches(chk, mism, cfgname):
    for m in mism:
        act = m["act"] if isinstance(m["act"], dict) else {"a": m["act"], "arg": [], "ret": None}
        walk = m["walk"]
        chk.violation({"spec": SPEC, "action": act["a"], "kind": "conformance", "ret": act.get("ret") if isinstance(act.get("ret"), str) else "composite",
                       "cfg": cfgname},
                      "real Session diverges from OrmSession.tla at step %d of [%s]: %s" % (
                          m["step"], fmt_walk([a for a in walk if isinstance(a, dict)]), m["mismatch"][:700]),
                      {"walk": [dict(a=a["a"], arg=a["arg"], ret=a["ret"]) for a in walk if isinstance(a, dict)], "mismatch": m["mismatch"], "cfg": cfgname})
