"""Shared TLC-config / tour / verdict logic of the OrmSession checks (C32, C33, C34, C35)."""
import os
import re

from engine import graph, tlc

SPEC = "OrmSession"
ALL_ACTS = ["SetV", "SetPk", "Sp", "Expunge", "Expire", "Refresh", "Get", "Close", "MakeTransient", "Fail", "Misuse"]
DEV_ALL = ["a", "b", "c", "d", "e", "f1", "f2", "g", "h", "gsw", "eoc", "ksw", "kswx", "kswmerge"]


def q(s):
    return '"%s"' % s


def consts(objs, maxsp, depth, eoc, acts, dev, vals=(0, 1), keys=(1, 2)):
    return {
        "Objs": "{" + ", ".join(q("o%d" % i) for i in range(1, objs + 1)) + "}",
        "Keys": "{" + ", ".join(str(k) for k in keys) + "}",
        "Vals": "{" + ", ".join(str(k) for k in vals) + "}",
        "MaxSp": maxsp, "MaxDepth": depth, "Eoc": bool(eoc),
        "Acts": "{" + ", ".join(q(a) for a in acts) + "}",
        "Dev": "{" + ", ".join(q(a) for a in sorted(dev)) + "}",
    }


def trace_actions(stdout):
    """action labels of a TLC counterexample (from the `last` variable of each printed state)"""
    out = []
    for blk in re.findall(r'last = \[(.*?)\]\n', stdout, flags=re.S):
        a = re.search(r'a \|-> "(\w+)"', blk)
        g = re.search(r'arg \|-> <<([^>]*)>>', blk)
        r = re.search(r'ret \|-> "([^"]*)"', blk)
        if a:
            out.append("%s(%s)->%s" % (a.group(1), g.group(1).replace('"', "") if g else "", r.group(1) if r else "?"))
    return out[1:]


# ---------------------------------------------------------------------------------------------- deviation probes
def probe_deviations(workdir):
    """Which of the named deviations (OrmSession.tla constant Dev) does the Session of the tree under test show?
    Each probe is the shortest history that distinguishes the deviating behaviour from the documented one; the spec is
    then run with exactly this set, so the conformance replay stays strict in both directions."""
    from checks.ormsession_driver import Real
    r = Real(os.path.join(workdir, "probe"), "probe")
    dev = set()

    def run(script, eoc=True, pks=None):
        r.reset(pks or {"o1": 1, "o2": 2}, expire_on_commit=eoc)
        rets = []
        for a, arg in script:
            rets.append(r.do(a, arg))
        return rets, r.observe()

    def evs(o):
        return {k[0]: v for k, v in o["ev"].items()}

    try:
        _, o = run([("Add", "o1"), ("Flush", None), ("Delete", "o1"), ("Flush", None), ("Rollback", None), ("Add", "o1"), ("Flush", None)])
        if o["o"]["o1"]["life"] == "deleted":
            dev.add("a")
        _, o = run([("Add", "o1"), ("Commit", None), ("Delete", "o1"), ("Flush", None), ("Close", None)])
        if o["o"]["o1"]["life"] == "deleted":
            dev.add("b")
        rets, o = run([("Add", "o1"), ("Flush", None), ("Delete", "o1"), ("Flush", None), ("Delete", "o1")])
        if rets[-1] == "ok" and o["imap"].get(1) == "o1":
            dev.add("c")
        _, o = run([("Add", "o1"), ("Commit", None), ("Delete", "o1"), ("Rollback", None)])
        if evs(o).get("deleted_to_persistent"):
            dev.add("d")
        _, o = run([("Add", "o1"), ("Commit", None), ("Delete", "o1"), ("Get", 1)])
        if evs(o).get("persistent_to_deleted", 0) > 1:
            dev.add("e")
        _, o = run([("Add", "o1"), ("Flush", None), ("Delete", "o1"), ("Flush", None), ("Rollback", None)])
        if evs(o).get("deleted_to_detached") and o["o"]["o1"]["life"] == "transient":
            dev.add("f1")
        _, o = run([("Add", "o1"), ("Flush", None), ("Expunge", "o1"), ("Rollback", None)])
        if evs(o).get("persistent_to_transient"):
            dev.add("f2")
        _, o = run([("Add", "o1"), ("Commit", None), ("Delete", "o1"), ("BeginNested", None), ("Expunge", "o1"), ("Commit", None)])
        if evs(o).get("deleted_to_detached"):
            dev.add("g")
        _, o = run([("Add", "o1"), ("Flush", None), ("MakeTransient", "o1"), ("Rollback", None)])
        if evs(o).get("pending_to_transient"):
            dev.add("h")
        rets, o = run([("Add", "o1"), ("SetPk", ("o1", 2)), ("Commit", None), ("Delete", "o1"), ("Add", "o2"), ("Get", 2)])
        if rets[-1] == "obj:o1":
            dev.add("gsw")
        _, o = run([("Add", "o1"), ("Commit", None), ("Delete", "o1"), ("Commit", None)], eoc=False)
        if o["o"]["o1"]["life"] == "deleted":
            dev.add("eoc")
        _, o = run([("Add", "o1"), ("Flush", None), ("SetPk", ("o1", 2)), ("Flush", None), ("Rollback", None)])
        if o["o"]["o1"]["life"] == "detached":
            dev.add("ksw")
        _, o = run([("Add", "o1"), ("BeginNested", None), ("SetPk", ("o1", 2)), ("Flush", None), ("Expunge", "o1"), ("SpRollback", None)])
        if o["imap"].get(1) == "o1":
            dev.add("kswx")
        _, o = run([("Add", "o1"), ("Commit", None), ("SetPk", ("o1", 2)), ("Flush", None), ("BeginNested", None), ("SetPk", ("o1", 1)),
                    ("Flush", None), ("SpCommit", None), ("Rollback", None)])
        if o["o"]["o1"]["key"] == 2:
            dev.add("kswmerge")
    finally:
        r.close()
    return dev
