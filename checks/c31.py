"""C31 flush emits statements in an order that satisfies every constraint - ConstraintDB.tla + TraceUow.tla (DESIGN 3.9, 4 (C31), Appendix J)."""
import glob
import json
import os
import random
import re

from engine import tlc
from checks import ormgraph_common as oc

LEVEL = "model_checking"
MANIFEST = dict(
    text="ConstraintDB.tla is a database that checks PRIMARY KEY / NOT NULL / FOREIGN KEY per statement (TLC: the guards are exactly "
         "'the successor state is consistent', on five schema shapes). Every DML statement the unit of work emits (before_cursor_execute, "
         "with parameters) during the flushes of the OrmGraph walks - one-to-many tree with nullable and NOT NULL FK, with and without "
         "delete / delete-orphan cascades, mixed inserts, deletes and re-parenting in one flush - and of generated flushes on a "
         "self-referential tree, a mutual FK cycle with post_update, a bidirectional many-to-many association, an adjacency-list mapper that also "
         "carries a unidirectional self-referential many-to-many (association rows handled inside a unit-of-work cycle: unlink + delete of the "
         "member in one flush) and a unidirectional one-to-many is validated by TLC, in emission order, as "
         "a behaviour of ConstraintDB (TraceUow.tla, all traces in one run); the same flushes run on real SQLite with foreign_keys=ON. A "
         "flush that fails counts only if the intended final state satisfies the constraints, evaluated in the specification.",
    design_ref="3.9, 4 (C31), Appendix J",
    note="trusted: TLC, SQLite's immediate FK enforcement (calibrated against ConstraintDB on every failing statement and on the rows after every "
         "successful flush); PostgreSQL/MariaDB not executable; joined inheritance shape not built",
    technique="TLA+ specs (ConstraintDB.tla, TraceUow.tla) + TLC; code->spec trace validation of recorded flush statement streams; "
              "spec->code replay of OrmGraph flush edges on SQLite with foreign_keys=ON")
PC_SCHEMA = lambda nullable: [{"t": "c", "col": "pid", "ref": "p", "nullable": nullable}]


def _rows_pc(dbp, dbc):
    out = [{"t": "p", "pk": p[1:], "cols": []} for p in sorted(dbp)]
    for c in sorted(dbc):
        v = dbc[c]
        if v == "absent":
            continue
        out.append({"t": "c", "pk": c[1:], "cols": [{"col": "pid", "val": "null" if v == "none" else v[1:]}]})
    return out


def _ev_pc(d):
    op, table, pk, fk, batch = d[:5]
    cols = []
    if table == "c" and (op == "INSERT" or fk != "-"):
        cols = [{"col": "pid", "val": "null" if fk in ("none", "-") else fk[1:]}]
    return {"op": op, "t": table, "pk": pk[len(table):], "cols": cols, "batch": batch}


def traces_from_walks(trace_dir, nullable, shape, start_id):
    """flush records written by the replay workers -> TraceUow traces (deduplicated)"""
    seen = set()
    out = []
    for fn in sorted(glob.glob(os.path.join(trace_dir, "trace-w*.jsonl"))):
        for line in open(fn):
            rec = json.loads(line)
            if not rec["dml"]:
                continue
            base = rec["ret"].split("+")[0]
            if base == "ok":
                kind = "ok"
            elif base == "IntegrityError":
                kind = "fail"
            else:
                continue      # FlushError etc.: no statement stream to judge
            key = json.dumps([rec["pre"], rec["dml"], kind], sort_keys=True)
            if key in seen:
                continue
            seen.add(key)
            t = {"id": start_id + len(out), "shape": shape, "kind": kind, "schema": PC_SCHEMA(nullable),
                 "init": _rows_pc(rec["pre"]["dbp"], rec["pre"]["dbc"]), "ev": [_ev_pc(d) for d in rec["dml"]],
                 "final": _rows_pc(rec["post"]["dbp"], rec["post"]["dbc"]) if rec.get("post") else [],
                 "has_intended": False, "intended": [], "spec_ret": rec["spec_ret"]}
            out.append(t)
    return out


def validate(chk, traces, tag):
    """one TLC run over all traces; on rejection drop the trace, report, re-run (a few times) -> (accepted, rejected list, states)"""
    rejected = []
    states = 0
    traces = list(traces)
    for rnd in range(6):
        wd = os.path.join(chk.work, "trace-%s-%d" % (tag, rnd))
        os.makedirs(wd, exist_ok=True)
        path = os.path.join(wd, "traces.json")
        with open(path, "w") as f:
            json.dump(traces, f)
        cfgt = tlc.cfg(constants=dict(Keys={tlc.q("1")}, SchemaName=tlc.q("pc")), init="TInit", next_="TNext",
                       invariants=["Progress", "StaysConsistent"], postcondition="AllAccepted")
        try:
            r = tlc.run("TraceUow", cfgt, wd, workers=1, timeout=1200, env={"TRACE_FILE": path}, keep_stdout=False, java_opts=oc.JOPTS)
            if r.violated:
                chk.machinery("TraceUow: %s violated (ConstraintDB state inconsistent after an enabled statement)" % r.violated)
            states += r.distinct
            return len(traces), rejected, states
        except tlc.TLCError as e:
            m = re.search(r'"(\{\\"rejected.*?\})"', str(e))
            if not m:
                raise
            rej = json.loads(json.loads('"' + m.group(1) + '"'))
            bad = [t for t in traces if t["id"] == rej["rejected"]][0]
            rejected.append((rej, bad))
            traces = [t for t in traces if t["id"] != rej["rejected"]]
    return len(traces), rejected, states


def main(chk):
    rng = random.Random(chk.seed)
    q = chk.quick
    nc = 2 if q else 3
    d = 4 if q else 5
    # 1. ConstraintDB itself: the guards are exact on five schema shapes
    cdb_states = 0
    for name in ["pc", "pc_notnull", "self", "cycle", "m2m"]:
        cfgt = tlc.cfg(constants=dict(Keys={tlc.q("1"), tlc.q("2")} if q or name in ("cycle", "m2m") else {tlc.q("1"), tlc.q("2"), tlc.q("3")},
                                      SchemaName=tlc.q(name)), invariants=["AlwaysConsistent", "GuardsExact"])
        r = tlc.run("ConstraintDB", cfgt, os.path.join(chk.work, "cdb-" + name), workers=4, timeout=900, keep_stdout=False, java_opts=oc.JOPTS)
        if r.violated:
            chk.machinery("ConstraintDB.tla: %s violated on schema %s (specification error)" % (r.violated, name))
        cdb_states += r.distinct
    # 2. flushes of the OrmGraph walks (spec -> code) with their statement streams recorded
    acts = oc.ALL_ACTS
    tdirs = {}
    configs = []
    plan_ = (("default", "default", True, 2, 4), ("orphan", "orphan", True, 2, 4), ("all-notnull", "all", False, 2, 3),
             ("default-notnull", "default", False, 2, 3), ("orphan-notnull", "orphan", False, 2, 3)) if q else \
            (("default-2x3", "default", True, 3, 4), ("orphan-2x2", "orphan", True, 2, 5), ("all-notnull-2x2", "all", False, 2, 4),
             ("default-notnull-2x2", "default", False, 2, 4), ("orphan-notnull-2x2", "orphan", False, 2, 4))
    for name, casc, nullable, n_, dd in plan_:
        configs.append(dict(name=name, casc=casc, consts=oc.consts(casc, n_, dd, acts=acts, nullable=nullable), invs=["TypeOK", "FkSound"], maxlen=dd,
                            nrandom=100 if q else 1000))
        tdirs[name] = (os.path.join(chk.work, "flushtraces-" + name), nullable)
    st = oc.run_suite(chk, rng, configs, acts, nontrivial=lambda f, a, t: a["a"] in ("Flush", "CommitReload") and len(a["dml"]) > 1,
                      trace_dir={n: v[0] for n, v in tdirs.items()})
    traces = []
    for name, (tdir, nullable) in tdirs.items():
        traces += traces_from_walks(tdir, nullable, "pc:" + name, len(traces) + 1)
    # 3. other shapes: generated flushes (self-referential tree, mutual FK cycle with post_update, many-to-many)
    from checks import ormgraph_shapes
    gen, gstats = ormgraph_shapes.generate(chk, rng, 600 if q else 6000, len(traces) + 1)
    for g in gen:
        if g.get("violation"):
            chk.violation({"spec": "TraceUow", "action": "Flush", "shape": g["shape"], "kind": ("rows-differ-from-projection" if g.get("exc") == "rows-differ" else "flush-raised-" + g.get("exc", "?"))},
                          g["violation"], g)
    traces += [g for g in gen if g.get("ev")]
    kinds = {}
    ops = {}
    for t in traces:
        kinds[t["kind"]] = kinds.get(t["kind"], 0) + 1
        for e in t["ev"]:
            ops[e["op"]] = ops.get(e["op"], 0) + 1
    for o in ("INSERT", "UPDATE", "DELETE"):
        if not ops.get(o):
            chk.machinery("vacuous: no %s statement in any recorded flush" % o)
    if not kinds.get("fail"):
        chk.machinery("vacuous: no failing flush recorded (the guards of ConstraintDB were never calibrated against SQLite)")
    accepted, rejected, tstates = validate(chk, traces, "all")
    for rej, bad in rejected:
        if rej["why"].startswith("calibration"):
            chk.machinery("oracle calibration: %s (trace %s, shape %s, event %s: %s)" % (rej["why"], rej["rejected"], bad["shape"], rej["at"],
                                                                                       json.dumps(bad["ev"])[:400]))
        chk.violation({"spec": "TraceUow", "action": "Flush", "shape": bad["shape"], "kind": "statement-order", "at": rej["at"]},
                      "%s: trace %s (%s) event %s of %s" % (rej["why"], rej["rejected"], bad["shape"], rej["at"], json.dumps(bad["ev"])[:600]), bad)
    multi = sum(1 for t in traces if len(t["ev"]) >= 3 and len(set(e["op"] for e in t["ev"])) >= 2)
    sample = [dict(shape=t["shape"], kind=t["kind"], ev=["%s %s/%s %s" % (e["op"], e["t"], e["pk"], ",".join("%s=%s" % (c["col"], c["val"]) for c in e["cols"]))
                                                          for e in t["ev"]]) for t in (traces[len(traces) // 3], traces[-1])]
    return chk.finish(
        dict(states=st["states"] + cdb_states + tstates, transitions=st["transitions"], traces_validated_against_impl=accepted,
             evaluations=sum(len(t["ev"]) for t in traces), distinct_nontrivial=multi, samples=sample + st["samples"][:2],
             flush_traces=len(traces), trace_kinds=kinds, statements_by_op=ops, edges_replayed=st["edges"], walks=st["walks"], steps=st["steps"],
             constraintdb_states=cdb_states, traceuow_states=tstates, generated_shapes=gstats, per_config=st["per_config"], exhaustive=False,
             rule="distinct (rows before the flush, emitted statement stream) pairs recorded from every Flush/CommitReload edge of the OrmGraph walks "
                  "(5 configurations incl. NOT NULL FK) plus generated flushes on three more schema shapes; each statement must be an enabled "
                  "ConstraintDB action; non-trivial = a flush with >= 3 statements of >= 2 kinds",
             checker_cmd="tlc TraceUow.tla (TRACE_FILE, -workers 1, POSTCONDITION AllAccepted); tlc ConstraintDB.tla"),
        assumptions=["SQLite (foreign_keys=ON) stands in for backends with immediate FK checks; PostgreSQL/MariaDB not executable here",
                     "statement streams are judged per flush from the rows in the transaction before it",
                     "joined-inheritance shape not built; generated shapes use 2-4 objects per flush"])
