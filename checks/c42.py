"""C42 polymorphic queries return each row as its most specific class - OrmQuery.tla part 2 (DESIGN 3.14, 4 C40-C42).

The specification defines, for every hierarchy shape (root A; B1, B2 below A; C1 below B1; C2 below B1 or B2; every parent-closed
subset), every data set of rows tagged with a discriminator and every query against a class K (optionally filtered on A.a or on the own
attribute of a strict subclass, ordered, sliced; directly, through H.items.of_type(K) as join / any(), or as loaded collection):
the result is the rows whose class is K or below (HUnionOfSubclasses: own rows + the results for each direct subclass, disjoint), each
row IS the class its discriminator names with exactly the attributes of that class and its ancestors (HMostSpecific) - independent of
the mapping kind and of every polymorphic loading option, which therefore only exist in the binding.
Binding: each case runs on SQLite for single-table, joined-table (and, thorough, mixed) mappings x mapper-level configuration
{none, with_polymorphic='*', polymorphic_load='selectin' | 'inline'} x query-level {plain class, with_polymorphic('*'), with_polymorphic
(subset) [flat / aliased], selectin_polymorphic(subset)} x of_type() targets x the five relationship loaders for collections; row set,
order, type(obj), presence and value of every attribute are compared with the specification.
"""
import itertools
import random

from checks import ormquery_common as oq

LEVEL = "model_checking"
MANIFEST = dict(
    text="OrmQuery.tla part 2: class hierarchies of depth <=2 and width <=2 (12 shapes), rows with discriminator and NULL-able per-class "
         "attributes, a holder with a collection of the base class. HEval defines the rows of a query against any class K (filter on a base "
         "or subclass attribute, order, LIMIT/OFFSET; direct, join/any through of_type(K), loaded collections); TLC checks that the result is "
         "the union of K's own rows and the results for its direct subclasses, that every row is reported as its discriminator's class with "
         "exactly that class's attributes, and the slice / of_type equivalences. Every case runs on SQLite with single-table and joined-table "
         "(thorough: also mixed) mappings under 4 mapper-level polymorphic configurations and query-level none / with_polymorphic('*') / partial "
         "with_polymorphic (plain, flat, aliased) / selectin_polymorphic / of_type targets / 5 collection loaders: rows, order, type(obj) and the "
         "presence and value of every attribute must equal the specification.",
    design_ref="3.14 (OrmQuery), 4 (C40-C42)",
    note="trusted: TLC; rows are inserted with Core INSERTs; concrete-table inheritance (polymorphic_union) is not generated; bounds: <=4 rows, "
         "<=2 holders, values 1..2 + NULL; SQLite only",
    technique="TLA+ spec (OrmQuery.tla, part 2) + TLC theorem checking on every enumerated case; spec->code replay of every case under every "
              "polymorphic loading option")

INVS = ["HTheorems"]
CASES = []
SEED = 0
TIER = "quick"
NAME = dict(lazy="lazyload", joined="joinedload", subquery="subqueryload", selectin="selectinload", immediate="immediateload")


def kind_of(ds):
    if not ds["tabs"]:
        return "single"
    return "joined" if len(ds["tabs"]) == len(ds["cls"]) - 1 else "mixed"


def _sig(c, v, kind, **kw):
    q = c["q"]
    return dict(spec="OrmQuery", action="hier", kind=kind, via=q["via"], at=q["at"], sub_rooted=q["at"] != "A", flt=q["flt"], poly=v["poly"],
                mcfg=v["mcfg"], flat=v.get("flat", False), loader=v.get("loader"), target=v.get("target"), mapping=kind_of(c["ds"]),
                lim=q["lim"] != -1, off=q["off"] != -1, **kw)


def subsets(H, at, rng, k):
    below = [d for d in H.desc[at] if d != at]
    alls = [list(s) for r in range(1, len(below) + 1) for s in itertools.combinations(below, r)]
    rng.shuffle(alls)
    return alls[:k]


def variants(c, H, rng, thorough):
    q = c["q"]
    at, via = q["at"], q["via"]
    subs = subsets(H, at, rng, 3 if thorough else 2)
    out = []
    if via in ("direct", "jot", "aot"):
        out.append(dict(poly="none"))
        out.append(dict(poly="wpall", flat=False))
        out.append(dict(poly="wpall", flat=True))
        for s in subs:
            out.append(dict(poly="wppart", subset=s, flat=rng.random() < 0.5))
        if via == "direct":
            for s in subs:
                out.append(dict(poly="sip", subset=s))
            out.append(dict(poly="wpall", flat=False, aliased=True))
        elif at == "A":
            # the relationship itself, without of_type(): its target is the base class (with a mapper-level with_polymorphic the
            # relationship's own adapter has to translate the criteria)
            out.append(dict(poly="none", noft=True))
        if q["flt"] == "sub":
            fc = q["fc"]
            keep = []
            for v in out:
                if v["poly"] == "wpall" or (v["poly"] == "wppart" and fc in v["subset"]):
                    keep.append(v)
                elif v["poly"] in ("none", "sip") and H.owner[fc] in [H.owner[a] for a in H.anc[at]]:
                    keep.append(v)        # the subclass column lives in a table the class already selects from (single-table part)
            if not any(v["poly"] == "wppart" for v in keep):
                keep.append(dict(poly="wppart", subset=[fc], flat=False))
            out = keep
    else:
        for ld in oq.STRATS:
            out.append(dict(poly="none", loader=ld, target="plain"))
            out.append(dict(poly="none", loader=ld, target="of_type"))
            out.append(dict(poly="wpall", loader=ld, target="of_type", flat=True))
            for s in subs[:1]:
                out.append(dict(poly="wppart", subset=s, loader=ld, target="of_type", flat=True))
                out.append(dict(poly="sip", subset=s, loader=ld, target="plain"))
    for v in out:
        v["mcfg"] = rng.choice(("wpstar", "wpstar") + tuple(oq.MCFGS)) if v.get("noft") else rng.choice(oq.MCFGS)
    if thorough:
        out = [dict(v, mcfg=m) for v in out for m in oq.MCFGS]
    return out


def run_variant(c, v, H, sa, orm):
    """-> (rows as tuples of ids, list of (object, expected object)) ; raises on error"""
    q, ds = c["q"], c["ds"]
    at, via = q["at"], q["via"]
    Hc = H.classes["H"]
    poly, subset = v["poly"], v.get("subset", ())
    kw = {}
    if v.get("aliased"):
        kw = dict(aliased=True)
    if poly in ("wpall", "wppart"):
        K = H.classes[at]
        ent = orm.with_polymorphic(K, "*" if poly == "wpall" else [H.classes[x] for x in subset], flat=v.get("flat", False), **kw)
    else:
        ent = H.classes[at]
    crit = None
    if q["flt"] == "a":
        crit = ent.a == q["fv"]
    elif q["flt"] == "sub":
        crit = H.attr(ent, at, poly, subset, q["fc"]) == q["fv"]
    desc = q["ord"] == "idd"
    o = (lambda col: col.desc() if desc else col.asc())
    opts = []
    if poly == "sip" and via == "direct":
        opts.append(orm.selectin_polymorphic(H.classes[at], [H.classes[x] for x in subset]))
    if via == "direct":
        stmt = sa.select(ent)
        if crit is not None:
            stmt = stmt.where(crit)
        stmt = stmt.order_by(o(ent.id))
    elif via == "jot":
        stmt = sa.select(Hc, ent).join(Hc.items if v.get("noft") else Hc.items.of_type(ent))
        if crit is not None:
            stmt = stmt.where(crit)
        stmt = stmt.order_by(o(Hc.id), o(ent.id))
    elif via == "aot":
        rel = Hc.items if v.get("noft") else Hc.items.of_type(ent)
        stmt = sa.select(Hc).where(rel.any(crit) if crit is not None else rel.any())
        stmt = stmt.order_by(o(Hc.id))
    else:
        ld = getattr(orm, NAME[v["loader"]])
        if v["target"] == "plain":
            opt = ld(Hc.items)
            if poly == "sip":
                opt = opt.selectin_polymorphic([H.classes[x] for x in subset])
        else:
            opt = ld(Hc.items.of_type(ent))
        opts.append(opt)
        stmt = sa.select(Hc).order_by(o(Hc.id))
    if q["lim"] != -1:
        stmt = stmt.limit(q["lim"])
    if q["off"] != -1:
        stmt = stmt.offset(q["off"])
    if opts:
        stmt = stmt.options(*opts)
    objs = []
    with orm.Session(H.engine) as s:
        res = s.execute(stmt)
        rows = res.unique().all() if via == "items" else res.all()
        tups = []
        for r in rows:
            if via == "direct":
                tups.append((r[0].id,))
                objs.append(r[0])
            elif via == "jot":
                tups.append((r[0].id, r[1].id))
                objs.append(r[1])
            else:
                tups.append((r[0].id,))
        problems = []
        for ob in objs:
            m = H.check_obj(ob, c["objs"][ob.id - 1])
            if m:
                problems.append(("object", m))
        if via == "items":
            for r in rows:
                h = r[0]
                got = [x.id for x in h.items]
                want = c["hitems"][h.id - 1]
                if got != want:
                    problems.append(("collection", "H#%d.items = %r, the data set says %r" % (h.id, got, want)))
                for x in h.items:
                    m = H.check_obj(x, c["objs"][x.id - 1])
                    if m:
                        problems.append(("object", m))
                objs.extend(h.items)
    return tups, problems, len(objs)


def worker(indices):
    import sqlalchemy as sa
    from sqlalchemy import orm
    oq.quiet()
    rng = random.Random(SEED * 15485863 + (indices[0] if indices else 0))
    hs = {}
    viol = []
    cnt = dict(cases=0, runs=0, nontrivial=0, objects=0, orm_loaded=0, single_over_joined=0)
    cov = {}
    for ci in indices:
        c = CASES[ci]
        ds, q = c["ds"], c["q"]
        cnt["cases"] += 1
        exp = [tuple(r) for r in c["rows"]]
        below = {o["cls"] for o in c["objs"] if o["cls"] != q["at"]}
        # non-trivial: the result (or a loaded collection) contains a row of a strict subclass of the queried class
        if q["via"] in ("direct", "jot"):
            nt = any(c["objs"][t[-1] - 1]["cls"] != q["at"] for t in exp)
        elif q["via"] == "items":
            nt = any(c["objs"][i - 1]["cls"] != "A" for t in exp for i in c["hitems"][t[0] - 1])
        else:
            nt = bool(exp) and bool(below)
        if nt:
            cnt["nontrivial"] += 1
        # a single-table, non-base class queried while rows of a JOINED-table class below it are in the result
        if q["via"] in ("direct", "jot") and q["at"] != "A" and q["at"] not in ds["tabs"] and \
                any(c["objs"][t[-1] - 1]["cls"] in ds["tabs"] for t in exp):
            cnt["single_over_joined"] += 1
        via_orm = rng.random() < 0.3       # the rows are persisted through the ORM (the mapper writes the discriminator)
        for v in variants(c, _hier(hs, ds, "none"), rng, TIER != "quick"):
            H = _hier(hs, ds, v["mcfg"])
            bad = H.load(ds, via_orm=via_orm)
            cnt["runs"] += 1
            cnt["orm_loaded"] += 1 if via_orm else 0
            if bad:
                viol.append((_sig(c, v, "persist"), "%s; ds=%r" % (bad, ds), dict(case=c, variant=v)))
                continue
            key = "%s/%s/%s/%s" % (q["via"], v["poly"], v["mcfg"], kind_of(ds))
            if nt:
                cov[key] = cov.get(key, 0) + 1
            try:
                tups, problems, nobj = run_variant(c, v, H, sa, orm)
            except Exception as ex:
                import traceback
                viol.append((_sig(c, v, "exception", exc=type(ex).__name__),
                             "%s: %s under %r; q=%r ds=%r" % (type(ex).__name__, " ".join(str(ex).split())[:300], v, q, ds),
                             dict(case=c, variant=v, tb=traceback.format_exc()[-1500:])))
                continue
            cnt["objects"] += nobj
            if tups != exp:
                viol.append((_sig(c, v, "rows"), "rows %r under %r, a query against %s means %r; q=%r ds=%r" % (tups, v, q["at"], exp, q, ds),
                             dict(case=c, variant=v)))
            for pt, m in problems[:1]:
                viol.append((_sig(c, v, "object", problem=pt), "%s under %r; q=%r ds=%r" % (m, v, q, ds), dict(case=c, variant=v)))
    return viol, cnt, cov


def _hier(hs, ds, mcfg):
    k = oq.hier_key(ds, mcfg)
    if k not in hs:
        hs[k] = oq.Hier(ds["cls"], ds["c2par"], ds["tabs"], mcfg)
    return hs[k]


def plans_for(chk):
    base = dict(oq.BASE)
    sc = oq.scale()
    if chk.quick:
        return [("InitPart2", dict(base, K=1, GridKeep=max(1, int(45 * sc)), NQ=int(700 * sc), NH=4, Mixed=False))]
    return [("InitPart2", dict(base, K=1, NQ=int(1800 * sc), NH=4, Mixed=False)),
            ("InitPart2", dict(base, K=1, GridKeep=20, NQ=int(1800 * sc), NH=4, Mixed=True))]


def main(chk):
    global CASES, SEED, TIER
    SEED, TIER = chk.seed, chk.tier
    cases, runs = oq.generate(chk, plans_for(chk), INVS, timeout=900 if chk.quick else 3000)
    rng = random.Random(chk.seed)
    rng.shuffle(cases)
    CASES = cases
    res = oq.pmap(worker, len(cases))
    tot = dict(cases=0, runs=0, nontrivial=0, objects=0, orm_loaded=0, single_over_joined=0)
    cov = {}
    for viol, cnt, cv in res:
        for sig, what, rp in viol:
            chk.violation(sig, what, rp)
        for k_ in tot:
            tot[k_] += cnt[k_]
        for k_, v in cv.items():
            cov[k_] = cov.get(k_, 0) + v
    for via in ("direct", "jot", "aot", "items"):
        for poly in ("none", "wpall", "wppart") + (("sip",) if via in ("direct", "items") else ()):
            for mk in ("single", "joined", "mixed"):
                if oq.scale() >= 1 and not chk.violations and not any(v for k_, v in cov.items() if k_.startswith("%s/%s/" % (via, poly)) and k_.endswith("/" + mk)):
                    chk.machinery("vacuous: %s / %s / %s never ran on a result containing a subclass row" % (via, poly, mk))
    if oq.scale() >= 1 and not chk.violations and not tot["single_over_joined"]:
        chk.machinery("vacuous: no query against a non-base single-table class whose result holds a row of a joined-table subclass")
    shapes = {(tuple(c["ds"]["cls"]), c["ds"]["c2par"]) for c in cases}
    samples = [dict(ds=c["ds"], q=c["q"], rows=c["rows"], objs=c["objs"]) for c in cases
               if len(c["rows"]) >= 2 and c["q"]["via"] == "direct" and c["q"]["at"] != "A"][:3]
    return chk.finish(
        dict(states=sum(r["distinct"] for r in runs), transitions=sum(r["generated"] for r in runs),
             traces_validated_against_impl=tot["cases"], evaluations=tot["runs"], distinct_nontrivial=tot["nontrivial"],
             objects_checked=tot["objects"], runs_on_orm_persisted_rows=tot["orm_loaded"], single_class_over_joined_subclass_cases=tot["single_over_joined"], hierarchy_shapes=len(shapes), option_coverage_nontrivial=cov, samples=samples, tlc_runs=runs,
             exhaustive=False,
             rule="one case per TLC initial state (hierarchy shape x mapping kind x rows x query); each case runs under every applicable "
                  "polymorphic option (plain / with_polymorphic * / partial / flat / aliased / selectin_polymorphic / of_type target / 5 "
                  "collection loaders) x a mapper-level configuration; non-trivial = the result contains a row of a strict subclass",
             checker_cmd="tlc OrmQuery.tla (INIT InitPart2, INVARIANT HTheorems)"),
        assumptions=["SQLite only; single-table, joined-table and mixed mappings of <=5 classes; concrete-table inheritance not covered",
                     "a filter on a subclass attribute is only expressible through an entity that exposes it (with_polymorphic including "
                     "that class, or a single-table sibling column): other options are skipped for such queries"])
