"""C39 cascades follow their configured rules - OrmGraph.tla (DESIGN 3.9, 4 (C39), 6 (C39), Appendix I)."""
import random

from checks import ormgraph_common as oc

LEVEL = "model_checking"
MANIFEST = dict(
    text="OrmGraph.tla is run once per cascade configuration of P.children (none; save-update+merge; +delete; all; all+delete-orphan). TLC checks "
         "per configuration: everything reachable through save-update cascades from an added object is a member afterwards, a direct append to "
         "a member parent pulls the child in, delete() marks exactly the object and its delete-cascade targets that have a row and the flush "
         "removes them, expunge() removes exactly the configured objects, a persistent child removed from a delete-orphan collection and not "
         "re-associated is deleted by the flush while a re-associated one is kept, and after any flush no row survives whose delete-orphan "
         "parent row is gone. Every edge is replayed against the real ORM (session membership, session.deleted and rows after every step).",
    design_ref="3.9, 4 (C39), 6 (C39), Appendix I",
    note="trusted: TLC; cascades of one one-to-many relationship (bidirectional with back_populates, and unidirectional where a move is two explicit "
         "steps) (merge and refresh-expire reach not exercised: no merge/refresh actions); "
         "the save-update traversal halts at objects that already are members (named deviation HaltOnMember); SQLite only",
    technique="TLA+ spec (OrmGraph.tla) + TLC exhaustive model checking per cascade constant; spec->code replay of every state-graph edge")
ACTS = ["Add", "Delete", "Expunge", "Append", "Remove", "SetParent", "Replace", "Flush", "CommitReload"]
INVS = ["TypeOK", "FkSound", "MarkedArePersistent"]
PROPS = ["AddReachesClosure", "AppendCascades_ExceptOrphanMove", "ReassocKeepsMember_ExceptOrphanMove", "DeleteMarksExactly", "MarkedAreDeleted",
         "ExpungeExactly", "OrphanDeleted", "ReassociatedKept", "NoRowOfGoneParent"]


def nontrivial(f, act, t):
    a = act["a"]
    if t["dead"]:
        return False
    if a in ("Add", "Delete", "Expunge", "Append", "SetParent", "Replace", "Remove"):
        ch = sum(1 for o in f["life"] if f["life"][o] != t["life"][o] or ((o in f["marked"]) != (o in t["marked"])))
        return ch >= 2 or (a in ("Append", "SetParent", "Replace", "Remove") and ch >= 1)
    return a == "Flush" and any(t["life"][o] == "deleted" and o not in f["marked"] for o in t["life"])


def main(chk):
    rng = random.Random(chk.seed)
    q = chk.quick
    nc = 2 if q else 3
    nr = 60 if q else 600
    mk = lambda name, casc, n, dd: dict(name=name, casc=casc, consts=oc.consts(casc, n, dd, acts=ACTS), invs=INVS, props=PROPS, maxlen=dd, nrandom=nr)
    if q:
        configs = [mk("orphan", "orphan", 2, 4), mk("all", "all", 2, 3), mk("delete", "delete", 2, 3), mk("default", "default", 2, 3), mk("none", "none", 2, 3)]
        deep = [dict(name="deep-" + n, casc=n, consts=oc.consts(n, 2, 5, acts=ACTS), invs=INVS, props=PROPS) for n in ("orphan", "all")]
    else:
        configs = [mk("orphan-2x3", "orphan", 3, 4), mk("all-2x3", "all", 3, 4), mk("orphan-2x2", "orphan", 2, 5), mk("delete-2x2", "delete", 2, 4),
                   mk("default-2x2", "default", 2, 4), mk("none-2x2", "none", 2, 4)]
        deep = [dict(name="deep-%s-2x3" % n, casc=n, consts=oc.consts(n, 3, 5, acts=ACTS), invs=INVS, props=PROPS) for n in ("orphan", "all")] + \
               [dict(name="deep-%s-2x2" % n, casc=n, consts=oc.consts(n, 2, 6, acts=ACTS), invs=INVS, props=PROPS) for n in ("delete", "default", "none")]
    # unidirectional mapping (no backref): a move is two explicit steps - attach to the new parent (possibly one without an identity key yet),
    # detach from the old one - and the orphan rule is judged at flush (added for seeded change C39-1)
    UACTS = ["Add", "Append", "Remove", "Delete", "Flush", "CommitReload"] if q else ["Add", "Append", "Remove", "Replace", "Delete", "Expunge", "Flush", "CommitReload"]
    UPROPS = ["UniMemberKept", "AddReachesClosure", "DeleteMarksExactly", "MarkedAreDeleted"] + ([] if q else ["ExpungeExactly"])
    configs.append(dict(name="orphan-uni", casc="orphan", consts=oc.consts("orphan", 2, 5 if q else 6, acts=UACTS, init="half", uni=True), invs=INVS, props=UPROPS,
                        maxlen=5 if q else 6, nrandom=nr, footprint=UACTS))
    if not q:
        configs.append(dict(name="delete-uni", casc="delete", consts=oc.consts("delete", 2, 5, acts=UACTS, init="both", uni=True), invs=INVS, props=UPROPS,
                            maxlen=5, nrandom=nr, footprint=UACTS))
    what = ("re-associating a child that has no row yet under delete-orphan throws it out of the session: the backref's removal from the old "
            "parent fires the delete-orphan listener, which expunges the pending child although it is being moved to another parent "
            "(c.parent = p2 / p2.children.append(c) with c pending in p1.children): c ends transient inside p2.children and is not inserted "
            "(\"unless it has been re-associated\"). Holds for every other re-association (..._ExceptOrphanMove).")
    oc_ = oc.consts("orphan", 2, 4, acts=["Add", "Append", "SetParent", "Replace"], init="empty")
    expose = [dict(name="orphan-reassoc", casc="orphan", consts=oc_, prop="ReassocKeepsMember", sig={"scope": "rowless-child-moved-away-from-a-parent"}, what=what),
              dict(name="orphan-append", casc="orphan", consts=oc_, prop="AppendCascades", sig={"scope": "rowless-child-moved-away-from-a-parent"}, what=what)]
    st = oc.run_suite(chk, rng, configs, ACTS, deep=deep, expose=expose, nontrivial=nontrivial)
    return chk.finish(
        dict(states=st["states"] + st["deep_states"], transitions=st["transitions"] + st["deep_transitions"],
             traces_validated_against_impl=st["walks"], evaluations=st["steps"], distinct_nontrivial=st["nontrivial"], samples=st["samples"],
             edges_replayed=st["edges"], per_config=st["per_config"], action_coverage=st["action_coverage"], exhaustive=True,
             cascade_configurations=[c["name"] for c in configs],
             rule="every labelled edge of the OrmGraph state graph, one graph per cascade configuration; non-trivial = an operation whose "
                  "cascade changes the membership / delete mark of another object, or a flush that deletes an orphan",
             checker_cmd="tlc OrmGraph.tla (VIEW View, ACTION_CONSTRAINT Emit)"),
        assumptions=["cascade set on P.children only (C.parent keeps the default save-update, merge); 2 parents x %d children" % nc,
                     "merge / refresh / expire are not among the actions: the merge and refresh-expire cascade reach is not covered",
                     "relationship attributes always loaded/initialised; autoflush off; SQLite file engine, foreign_keys=ON"])
