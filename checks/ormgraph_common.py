"""Shared by c30/c31/c36/c37/c39: constants of OrmGraph.tla, TLC runs, edge dump, walk planning and replay."""
import os
import random

from engine import graph, tlc

ALL_ACTS = ["Add", "Delete", "Expunge", "Append", "Insert", "Remove", "Pop", "Replace", "SetParent", "Flush", "CommitReload"]
# "SetVal" (plain scalar column) is enabled only where a check lists it (C36): it multiplies the state space by 2^NC
CASC = {
    "default": ["save-update", "merge"],
    "delete": ["save-update", "merge", "delete"],
    "all": ["save-update", "merge", "delete", "expunge", "refresh-expire"],
    "orphan": ["save-update", "merge", "delete", "expunge", "refresh-expire", "delete-orphan"],
    "none": [],
}


def consts(casc="default", nc=2, depth=5, acts=ALL_ACTS, init="both", dup=False, nullable=True, np_=2, uni=False, kind="list"):
    return dict(NP=np_, NC=nc, Ps=set(tlc.q("p%d" % i) for i in range(1, np_ + 1)), Cs=set(tlc.q("c%d" % i) for i in range(1, nc + 1)), Casc=set(tlc.q(x) for x in CASC[casc]), Nullable=nullable, Acts=set(tlc.q(a) for a in acts),
                InitMode=tlc.q(init), AllowDup=dup, Uni=uni, Kind=tlc.q(kind), MaxDepth=depth)


def names(c):
    return ["p%d" % i for i in range(1, c["NP"] + 1)], ["c%d" % i for i in range(1, c["NC"] + 1)]


JOPTS = ("-XX:ParallelGCThreads=2", "-XX:CICompilerCount=2")


def check_only(chk, c, invs=(), props=(), workdir=None, timeout=1500, workers=16):
    """TLC without edge dump (multi-worker): returns Result"""
    cfgt = tlc.cfg(constants=c, init="Init", invariants=list(invs), properties=list(props), view="View", constraints=["Depth"])
    return tlc.run("OrmGraph", cfgt, workdir or chk.work, workers=workers, timeout=timeout, keep_stdout=False, java_opts=JOPTS)


def dump(chk, c, invs=(), props=(), tag="g", timeout=1500):
    """edge dump (engine.graph.dump with JVM options suited to many small concurrent runs)"""
    cfgt = tlc.cfg(constants=c, init="InitEmit", invariants=list(invs), properties=list(props), view="View",
                   action_constraints=["Emit"], constraints=["Depth"])
    r = tlc.run("OrmGraph", cfgt, os.path.join(chk.work, tag), workers=1, timeout=timeout, keep_stdout=False, java_opts=JOPTS)
    g = graph.Graph()
    g.tlc = r
    for o in r.json:
        if "init" in o:
            k = graph.key(o["init"])
            g.states.setdefault(k, o["init"])
            g.out.setdefault(k, [])
            if k not in g.inits:
                g.inits.append(k)
        elif "from" in o:
            g.add_edge(o["from"], dict(o["act"], obs=o["obs"]), o["to"])
    r.json = []
    return g


def plan(g, maxlen, rng, nrandom=0):
    """edge-covering tours, each extended by the CommitReload edge of its final state when there is one (the drain)"""
    walks, info = graph.plan_tours(g, maxlen, rng)
    extra = graph.random_walks(g, nrandom, maxlen, rng) if nrandom else []
    out = []
    ext = 0
    for w in walks + extra:
        last = g.edges[w[-1]]
        if last[1]["a"] != "CommitReload" and len(w) <= maxlen:
            for ei in g.out[last[2]]:
                if g.edges[ei][1]["a"] == "CommitReload":
                    w = w + [ei]
                    ext += 1
                    break
        out.append(w)
    info["walks_extended_with_commit_reload"] = ext
    info["random_walks"] = len(extra)
    return out, info


def action_counts(g):
    cov = {}
    for e in g.edges:
        cov[e[1]["a"]] = cov.get(e[1]["a"], 0) + 1
    return cov


def fmt_walk(g, w):
    return ["%s(%s)->%s" % (g.edges[ei][1]["a"], ",".join(str(x) for x in g.edges[ei][1]["arg"]), g.edges[ei][1]["ret"]) for ei in w]


class MakeDriver:
    def __init__(self, casc, c, trace_dir=None):
        self.casc = CASC[casc]
        self.ps, self.cs = names(c)
        self.nullable = c["Nullable"]
        self.uni = c.get("Uni", False)
        self.kind = c.get("Kind", '"list"').strip('"')
        self.trace_dir = trace_dir

    def __call__(self, wid, workdir):
        from checks.ormgraph_driver import Driver
        sink = None
        if self.trace_dir:
            sink = _Sink(os.path.join(self.trace_dir, "trace-w%d.jsonl" % wid))
        return Driver(wid, workdir, self.casc, self.ps, self.cs, nullable=self.nullable, trace_sink=sink, uni=self.uni, kind=self.kind)


class _Sink:
    """append-only JSON-lines sink for flush traces (one file per replay worker)"""

    def __init__(self, path):
        import json
        self.json = json
        os.makedirs(os.path.dirname(path), exist_ok=True)
        self.f = open(path, "a")

    def append(self, rec):
        self.f.write(self.json.dumps(rec) + "\n")
        self.f.flush()


def replay(chk, g, walks, casc, c, tag="replay", trace_dir=None):
    steps, mism = graph.replay(g, walks, MakeDriver(casc, c, trace_dir), os.path.join(chk.work, tag), nproc=16)
    return steps, mism


def report_mismatches(chk, mism, casc, extra=None):
    for m in mism:
        act = m["act"] if isinstance(m["act"], dict) else {"a": m["act"]}
        sig = {"spec": "OrmGraph", "kind": "conformance", "action": act.get("a"), "casc": casc, "ret": act.get("ret")}
        if extra:
            sig.update(extra)
        chk.violation(sig, "real ORM diverges from OrmGraph.tla (cascade=%s) at %s%s: %s" % (
            casc, act.get("a"), tuple(act.get("arg", ())), m["mismatch"]), m)


# ====================================================================== suite runner shared by the five checks
def _job(args):
    kind, chk, d, workers = args
    import time
    t0 = time.time()
    try:
        if kind == "dump":
            r = dump(chk, d["consts"], invs=d.get("invs", ()), props=d.get("props", ()), tag="dump-" + d["name"], timeout=d.get("timeout", 1500))
        elif kind == "deep":
            r = check_only(chk, d["consts"], d.get("invs", ()), d.get("props", ()), workdir=os.path.join(chk.work, "deep-" + d["name"]), workers=workers)
        else:
            r = check_only(chk, d["consts"], [d["inv"]] if d.get("inv") else [], [d["prop"]] if d.get("prop") else [],
                           workdir=os.path.join(chk.work, "expose-" + d["name"]), workers=workers)
    except Exception as e:  # surfaced by the caller as machinery failure
        r = e
    return r, round(time.time() - t0, 1)


def run_suite(chk, rng, configs, footprint, deep=(), expose=(), nontrivial=None, trace_dir=None):
    """configs: [{name, casc, consts, invs, props, maxlen, nrandom}] -> edge dump (TLC checks invs/props on the same run), vacuity,
    edge-covering walks (+CommitReload drain), replay against the real ORM.
    deep: [{name, casc, consts, invs, props}] TLC-only runs.
    expose: [{name, casc, consts, inv|prop, sig, what}] properties EXPECTED to be violated by a known defect (reported through
    chk.violation so that only a matching known-finding entry keeps the exit code at 0).
    All TLC jobs run concurrently (each with few workers), then the replays run one after the other on all cores."""
    import time
    from concurrent.futures import ThreadPoolExecutor
    t0 = time.time()
    timing = {}
    stats = dict(states=0, transitions=0, edges=0, walks=0, steps=0, deep_states=0, deep_transitions=0, nontrivial=0, per_config={}, timing=timing)
    samples = []
    cov_total = {}
    jobs = [("dump", chk, c, 1) for c in configs] + [("deep", chk, d, max(2, tlc.NPROC // 4)) for d in deep] + \
           [("expose", chk, x, 2) for x in expose]
    par = max(1, min(len(jobs), tlc.NPROC // 2))
    with ThreadPoolExecutor(par) as ex:
        results = list(ex.map(_job, jobs))
    timing["tlc_all_jobs"] = round(time.time() - t0, 1)
    for (kind, _, d, _), (r, dt) in zip(jobs, results):
        timing[kind + "-" + d["name"]] = dt
        if isinstance(r, Exception):
            chk.machinery("TLC %s job failed for %s: %s" % (kind, d["name"], r))
    graphs = [r for (kind, _, _, _), (r, _) in zip(jobs, results) if kind == "dump"]
    deep_r = [r for (kind, _, _, _), (r, _) in zip(jobs, results) if kind == "deep"]
    expose_r = [r for (kind, _, _, _), (r, _) in zip(jobs, results) if kind == "expose"]
    from checks.ormgraph_driver import mapping
    for cfgd in configs:   # import sqlalchemy and configure the mappers once, before the replay workers fork
        mapping(CASC[cfgd["casc"]], cfgd["consts"]["Nullable"], cfgd["consts"].get("Uni", False), cfgd["consts"].get("Kind", '"list"').strip('"'))
    for cfgd, g in zip(configs, graphs):
        r = g.tlc
        if r.violated:
            chk.violation({"spec": "OrmGraph", "action": "TLC", "invariant": str(r.violated), "casc": cfgd["casc"], "config": cfgd["name"]},
                          "TLC: %s violated in OrmGraph.tla (config %s)" % (r.violated, cfgd["name"]))
        cov = action_counts(g)
        for a in cfgd.get("footprint", footprint):
            if not cov.get(a):
                chk.machinery("vacuous: action %s never taken in config %s" % (a, cfgd["name"]))
        for a, n in cov.items():
            cov_total[a] = cov_total.get(a, 0) + n
        walks, info = plan(g, cfgd["maxlen"], rng, cfgd.get("nrandom", 0))
        t1 = time.time()
        steps, mism = replay(chk, g, walks, cfgd["casc"], cfgd["consts"], tag="replay-" + cfgd["name"],
                             trace_dir=trace_dir.get(cfgd["name"]) if isinstance(trace_dir, dict) else trace_dir)
        timing["replay-" + cfgd["name"]] = round(time.time() - t1, 1)
        report_mismatches(chk, mism, cfgd["casc"], {"config": cfgd["name"]})
        nt = sum(1 for e in g.edges if nontrivial(g.states[e[0]], e[1], g.states[e[2]])) if nontrivial else 0
        stats["states"] += r.distinct
        stats["transitions"] += r.generated
        stats["edges"] += len(g.edges)
        stats["walks"] += len(walks)
        stats["steps"] += steps
        stats["nontrivial"] += nt
        stats["per_config"][cfgd["name"]] = dict(states=r.distinct, transitions=r.generated, edges=len(g.edges), walks=len(walks), steps=steps,
                                                 mismatches=len(mism), nontrivial=nt, depth=r.depth, plan=info)
        if walks:
            samples.append({"config": cfgd["name"], "walk": fmt_walk(g, walks[len(walks) // 2])})
    for d, r in zip(deep, deep_r):
        if r.violated:
            chk.violation({"spec": "OrmGraph", "action": "TLC", "invariant": str(r.violated), "casc": d["casc"], "config": d["name"]},
                          "TLC: %s violated in OrmGraph.tla (config %s)" % (r.violated, d["name"]))
        stats["deep_states"] += r.distinct
        stats["deep_transitions"] += r.generated
        stats["per_config"][d["name"]] = dict(states=r.distinct, transitions=r.generated, depth=r.depth, tlc_only=True)
    for x, r in zip(expose, expose_r):
        stats["per_config"][x["name"]] = dict(states=r.distinct, transitions=r.generated, violated=str(r.violated), expected_violation=True)
        if r.violated:
            sig = {"spec": "OrmGraph", "action": "TLC", "invariant": x.get("inv") or x.get("prop"), "casc": x["casc"]}
            sig.update(x.get("sig", {}))
            chk.violation(sig, x["what"])
    stats["per_config"]["_timing_s"] = timing
    stats["action_coverage"] = cov_total
    stats["samples"] = samples
    return stats



# ====================================================================== many-to-many pair with flush / reload (OrmManyToMany.tla)
MM_MEM = ["Append", "Insert", "Remove", "Pop", "Replace", "SetItem", "Reverse"]


def run_mm(chk, rng, st, name, bidir, acts, depth, invs, props=(), init="both", nl=2, nr=2, nrandom=100, footprint=None):
    """dump + replay of one OrmManyToMany configuration; accumulates into the stats dict `st` of run_suite"""
    ls = ["l%d" % i for i in range(1, nl + 1)]
    rs = ["r%d" % i for i in range(1, nr + 1)]
    consts = dict(Ls=set(tlc.q(x) for x in ls), Rs=set(tlc.q(x) for x in rs), Bidir=bidir, Acts=set(tlc.q(a) for a in acts),
                  InitMode=tlc.q(init), MaxDepth=depth)
    cfgt = tlc.cfg(constants=consts, init="InitEmit", invariants=list(invs), properties=list(props), view="View",
                   action_constraints=["Emit"], constraints=["Depth"])
    g = graph.dump("OrmManyToMany", cfgt, os.path.join(chk.work, "dump-" + name), timeout=1500)
    r = g.tlc
    if r.violated:
        chk.violation({"spec": "OrmManyToMany", "action": "TLC", "invariant": str(r.violated), "config": name},
                      "TLC: %s violated in OrmManyToMany.tla (config %s)" % (r.violated, name))
    cov = action_counts(g)
    for a in (footprint or acts):
        if not cov.get(a):
            chk.machinery("vacuous: action %s never taken in OrmManyToMany config %s" % (a, name))
    walks, info = graph.plan_tours(g, depth, rng)
    walks += graph.random_walks(g, nrandom, depth, rng)
    ext = []
    for w in walks:     # drain: end with commit + reload when the last state has that edge
        last = g.edges[w[-1]]
        if last[1]["a"] != "CommitReload":
            for ei in g.out[last[2]]:
                if g.edges[ei][1]["a"] == "CommitReload":
                    w = w + [ei]
                    break
        ext.append(w)
    walks = ext
    from checks.ormgraph_driver import DriverMM, mappingmm
    mappingmm(bidir)
    steps, mism = graph.replay(g, walks, lambda wid, wd: DriverMM(wid, wd, ls, rs, bidir), os.path.join(chk.work, "replay-" + name), nproc=16)
    for m in mism:
        act = m["act"] if isinstance(m["act"], dict) else {"a": m["act"]}
        chk.violation({"spec": "OrmManyToMany", "kind": "conformance", "action": act.get("a"), "config": name, "ret": act.get("ret")},
                      "real many-to-many pair (%s) diverges from OrmManyToMany.tla at %s%s: %s" % (
                          "bidirectional" if bidir else "unidirectional", act.get("a"), tuple(act.get("arg", ())), m["mismatch"]), m)
    st["states"] += r.distinct
    st["transitions"] += r.generated
    st["edges"] += len(g.edges)
    st["walks"] += len(walks)
    st["steps"] += steps
    nt = sum(1 for e in g.edges if e[1]["a"] in ("Flush", "CommitReload") and len(e[1]["dml"]) > 0) if "Flush" in acts else \
        sum(1 for e in g.edges if e[1]["a"] in ("Remove", "Pop", "Replace", "SetItem", "Reverse"))
    st["nontrivial"] += nt
    st["per_config"][name] = dict(states=r.distinct, transitions=r.generated, edges=len(g.edges), walks=len(walks), steps=steps,
                                  mismatches=len(mism), depth=r.depth, plan=info, nontrivial=nt, action_coverage=cov)
    if walks:
        st["samples"].append({"config": name, "walk": fmt_walk(g, walks[len(walks) // 2])})
