"""C21 generated and truncated names are bounded, deterministic and unique - LexersTrunc.tla (DESIGN 3.12, 4 C21).

TLC: (ddl) every naming-convention template x name lengths around the limit x the dialect's three limits (max_identifier_length in
{8, 12, 30}, and 30 with a tighter max_index_name_length and / or max_constraint_name_length in either order): an index name never
exceeds the index limit, a constraint name never the constraint limit (each falling back to the identifier limit), truncated only
when needed and only when generated (DdlBounded, DdlFaithful);
(stmt) SQLCompiler._truncated_identifier + prefix_anon_map as a machine processing the naming requests of every statement of up
to MaxItems items (table-qualified labels, anonymous labels, anonymous aliases, anonymous binds) under label_length in {6, 8, 12}:
Bounded, Distinct, SameElementSameName, KeptWhenShort at every step, Stable as an action property; (trace, code -> spec) the names
of larger real compilations satisfy Bounded / Distinct.
Binding: every ddl case is built with MetaData(naming_convention=...) and formatted / compiled on 5 dialects (constraint name ==
Expand, rendered name == the specification's, IdentifierError exactly where the specification says), twice and on fresh objects,
and executed on SQLite (reflection returns the rendered name); every stmt case is compiled on 5 dialects with the label_length,
twice and on fresh objects: every label / alias / bind name must EQUAL the machine's, and runs on SQLite.
"""
import json
import os
import random

from engine import tlc

LEVEL = "model_checking"
MANIFEST = dict(
    text="LexersTrunc.tla: (a) naming-convention expansion and IdentifierPreparer._truncate_and_render_maxlen_name for 8 convention "
         "templates + explicit index / constraint names x name lengths {1,3,9,14(,27,40)} x (max_identifier_length, max_index_name_length, "
         "max_constraint_name_length) in {8, 12, 30, 30/10/-, 30/-/10, 30/10/24, 30/24/10 (+128/40/24 ... thorough)}: TLC checks index names are "
         "bounded by the index limit and constraint names by the constraint limit (fallback: identifier limit) and truncated exactly when "
         "generated and too long; (b) SQLCompiler._truncated_identifier with the anonymous-name map as "
         "a state machine over every statement of <=2 (quick) / <=3 (thorough) items (qualified labels, anonymous labels, aliases, binds; "
         "names sharing long prefixes) and label_length {6,8,12}: names bounded, distinct per class for distinct elements, stable once "
         "given. Every case is compiled on SQLite/PostgreSQL/MySQL/MSSQL/Oracle dialects, twice and with fresh objects; constraint, index, "
         "label, alias and bind names must equal the specification's; DDL and statements execute on SQLite and the names come back by "
         "reflection / as result keys. Names of larger random compilations are validated by TLC as traces.",
    design_ref="3.12, 4 (C21)",
    note="trusted: TLC; the 4-hex-digit hash suffix is uninterpreted in the specification (the binding computes md5 itself); explicit "
         "(user-chosen) label / bind names are outside the property: only generated names are modelled; label_length < 6 and "
         "max_identifier_length < 8 are outside the supported range (TLC shows the bound breaks there)",
    technique="TLA+ spec (LexersTrunc.tla) + TLC: exhaustive cases (ddl), state machine with invariants and an action property (stmt), "
              "trace validation (trace); spec->code replay of every case on 5 dialects")

CONV = {
    "ix": {"ix": "ix_%(table_name)s_%(column_0_name)s"},
    "ixlabel": {"ix": "ix_%(column_0_label)s"},
    "uq": {"uq": "uq_%(table_name)s_%(column_0_name)s"},
    "uqN": {"uq": "uq_%(table_name)s_%(column_0N_name)s"},
    "uq_N": {"uq": "uq_%(table_name)s_%(column_0_N_name)s"},
    "ck": {"ck": "ck_%(table_name)s_%(constraint_name)s"},
    "fk": {"fk": "fk_%(table_name)s_%(column_0_name)s_%(referred_table_name)s"},
    "pk": {"pk": "pk_%(table_name)s"},
    "explicit": {},
    "explicituq": {},
}


def _dialect(name, max_len=None, label_length=None, ix=0, ck=0):
    from sqlalchemy.dialects import mssql, mysql, oracle, postgresql, sqlite
    cls = dict(sqlite=sqlite.dialect, postgresql=postgresql.dialect, mysql=mysql.dialect, mssql=mssql.dialect, oracle=oracle.dialect)[name]
    d = cls(label_length=label_length) if label_length else cls()
    if max_len:
        d.max_identifier_length = max_len
        d.max_index_name_length = ix or None
        d.max_constraint_name_length = ck or None
    return d


DIALECTS = ["sqlite", "postgresql", "mysql", "mssql", "oracle"]


def build_ddl(case):
    """-> (metadata, constraint-or-index, kind of object)"""
    import sqlalchemy as sa
    tn, c1 = "t" * case["lt"], "c" * case["lc"]
    c2 = c1 + "x"
    md = sa.MetaData(naming_convention=CONV[case["tmpl"]])
    ref = sa.Table("r" * case["lr"], md, sa.Column("id", sa.Integer, primary_key=True))
    tmpl = case["tmpl"]
    if tmpl == "explicit":
        t = sa.Table("tt", md, sa.Column("id", sa.Integer, primary_key=True), sa.Column("v", sa.Integer))
        return md, t, sa.Index("e" * case["lt"], t.c.v), "index"
    if tmpl == "explicituq":
        t = sa.Table("tt", md, sa.Column("id", sa.Integer, primary_key=True), sa.Column("v", sa.Integer))
        obj = sa.UniqueConstraint(t.c.v, name="e" * case["lt"])
        t.append_constraint(obj)
        return md, t, obj, "uq"
    cols = [sa.Column("id", sa.Integer, primary_key=(tmpl != "pk")), sa.Column(c1, sa.Integer, primary_key=(tmpl == "pk")), sa.Column(c2, sa.Integer)]
    t = sa.Table(tn, md, *cols)
    if tmpl in ("ix", "ixlabel"):
        return md, t, sa.Index(None, t.c[c1]), "index"
    if tmpl == "uq":
        obj = sa.UniqueConstraint(t.c[c1])
    elif tmpl in ("uqN", "uq_N"):
        obj = sa.UniqueConstraint(t.c[c1], t.c[c2])
    elif tmpl == "ck":
        obj = sa.CheckConstraint(t.c[c1] > 0, name="k" * case["lr"])
    elif tmpl == "fk":
        obj = sa.ForeignKeyConstraint([t.c[c1]], [ref.c.id])
    elif tmpl == "pk":
        return md, t, t.primary_key, "pk"
    t.append_constraint(obj)
    return md, t, obj, tmpl[:2]


def _wipe(eng):
    import sqlite3
    eng.dispose()
    con = sqlite3.connect(eng.url.database)
    for typ, name in con.execute("SELECT type, name FROM sqlite_master WHERE type = 'table' AND name NOT LIKE 'sqlite_%'").fetchall():
        con.execute('DROP TABLE IF EXISTS "%s"' % name)
    con.commit()
    con.close()


def replay_ddl(chk, cases, rng):
    import sqlalchemy as sa
    from sqlalchemy import util
    from sqlalchemy.schema import CreateIndex, CreateTable
    n = nontriv = nexec = 0
    samples = []
    engines = {}
    for case in cases:
        name = "".join(case["name"])
        text = "".join(case["text"])
        kind = case["kind"]
        want = name if kind == "ok" else (text + "_" + util.md5_hex(name)[-4:]) if kind == "trunc" else None
        if kind != "ok":
            nontriv += 1
        eff = case["eff"]           # the limit of this kind of name: index / constraint limit, else the identifier limit
        sig = dict(spec="LexersTrunc", mode="ddl", tmpl=case["tmpl"], kind=kind, max=case["max"], ixmax=case["ixmax"], ckmax=case["ckmax"],
                   over=len(name) - eff if len(name) > eff else 0,
                   explicit_between=case["tmpl"] in ("explicit", "explicituq") and eff < len(name) <= case["max"])
        results = set()
        for dn in DIALECTS:
            for attempt in (0, 1):            # fresh objects each time: the name is a function of its inputs
                md, t, obj, what = build_ddl(case)
                d = _dialect(dn, max_len=case["max"], ix=case["ixmax"], ck=case["ckmax"])
                p = d.identifier_preparer
                n += 1
                if str(obj.name) != name and what != "pk" or (what == "pk" and str(obj.name) != name):
                    chk.violation(dict(sig, action="naming_convention", dialect=dn), "convention %s gives %r, specification %r"
                                  % (case["tmpl"], str(obj.name), name), dict(case=case, got=str(obj.name)))
                    continue
                try:
                    got = p.format_constraint(obj)
                    got2 = p.format_constraint(obj)
                except sa.exc.IdentifierError:
                    got = got2 = None
                try:
                    ddl = str(CreateIndex(obj).compile(dialect=d)) if what == "index" else str(CreateTable(t).compile(dialect=d))
                except sa.exc.IdentifierError:
                    ddl = None
                if (ddl is None) != (kind == "error"):
                    chk.violation(dict(sig, action="ddl_refusal", dialect=dn), "%s: CREATE statement %s, specification: %s"
                                  % (dn, "refused (IdentifierError)" if ddl is None else "compiled", kind), dict(case=case))
                raw = None if got is None else p.format_constraint(obj, _alembic_quote=False)
                if got != got2:
                    chk.violation(dict(sig, action="format_constraint_twice", dialect=dn), "%r then %r" % (got, got2), dict(case=case))
                # the rendered name is quoted when the dialect requires it (Oracle: a leading underscore); quoting itself is C06's subject
                if raw != want or (want is not None and got != p.quote(want)):
                    chk.violation(dict(sig, action="format_constraint", dialect=dn),
                                  "%s limits identifier/index/constraint=%d/%d/%d: %s name %r (%d chars) rendered as %r, specification %r"
                                  % (dn, case["max"], case["ixmax"], case["ckmax"], what, name, len(name), got, want), dict(case=case, got=got, want=want, dialect=dn))
                if raw is not None and len(raw) > eff:
                    chk.violation(dict(sig, action="bounded", dialect=dn), "%s: rendered name %r has %d characters, limit %d"
                                  % (dn, raw, len(raw), eff), dict(case=case, got=raw))
                if want is not None and ddl is not None and not (" %s " % got in ddl or " %s\n" % got in ddl or " %s(" % got in ddl):
                    chk.violation(dict(sig, action="ddl_text", dialect=dn), "%s: DDL does not carry the name %r: %s" % (dn, want, " ".join(ddl.split())[:200]),
                                  dict(case=case, ddl=ddl))
                results.add(raw)
        if len(results) != 1:
            chk.violation(dict(sig, action="same_on_every_dialect"), "rendered differently: %r" % sorted(map(str, results)), dict(case=case))
        # ---- execution on SQLite with this max_identifier_length
        ekey = (case["max"], case["ixmax"], case["ckmax"])
        eng = engines.get(ekey)
        if eng is None:
            eng = engines[ekey] = sa.create_engine("sqlite:///" + os.path.join(chk.work, "c21_%d_%d_%d.db" % ekey), max_identifier_length=case["max"])
            eng.dialect.max_index_name_length = case["ixmax"] or None
            eng.dialect.max_constraint_name_length = case["ckmax"] or None
        if case["tmpl"] not in ("explicit", "explicituq") and (case["lt"] > case["max"] or case["lr"] > case["max"]):
            continue            # create_all refuses the TABLE name (an explicit identifier, outside this property)
        md, t, obj, what = build_ddl(case)
        try:
            md.create_all(eng)
            err = None
        except sa.exc.IdentifierError as ex:
            err = ex
        nexec += 1
        if (err is not None) != (kind == "error"):
            chk.violation(dict(sig, action="create_all"), "create_all %s, specification says %s" % ("raised IdentifierError" if err else "succeeded", kind),
                          dict(case=case))
        elif err is None:
            insp = sa.inspect(eng)
            if what == "index":
                names = [i["name"] for i in insp.get_indexes(t.name)]
            elif what == "uq":
                names = [u["name"] for u in insp.get_unique_constraints(t.name)]
            elif what == "ck":
                names = [c["name"] for c in insp.get_check_constraints(t.name)]
            elif what == "fk":
                names = [f["name"] for f in insp.get_foreign_keys(t.name)]
            else:
                names = [insp.get_pk_constraint(t.name)["name"]]
            if names != [want]:
                chk.violation(dict(sig, action="reflect"), "SQLite holds %r, specification %r" % (names, want), dict(case=case, got=names))
        if err is None:
            md.drop_all(eng)
        else:
            _wipe(eng)
        if kind == "trunc" and len(samples) < 3:
            samples.append(dict(case={k: case[k] for k in ("tmpl", "lt", "lc", "lr", "max", "ixmax", "ckmax")}, name=name, rendered=want))
    for e in engines.values():
        e.dispose()
    return n, nontriv, nexec, samples


COLS = ["c", "ccc", "ccccccc", "cccccccx"]


def build_stmt(items):
    """-> (select, {e: element}) where e = (pos, 'label'|'bind') or (0, 'alias')"""
    import sqlalchemy as sa
    t = sa.table("tt", *[sa.column(c, sa.Integer) for c in COLS])
    a = t.alias()
    cols, where, elems = [], [], {}
    for pos, it in enumerate(items, 1):
        c = "".join(it["c"])
        k = it["k"]
        if k == "col":
            cols.append(t.c[c])
        elif k == "acol":
            cols.append(a.c[c])
        elif k == "expr":
            e = (t.c[c] + 1).label(None)
            cols.append(e)
            elems[(pos, "bind")] = e.element.right
        elif k == "whr":
            cr = t.c[c] == 5
            where.append(cr)
            elems[(pos, "bind")] = cr.right
        elif k == "awhr":
            cr = a.c[c] == 5
            where.append(cr)
            elems[(pos, "bind")] = cr.right
    if not cols:
        cols.append(sa.literal_column("1"))
    stmt = sa.select(*cols).where(*where).set_label_style(sa.LABEL_STYLE_TABLENAME_PLUS_COL)
    elems[(0, "alias")] = a
    return stmt, elems, [k["k"] for k in items]


def names_of(compiled, elems, kinds):
    """{e: name} as the compilation rendered them"""
    out = {}
    sel = [i for i, k in enumerate(kinds, 1) if k in ("col", "acol", "expr")]
    rc = compiled._result_columns
    for pos, r in zip(sel, rc):
        out[(pos, "label")] = r.keyname
    for e, el in elems.items():
        if e[1] == "bind":
            out[e] = compiled.bind_names[el]
        elif e[1] == "alias":
            nm = compiled.truncated_names.get(("alias", el.name))
            if nm is not None:
                out[e] = nm
    return out


def replay_stmt(chk, cases, rng):
    import sqlalchemy as sa
    n = nontriv = nexec = 0
    samples = []
    engines = {}
    for case in cases:
        L = case["L"]
        want = {}
        trunc = False
        for nm in case["names"]:
            want[(nm["e"][0], nm["e"][1])] = "".join(nm["name"])
            trunc = trunc or nm["name"] != nm["anon"]
        if trunc:
            nontriv += 1
        kinds = [it["k"] for it in case["items"]]
        sig = dict(spec="LexersTrunc", mode="stmt", L=L, kinds="+".join(kinds), truncates=trunc)
        texts = set()
        for dn in DIALECTS:
            d = _dialect(dn, label_length=L)
            for attempt in (0, 1):
                stmt, elems, _ = build_stmt(case["items"])
                n += 1
                try:
                    c1 = stmt.compile(dialect=d)
                except sa.exc.CompileError as ex:
                    chk.violation(dict(sig, action="compile", dialect=dn, error="CompileError"), "%s label_length=%d items %s does not compile: %s"
                                  % (dn, L, [(it["k"], "".join(it["c"])) for it in case["items"]], ex), dict(case=case, dialect=dn))
                    break
                got = names_of(c1, elems, kinds)
                if got != want:
                    diff = {str(k): (got.get(k), want.get(k)) for k in set(got) | set(want) if got.get(k) != want.get(k)}
                    chk.violation(dict(sig, action="names", dialect=dn), "%s label_length=%d items %s: names (got, specification) differ: %r"
                                  % (dn, L, [(it["k"], "".join(it["c"])) for it in case["items"]], diff),
                                  dict(case=case, dialect=dn, got={str(k): v for k, v in got.items()}))
                    break
                c2 = stmt.compile(dialect=_dialect(dn, label_length=L))
                if str(c1) != str(c2) or names_of(c2, elems, kinds) != got:
                    chk.violation(dict(sig, action="recompile", dialect=dn), "second compilation differs: %s / %s" % (c1, c2), dict(case=case))
                if dn == "sqlite":
                    texts.add(str(c1))
            long_ = [v for v in got.values() if len(v) > L]
            if long_:
                chk.violation(dict(sig, action="bounded", dialect=dn), "names longer than label_length=%d: %r" % (L, long_), dict(case=case))
        if len(texts) > 1:
            chk.violation(dict(sig, action="fresh_objects"), "statement text depends on object identity: %r" % sorted(texts), dict(case=case))
        # ---- the statement runs on SQLite and the result keys are the label names
        eng = engines.get(L)
        if eng is None:
            eng = engines[L] = sa.create_engine("sqlite://", label_length=L)
            with eng.begin() as conn:
                conn.exec_driver_sql("CREATE TABLE tt (%s)" % ", ".join("%s INTEGER" % c for c in COLS))
                conn.exec_driver_sql("INSERT INTO tt VALUES (5, 5, 5, 5)")
        stmt, elems, _ = build_stmt(case["items"])
        try:
            with eng.connect() as conn:
                res = conn.execute(stmt)
                keys = list(res.keys())
                rows = res.all()
        except sa.exc.SQLAlchemyError as ex:
            chk.violation(dict(sig, action="execute", error=type(ex).__name__), "SQLite execution fails: %s" % str(ex).splitlines()[0][:200], dict(case=case))
            continue
        nexec += 1
        labels = [want[(pos, "label")] for pos, k in enumerate(kinds, 1) if k in ("col", "acol", "expr")]
        if labels and keys != labels:
            chk.violation(dict(sig, action="result_keys"), "result keys %r, specification %r" % (keys, labels), dict(case=case))
        if len(rows) != 1:
            chk.violation(dict(sig, action="rows"), "statement returned %d rows" % len(rows), dict(case=case))
        if trunc and len(samples) < 3 and len(case["items"]) > 1:
            samples.append(dict(L=L, items=[(it["k"], "".join(it["c"])) for it in case["items"]], names={str(k): v for k, v in want.items()}))
    return n, nontriv, nexec, samples


def record_traces(chk, rng, count, path):
    """compile larger random statements and record every generated name -> ndjson for TLC (mode trace)"""
    import sqlalchemy as sa
    n = 0
    with open(path, "w") as f:
        for i in range(count):
            dn = rng.choice(DIALECTS)
            L = rng.choice([8, 10, 12, 20, 30, None])
            d = _dialect(dn, max_len=30 if L is None else None, label_length=L)
            effL = L or d.max_identifier_length
            tabs = []
            for tn in rng.sample(["a", "a_b", "tab" * 4, "t" * 9, "orders_archive_2024"], 3):
                colnames = rng.sample(["c", "b_c", "id", "x" * 12, "x" * 12 + "y", "customer_identifier", "customer_identifiez", "a_b_c"], 5)
                tabs.append(sa.table(tn, *[sa.column(c, sa.Integer) for c in colnames]))
            froms = tabs + [rng.choice(tabs).alias(), rng.choice(tabs).alias()]
            cols, ids = [], []
            for j in range(rng.randint(4, 14)):
                fr = rng.choice(froms)
                c = rng.choice(list(fr.c))
                r = rng.random()
                if r < 0.6:
                    cols.append(c)
                elif r < 0.8:
                    cols.append((c + rng.randint(1, 9)).label(None))
                else:
                    cols.append(sa.func.max(c).label(None))
            where = [rng.choice(list(rng.choice(froms).c)) == rng.randint(1, 99) for _ in range(rng.randint(0, 5))]
            stmt = sa.select(*cols).where(*where).set_label_style(rng.choice([sa.LABEL_STYLE_TABLENAME_PLUS_COL, sa.LABEL_STYLE_DISAMBIGUATE_ONLY]))
            try:
                comp = stmt.compile(dialect=d)
            except sa.exc.CompileError as ex:
                # generated names that collide are refused by the compiler: still two elements under one name
                chk.violation(dict(spec="LexersTrunc", mode="trace", action="compile", error="CompileError", dialect=dn, L=effL),
                              "a statement of generated names only does not compile with label_length=%s on %s: %s" % (L, dn, ex), dict(error=str(ex)))
                continue
            names = []
            seen_cols = {}
            for j, r in enumerate(comp._result_columns):
                # the same column selected twice is one element only if it got the same label: every result column is its own element
                names.append(dict(cls="colident", e="col%d" % j, name=list(r.keyname)))
            for bp, nm in comp.bind_names.items():
                names.append(dict(cls="bindparam", e="bind%d" % id(bp), name=list(nm)))
            for (cls, key), nm in comp.truncated_names.items():
                if cls == "alias":
                    names.append(dict(cls="alias", e="alias:" + str(key), name=list(nm)))
            # only generated names are subject to label_length: drop plain column names used as keys without a label
            gen = [x for x in names if not (x["cls"] == "colident" and len(x["name"]) > effL and "".join(x["name"]) in
                                            {c.name for fr in froms for c in fr.c})]
            f.write(json.dumps(dict(L=effL, names=gen, dialect=dn, sql=" ".join(str(comp).split())[:300])) + "\n")
            n += 1
    return n


def main(chk):
    import warnings
    import sqlalchemy as sa
    warnings.filterwarnings("ignore", category=sa.exc.SAWarning)
    rng = random.Random(chk.seed)
    name_lens = {1, 3, 9, 14} if chk.quick else {1, 3, 9, 14, 27, 40}
    def lim(idmax, ix=0, ck=0):
        return idmax * 1000000 + ix * 1000 + ck
    # (identifier, index, constraint) limits: the identifier limit alone; then a tighter index limit, a tighter constraint limit, both in
    # either order (MySQL style: 255 / 64 / 64 scaled down) - so that using the wrong one of the three is visible
    limits = {lim(8), lim(12), lim(30), lim(30, 10, 0), lim(30, 0, 10), lim(30, 10, 24), lim(30, 24, 10)}
    if not chk.quick:
        limits |= {lim(128, 40, 24), lim(128, 0, 24), lim(64, 12, 12), lim(12, 8, 0), lim(12, 0, 8)}
    consts = dict(MaxIdLens=limits, NameLens=name_lens, LabelLens={6, 8, 12}, MaxItems=2 if chk.quick else 3)
    runs = []
    # ---- ddl
    cfg1 = tlc.cfg(constants=dict(consts, Mode=tlc.q("ddl")), invariants=["DdlBounded", "DdlFaithful"])
    cfg2 = tlc.cfg(constants=dict(consts, Mode=tlc.q("stmt")), invariants=["Bounded", "Distinct", "SameElementSameName", "KeptWhenShort"],
                   properties=["Stable"])
    # non-vacuity: below the supported range the bound must break in the specification
    cfg3 = tlc.cfg(constants=dict(consts, Mode=tlc.q("ddl"), MaxIdLens={lim(6), lim(30, 0, 6)}), invariants=["DdlBounded"])
    cfg4 = tlc.cfg(constants=dict(consts, Mode=tlc.q("stmt"), LabelLens={1}, MaxItems=1), invariants=["Bounded"])
    trace_path = os.path.join(chk.work, "traces.ndjson")
    ntraces = record_traces(chk, rng, 150 if chk.quick else 1500, trace_path)
    cfg5 = tlc.cfg(constants=dict(consts, Mode=tlc.q("trace")), invariants=["Bounded", "Distinct", "SameElementSameName"])
    from concurrent.futures import ThreadPoolExecutor
    env = {"TRUNC_TRACES": trace_path}
    jobs = [("ddl", cfg1, []), ("stmt", cfg2, []), ("ddl-below-range", cfg3, []), ("stmt-below-range", cfg4, []), ("trace", cfg5, ["-continue"])]
    with ThreadPoolExecutor(max_workers=max(1, min(5, tlc.NPROC))) as ex:
        futs = {tag: ex.submit(tlc.run, "LexersTrunc", cfg, os.path.join(chk.work, "tlc-" + tag), 1, 900 if chk.quick else 3000,
                               env=env, extra=extra, keep_stdout=False) for tag, cfg, extra in jobs}
        res = {tag: f.result() for tag, f in futs.items()}
    for tag in ("ddl", "stmt"):
        if res[tag].violated:
            chk.violation(dict(spec="LexersTrunc", action="TLC", mode=tag, invariant=res[tag].violated),
                          "TLC: %s violated in LexersTrunc.tla (%s)" % (res[tag].violated, tag))
    for tag in ("ddl-below-range", "stmt-below-range"):
        if not res[tag].violated:
            chk.machinery("vacuous: %s does not violate the bound in the specification" % tag)
    if res["trace"].violated:
        chk.violation(dict(spec="LexersTrunc", action="TLC", mode="trace", invariant=res["trace"].violated),
                      "TLC: %s violated by names recorded from real compilations (%s)" % (res["trace"].violated, trace_path),
                      dict(traces=open(trace_path).read()[:20000]))
    if res["trace"].distinct != ntraces:
        chk.machinery("trace mode: %d traces written, TLC saw %d" % (ntraces, res["trace"].distinct))
    ddl_cases = res["ddl"].json
    stmt_cases = [c for c in res["stmt"].json if "names" in c]
    if not ddl_cases or not stmt_cases:
        chk.machinery("TLC printed no cases")
    kinds = {c["kind"] for c in ddl_cases}
    if kinds != {"ok", "trunc", "error"}:
        chk.machinery("vacuous: ddl cases cover only %s" % kinds)
    n1, nt1, ex1, s1 = replay_ddl(chk, ddl_cases, rng)
    n2, nt2, ex2, s2 = replay_stmt(chk, stmt_cases, rng)
    if not nt2:
        chk.machinery("vacuous: no statement case truncates a name")
    states = sum(r.distinct for r in res.values())
    trans = sum(r.generated for r in res.values())
    return chk.finish(
        dict(states=states, transitions=trans, traces_validated_against_impl=n1 + n2, traces_validated_by_tlc=ntraces,
             evaluations=n1 + n2 + ex1 + ex2, sqlite_executions=ex1 + ex2, distinct_nontrivial=nt1 + nt2,
             ddl_cases=len(ddl_cases), stmt_cases=len(stmt_cases), samples=s1 + s2,
             tlc_runs={tag: dict(distinct=r.distinct, generated=r.generated, violated=r.violated, wall_s=round(r.wall, 1)) for tag, r in res.items()},
             exhaustive=True,
             rule="ddl: one case per (template, name lengths, max_identifier_length) initial state, non-trivial = truncated or refused; stmt: one "
                  "case per (label_length, item sequence) terminal state of the naming machine, non-trivial = at least one name truncated; "
                  "every case compiled twice + with fresh objects on 5 dialects and executed on SQLite",
             checker_cmd="tlc LexersTrunc.tla (Mode ddl | stmt | trace)"),
        assumptions=["hash suffix of truncated constraint names uninterpreted in the specification (computed with md5 by the binding)",
                     "only generated names (conventions, table-qualified / anonymous labels, anonymous aliases and binds) are in the property's domain",
                     "max_identifier_length >= 8 and label_length >= 6 (TLC shows the bound fails below)"])
