"""C54 utility collections conform to their reference models - PyCollections.tla (DESIGN 3.10, 4 "C49, C50, C54").

* OrderedSet     reference = sequence without duplicates (ApplyOSet); TLC checks OSetCaseOK: same MEMBERS as the plain-set
                 operation (ApplySet, itself calibrated against the builtin set) and first-insertion ORDER (survivors keep their
                 order, newcomers follow in first-occurrence order of the argument) for every operator / in-place update and
                 every argument kind (set, list with duplicates, iterator, another OrderedSet).
* IdentitySet    reference = the plain set model over labels of objects that are all == and hash alike.
* immutabledict  IDictCaseOK: nothing ever changes the dict, every mutator raises TypeError, union / merge_with / | / reflected |
                 return exactly the last-writer-wins merge and mutate neither self nor the arguments.
* LRUCache       state machine over get / [] / in / del / []= (NextLRU): size bound, value-under-its-key, reads return the
                 last stored value, evictions remove exactly the least recently used entries; every edge replayed.
* sequences      NextOSet / NextSet: one OrderedSet / IdentitySet object through walks of operations, every edge replayed.
The pure-Python sources of the working tree are loaded (engine/purepy) and, in a subprocess with VERIF_COMPILED=1, the
prebuilt binaries (replay_compiled; second implementation for C55).
"""
import random

from engine import graph
from checks import pycoll_common as pc
from checks import pycoll_util as pu

LEVEL = "model_checking"
MANIFEST = dict(
    text="PyCollections.tla holds reference models for sqlalchemy.util collections: OrderedSet as a duplicate-free sequence whose TLC-checked "
         "law ties it to the plain set operation (members) and to first-insertion order for all ~25 operations x 4 argument kinds; "
         "IdentitySet as the set model over indistinguishable-by-== objects; immutabledict (no mutator acts, union/merge_with/| are "
         "last-writer-wins copies); LRUCache as a state machine (capacity 2-3, threshold 1/2) with invariants size<=capacity*(1+threshold), "
         "value stored under its key, reads return the last store, evictions drop exactly the least recently used. ~200k enumerated cases and "
         "every LRU edge are replayed on the pure-Python sources AND (subprocess, VERIF_COMPILED=1) on the prebuilt binaries.",
    design_ref="3.10, 4 (C54), 6 (C54)",
    note="trusted: TLC, builtin set/dict and dict insertion order as calibration oracles; elements are small ints / objects; the prebuilt "
         "*_cy binaries are stale (no Cython here) and are reported separately (impl=compiled)",
    technique="TLA+ spec (PyCollections.tla) + TLC exhaustive enumeration with declarative laws and an LRU state machine with invariants/"
              "action properties; oracle calibration; spec->code replay of every case and every state-graph edge on two implementations")

OSET_FOOT = ["add", "insert", "discard", "remove", "pop", "clear", "getitem", "copy", "update", "difference_update", "intersection_update",
             "symmetric_difference_update", "ior", "isub", "iand", "ixor", "union", "difference", "intersection", "symmetric_difference",
             "or", "sub", "and", "xor", "add_op", "issubset", "issuperset", "contains"]
IDSET_FOOT = ["add", "discard", "remove", "pop", "clear", "update", "difference_update", "intersection_update", "symmetric_difference_update",
              "ior", "isub", "iand", "ixor", "union", "difference", "intersection", "symmetric_difference", "or", "sub", "and", "xor",
              "issubset", "issuperset", "contains", "eq", "ne", "le", "lt", "ge", "gt", "copy"]
IDICT_FOOT = ["setitem", "delitem", "clear", "pop", "popd", "popitem", "setdefault", "update", "ior", "setattr", "union", "merge_with", "or",
              "ror", "copy", "getitem"]
LRU_FOOT = ["get", "getitem", "contains", "delitem", "setitem"]
LRU_INVS = ["LruSizeBound", "LruValueUnderKey", "LruOrderAgrees"]
LRU_PROPS = ["LruReadsOwnKey", "LruEvictOnlyOnSet", "LruEvictsLeastRecent"]


def calibrate_idict(chk, cases):
    n = 0
    for case in cases:
        op, exp = case["op"], case["exp"]
        if op["n"] not in ("union", "merge_with", "or", "ror"):
            continue
        d = dict((p[0], p[1]) for p in case["val"])
        a = op["a"]
        if op["n"] == "ror":
            want = dict((p[0], p[1]) for p in op["v"]) | d
        elif op["n"] == "or":
            want = d | dict((p[0], p[1]) for p in op["v"])
        else:
            want = dict(d)
            want.update(dict((p[0], p[1]) for p in op["v"][:a]))
            want.update(dict((p[0], p[1]) for p in op["v"][a:]))
        n += 1
        if [list(x) for x in want.items()] != [list(p) for p in exp["ret"]]:
            chk.machinery("oracle calibration failed (immutabledict union vs builtin dict): %r on %r: spec %r, dict %r" % (op, case["val"], exp["ret"], want))
    return n


def foot(chk, what, cases, names):
    seen = {}
    for c in cases:
        seen[c["op"]["n"]] = seen.get(c["op"]["n"], 0) + 1
    for a in names:
        if not seen.get(a):
            chk.machinery("vacuous: %s operation %s never enumerated" % (what, a))
    return seen


def main(chk):
    rng = random.Random(chk.seed)
    q = chk.quick
    cs = pc.consts(MaxLen=3, Hi=4, K=3) if q else pc.consts(MaxLen=4, Hi=5, K=3)
    cset = pc.consts(MaxLen=3, K=3) if q else pc.consts(MaxLen=4, K=4)
    cid = pc.consts(MaxLen=2, K=3) if q else pc.consts(MaxLen=3, K=3)
    plans = [("InitOSet", ["OSetCaseOK"], cs, "oset"), ("InitSetOps", ["SetCaseOK"], cset, "set"), ("InitIDict", ["IDictCaseOK"], cid, "idict")]
    outs = pc.tlc_cases_parallel(chk, [(p[0], p[1], p[2]) for p in plans], timeout=1500)
    states = trans = 0
    runs, samples, by_kind, cov = [], [], {}, {}
    for (init, invs, c, kind), (cases, r) in zip(plans, outs):
        if r.violated:
            chk.violation({"spec": "PyCollections", "action": "TLC", "invariant": r.violated, "cfg": init},
                          "TLC: %s violated in PyCollections.tla (%s)" % (r.violated, init))
        states += r.distinct
        trans += r.generated
        by_kind[kind] = cases
        runs.append({"cfg": init, "constants": {k: c[k] for k in ("MaxLen", "Hi", "K")}, "distinct": r.distinct, "generated": r.generated,
                     "cases": len(cases), "wall_s": round(r.wall, 1)})
        good = [x for x in cases if x["op"]["v"] and (x["exp"]["add"] or x["exp"]["rk"] in ("list", "dict"))]
        samples.append(good[(chk.seed * 7919 + 17) % len(good)])
    ncal = pu.calibrate_oset(chk, by_kind["oset"]) + pc.calibrate(chk, by_kind["set"], "InitSetOps") + calibrate_idict(chk, by_kind["idict"])
    cov["OrderedSet"] = foot(chk, "OrderedSet", by_kind["oset"], OSET_FOOT)
    cov["IdentitySet"] = foot(chk, "IdentitySet", by_kind["set"], IDSET_FOOT)
    cov["immutabledict"] = foot(chk, "immutabledict", by_kind["idict"], IDICT_FOOT)
    kinds = {c["op"]["kd"] for c in by_kind["oset"]}
    if not {"set", "list", "iter", "self"} <= kinds or not any(pc.op_sig(c["op"]).get("arg_has_dups") for c in by_kind["oset"]):
        chk.machinery("vacuous: OrderedSet argument kinds %r / no argument with duplicates" % sorted(kinds))
    universe = list(range(0, max(cs["K"], cset["K"]) + 2))
    # ---- spec -> code: pure-Python sources of the working tree (this process) and prebuilt binaries (subprocess)
    from engine import purepy
    if not purepy.is_pure():
        chk.machinery("the check process must run the pure-Python sources (purepy not installed?)")
    mism, counts = pu.replay_all(by_kind, universe)
    impls = {"pure": counts}
    try:
        cm, ccounts, impl = pu.replay_compiled(by_kind, universe, chk.work + "/compiled")
        if impl != "compiled":
            chk.machinery("VERIF_COMPILED=1 subprocess did not load the binaries (impl=%s)" % impl)
        mism += cm
        impls["compiled"] = ccounts
    except RuntimeError as e:
        chk.machinery(str(e))
    vclasses = {}
    for m in mism:
        vk = "%s/%s %s %s" % (m["sig"]["coll"], m["sig"]["impl"], m["sig"]["action"], m["sig"]["cls"])
        vclasses[vk] = vclasses.get(vk, 0) + 1
        chk.violation(m["sig"], "[%s] %s" % (m["sig"]["impl"], m["what"]), m)
    evaluations = sum(v["cases"] for i in impls.values() for v in i.values())
    nontrivial = sum(v["nontrivial"] for v in impls["pure"].values())
    # ---- LRUCache: model check + every edge replayed
    lplans = [dict(Cap=2, ThrNum=1, ThrDen=2, NKeys=4, MaxDepth=6)] if q else \
             [dict(Cap=2, ThrNum=1, ThrDen=2, NKeys=4, MaxDepth=7), dict(Cap=3, ThrNum=0, ThrDen=1, NKeys=4, MaxDepth=6),
              dict(Cap=2, ThrNum=0, ThrDen=1, NKeys=3, MaxDepth=7), dict(Cap=1, ThrNum=1, ThrDen=2, NKeys=3, MaxDepth=6)]
    gs = pc.dump_graphs_parallel(chk, [("InitLRUE", "NextLRU", pc.consts(**lp), LRU_INVS, LRU_PROPS) for lp in lplans], timeout=1500)
    lru = []
    walks_total = steps_total = 0
    for lp, g in zip(lplans, gs):
        r = g.tlc
        if r.violated:
            chk.violation({"spec": "PyCollections", "action": "TLC", "invariant": r.violated, "cfg": "NextLRU %r" % lp},
                          "TLC: %s violated in PyCollections.tla (LRU %r)" % (r.violated, lp))
        states += r.distinct
        trans += r.generated
        acts, evict = {}, 0
        for e in g.edges:
            acts[e[1]["a"]] = acts.get(e[1]["a"], 0) + 1
            evict += e[1]["a"] == "setitem" and len(g.states[e[2]]["d"]) < len({x["k"] for x in g.states[e[0]]["d"]} | {e[1]["k"]})
        for a in LRU_FOOT:
            if not acts.get(a):
                chk.machinery("vacuous: LRU action %s never taken" % a)
        if not evict:
            chk.machinery("vacuous: no LRU edge evicts an entry")
        walks, plan = graph.plan_tours(g, lp["MaxDepth"], rng)
        extra = graph.random_walks(g, 300 if q else 3000, lp["MaxDepth"], rng)
        drv = pu.LRUDriver(lp["Cap"], lp["ThrNum"] / lp["ThrDen"])
        steps, lm = pc.replay_walks(g, walks + extra, drv)
        walks_total += len(walks) + len(extra)
        steps_total += steps
        for m in lm:
            a = m["act"].get("a", "drain")
            sig = {"spec": "PyCollections", "kind": "conformance-seq", "coll": "LRUCache", "impl": "pure", "action": a, "cls": m["cls"],
                   "capacity": lp["Cap"]}
            vk = "LRUCache %s %s" % (a, m["cls"])
            vclasses[vk] = vclasses.get(vk, 0) + 1
            chk.violation(sig, "LRUCache(capacity=%d, threshold=%d/%d), step %d: %s" % (lp["Cap"], lp["ThrNum"], lp["ThrDen"], m["step"], m["mismatch"]), m)
        lru.append({"constants": lp, "distinct": r.distinct, "generated": r.generated, "edges": len(g.edges), "evicting_edges": evict,
                    "plan": plan, "actions": acts, "steps": steps})
        w = walks[len(walks) // 2]
        samples.append({"lru_walk": ["%s(%s)" % (g.edges[ei][1]["a"], g.edges[ei][1]["k"]) for ei in w]})
        nontrivial += evict
    # ---- OrderedSet / IdentitySet operation SEQUENCES on one object per walk
    sk = pc.consts(K=2, MaxLen=3, MaxDepth=5 if q else 6)
    sg = pc.dump_graphs_parallel(chk, [("InitOSetSeqE", "NextOSet", sk, ["OSetNoDups"], ["OSetEdgeOK"]),
                                       ("InitSetE", "NextSet", dict(sk, K=3), [], ["SetEdgeOK"])], timeout=1500)
    seqs = []
    for (name, mkdrv), g in zip((("OrderedSet", lambda: pu.OSetSeqDriver(universe)), ("IdentitySet", lambda: pu.IdSetSeqDriver(universe))), sg):
        r = g.tlc
        if r.violated:
            chk.violation({"spec": "PyCollections", "action": "TLC", "invariant": r.violated, "cfg": "sequences " + name},
                          "TLC: %s violated in PyCollections.tla (%s sequences)" % (r.violated, name))
        states += r.distinct
        trans += r.generated
        walks, plan = graph.plan_tours(g, 40, rng)
        extra = graph.random_walks(g, 200 if q else 2000, 12, rng)
        steps, sm = pc.replay_walks(g, walks + extra, mkdrv())
        walks_total += len(walks) + len(extra)
        steps_total += steps
        for m in sm:
            op = m["act"]["op"]
            sig = {"spec": "PyCollections", "kind": "conformance-seq", "coll": name, "impl": "pure", "cls": m["cls"]}
            sig.update(pc.op_sig(op))
            vk = "seq %s %s %s" % (name, op["n"], m["cls"])
            vclasses[vk] = vclasses.get(vk, 0) + 1
            chk.violation(sig, "%s, step %d of a sequence: %s" % (name, m["step"], m["mismatch"]), m)
        seqs.append({"collection": name, "distinct": r.distinct, "generated": r.generated, "edges": len(g.edges), "plan": plan, "steps": steps})
    return chk.finish(
        dict(states=states, transitions=trans, traces_validated_against_impl=evaluations + walks_total, distinct_nontrivial=nontrivial,
             sequences=seqs,
             evaluations=evaluations + steps_total, samples=samples[:8], tlc_runs=runs, lru=lru, implementations=impls,
             calibrated_against_builtin=ncal, operation_coverage=cov, lru_walks=walks_total, lru_steps=steps_total,
             mismatch_classes=vclasses, exhaustive=True,
             rule="one case per TLC initial state (collection x operation x argument x argument kind); non-trivial = changes the collection, "
                  "raises, or returns a new collection; LRU: every labelled edge of the state machine, non-trivial = edges that evict; every "
                  "case replayed on the pure-Python sources and on the prebuilt binaries",
             checker_cmd="tlc PyCollections.tla (INIT InitOSet|InitSetOps|InitIDict; InitLRUE/NextLRU with VIEW+Emit)"),
        assumptions=["bounded: collections <= %d elements drawn from 0..%d, arguments <= 3 elements" % (cs["MaxLen"], cs["K"]),
                     "arguments passed as a builtin set are compared only when the enumerated sequence is that set's iteration order",
                     "IdentitySet is compared on membership (not iteration order); it has no isdisjoint",
                     "the prebuilt binaries predate the working tree's sources (no Cython in this sandbox): their findings are tied to impl=compiled",
                     "LRUCache single-threaded (the mutex in _manage_size is never contended)"])
