"""Fixtures and drivers binding PyCollections.tla to sqlalchemy.ext: ordering_list and association proxies (C50).

One SQLite file per fixture.  Parent(id) -- Item(id, parent_id, position, key, value, lab), cascade all+delete-orphan.
  ordering : Parent.items = ordering_list("position") relationship; the spec's items are the Item objects themselves (lab)
  plist    : Parent.values = association_proxy("items", "value") over an ordering_list relationship  -> list of ints
  pset     : Parent.vset   = association_proxy("iset", "value")  over a set relationship              -> set of ints
  pdict    : Parent.vmap   = association_proxy("imap", "value")  over attribute_keyed_dict("key")     -> {key: int}
A second raw sqlite3 connection reads the rows after every Persist.
"""
import itertools
import os
import sqlite3

from checks import pycoll_common as pc

_seq = itertools.count()


class ExtFixture:
    def __init__(self, workdir, flavour, reorder_on_append=False, count_from=0):
        import sqlalchemy as sa
        from sqlalchemy.ext.associationproxy import association_proxy
        from sqlalchemy.ext.orderinglist import ordering_list
        from sqlalchemy.orm import registry, relationship, attribute_keyed_dict, Session
        from sqlalchemy.pool import NullPool
        self.sa, self.Session = sa, Session
        self.flavour = flavour
        self.kind = {"ordering": "list", "plist": "list", "pset": "set", "pdict": "dict"}[flavour]
        self.count_from = count_from
        os.makedirs(workdir, exist_ok=True)
        n = next(_seq)
        self.path = os.path.join(workdir, "ext%d_%d.sqlite" % (os.getpid(), n))
        if os.path.exists(self.path):
            os.unlink(self.path)
        reg = registry()
        ptab = sa.Table("parent", reg.metadata, sa.Column("id", sa.Integer, primary_key=True))
        itab = sa.Table("item", reg.metadata, sa.Column("id", sa.Integer, primary_key=True),
                        sa.Column("parent_id", sa.ForeignKey("parent.id")), sa.Column("position", sa.Integer),
                        sa.Column("key", sa.String), sa.Column("value", sa.Integer), sa.Column("lab", sa.Integer))

        class Parent:
            pass

        class Item:
            def __init__(self, value=None, key=None, lab=None):
                self.value, self.key, self.lab = value, key, lab

            def __repr__(self):
                return "Item(lab=%r, value=%r, key=%r, position=%r)" % (self.lab, self.value, self.key, self.position)

        self.Parent, self.Item = Parent, Item
        reg.map_imperatively(Item, itab)
        props = {}
        if flavour in ("ordering", "plist"):
            props["items"] = relationship(Item, order_by=itab.c.position, cascade="all, delete-orphan",
                                          collection_class=ordering_list("position", count_from=count_from,
                                                                         reorder_on_append=reorder_on_append))
        elif flavour == "pset":
            props["items"] = relationship(Item, cascade="all, delete-orphan", collection_class=set)
        else:
            props["items"] = relationship(Item, cascade="all, delete-orphan", collection_class=attribute_keyed_dict("key"),
                                          order_by=itab.c.id)
        reg.map_imperatively(Parent, ptab, properties=props)
        if flavour == "pdict":
            Parent.proxy = association_proxy("items", "value", creator=lambda k, v: Item(value=v, key=k))
        elif flavour in ("plist", "pset"):
            Parent.proxy = association_proxy("items", "value")
        reg.configure()
        self.engine = sa.create_engine("sqlite:///" + self.path)

        @sa.event.listens_for(self.engine, "connect")
        def _fast(dbapi_con, rec):          # scratch database: durability is irrelevant, visibility to the second connection is not
            dbapi_con.execute("pragma synchronous=off")
            dbapi_con.execute("pragma journal_mode=memory")

        reg.metadata.create_all(self.engine)
        self.raw = sqlite3.connect(self.path, isolation_level=None)
        self.session = None
        self.pid = 0

    # ---- one parent per walk / case
    def fresh(self, val=(), use_db=True):
        """new Parent whose collection holds `val`; with use_db it is persisted and committed first"""
        if self.session is not None:
            self.session.close()
            self.session = None
        self.pid += 1
        p = self.Parent()
        p.id = self.pid
        self.parent = p
        self.objs = []                 # ordering flavour: the Item object at each list position (labels may repeat)
        if self.flavour == "ordering":
            for lab in val:
                o = self.Item(lab=lab)
                p.items.append(o)
            self.objs = list(p.items)
        elif self.kind == "dict":
            for k, v in val:
                p.proxy[pc.key_str(k)] = v
        elif self.kind == "set":
            for v in val:
                p.proxy.add(v)
        else:
            for v in val:
                p.proxy.append(v)
        if use_db:
            self.session = self.Session(self.engine, expire_on_commit=False)
            self.session.add(p)
            self.session.commit()
        return self.target()

    def target(self):
        return self.parent.items if self.flavour == "ordering" else self.parent.proxy

    # item <-> label for the ordering flavour: spec labels are ints, list members are Item objects (a NEW object per added label)
    def item(self, lab):
        # used for arguments: an object that is in the list with that label if there is one (remove/index/count/contains),
        # otherwise a new one
        for o in self.parent.items:
            if o.lab == lab:
                return o
        return self.Item(lab=lab)

    def new_item(self, lab):
        return self.Item(lab=lab)

    @staticmethod
    def label(o):
        return o.lab

    def assign(self, v):
        if self.flavour == "ordering":
            self.parent.items = v
        elif self.kind == "set":
            self.parent.proxy = set(v)
        else:
            self.parent.proxy = v

    def mkself(self, items):
        return set(items)

    def positions(self):
        return [o.position for o in self.parent.items]

    # ---- persistence
    def persist(self):
        self.session.flush()
        self.session.commit()

    def rollback(self):
        self.session.rollback()

    def rows(self):
        """what a second connection sees for this parent"""
        cur = self.raw.execute("select lab, position, key, value from item where parent_id = ? order by position, id", (self.parent.id,))
        return cur.fetchall()

    def reload_fresh(self):
        """contents as a brand-new session loads them"""
        with self.Session(self.engine) as s:
            p = s.get(self.Parent, self.parent.id)
            if self.flavour == "ordering":
                return [o.lab for o in p.items], [o.position for o in p.items]
            if self.kind == "dict":
                return sorted([pc.unkey_str(k), v] for k, v in p.proxy.items()), None
            if self.kind == "set":
                return sorted(p.proxy), None
            return list(p.proxy), [o.position for o in p.items]

    def close(self):
        try:
            if self.session is not None:
                self.session.close()
            self.engine.dispose()
            self.raw.close()
        except Exception:
            pass


def perform_on(fx, op, argform="list"):
    """one spec operation on the fixture's collection. ordering flavour: members are Item objects (fresh object per ADDED label)"""
    t = fx.target()
    if fx.flavour == "ordering":
        adding = op["n"] in ("append", "insert", "setitem", "extend", "iadd", "setslice", "assign")
        item = fx.new_item if adding else fx.item
        return pc.perform("list", t, op, item=item, label=fx.label, assign=fx.assign, argform=argform, sortkey=fx.label)
    return pc.perform(fx.kind, t, op, mkself=fx.mkself, key=pc.key_str, assign=fx.assign, argform=argform)


def observe(fx):
    t = fx.target()
    if fx.flavour == "ordering":
        return [o.lab for o in t]
    return pc.contents(fx.kind, t, unkey=pc.unkey_str)


def positions_mismatch(fx):
    if fx.flavour not in ("ordering", "plist"):
        return None
    pos = fx.positions()
    want = list(range(fx.count_from, fx.count_from + len(pos)))
    if pos != want:
        return "position attributes %r, indices %r (%r)" % (pos, want, list(fx.parent.items))
    return None


def legacy_assoc_setslice(l, sl, value, value_is_iterator=False):
    """The pinned tree's _AssociationList.__setitem__ slice branch (before fix e371dcf) over the pinned tree's instrumented list
    (before 9cb0b6d), run on a plain list -> (exc, contents). Only used to make the known-finding signature exact."""
    from checks.pycoll_orm import legacy_setslice
    l = list(l)
    try:
        if sl.stop is None:
            stop = len(l)
        elif sl.stop < 0:
            stop = len(l) + sl.stop
        else:
            stop = sl.stop
        step = sl.step or 1
        start = sl.start or 0
        rng = list(range(sl.start or 0, stop, step))
        sized = list(value)
        if step == 1:
            for i in rng:
                del l[start]
            i = start
            for item in sized:
                exc, l = legacy_setslice(l, slice(i, i), [item])
                if exc != "none":
                    return exc, l
                i += 1
        else:
            if len(sized) != len(rng):
                raise ValueError("size")
            # the pinned code zips over `value` again: an iterator is already exhausted by list(value)
            for i, item in zip(rng, [] if value_is_iterator else sized):
                l[i] = item
    except Exception as e:
        return type(e).__name__, l
    return "none", l


def legacy_flag(fx, op, old, exc, got, argform="list"):
    if fx.flavour != "plist" or op["n"] != "setslice":
        return None
    lexc, lval = legacy_assoc_setslice(old, slice(pc.dec(op["a"]), pc.dec(op["b"]), pc.dec(op["c"])), list(op["v"]), argform == "iter")
    return lexc == exc and (lval == got or lexc != "none")


def run_case(fx, case, argform="list"):
    """single operation on a fresh in-memory collection (no database): contents / return / exception = spec, positions = indices"""
    op, exp = case["op"], case["exp"]
    try:
        fx.fresh(case["val"], use_db=False)
    except Exception as e:              # the initial value is built through the API under test
        return "setup", "building %r through the collection raised %r" % (case["val"], e)
    old = observe(fx)
    exc, rk, ret = perform_on(fx, op, argform)
    got = observe(fx)
    fx.legacy = legacy_flag(fx, op, old, exc, got, argform)
    if fx.kind == "dict" and op["n"] == "assign":
        # a proxy assignment updates the mapping in place: surviving keys keep their place (dict equality ignores order)
        got, exp = sorted(got), dict(exp, val=sorted(exp["val"]))
    m = pc.outcome_mismatch(fx.kind, exp, exc, rk, ret, got, old, unkey=pc.unkey_str)
    if m:
        return "outcome", m
    m = positions_mismatch(fx)
    if m:
        return "position", m
    return None


class ExtSeqDriver:
    """walks of NextOrd / NextPList / NextPSet / NextPDict on one persisted parent: list operation, Persist (flush+commit, rows read by
    a second connection, reload in a fresh session), Rollback (back to the last persisted value)"""

    def __init__(self, fx, rng):
        self.fx, self.rng = fx, rng
        self.in_step = True

    def reset(self, state):
        self.fx.fresh(pc.exp_contents(self.fx.kind, state["val"]) if self.fx.kind != "dict" else state["val"])
        self.in_step = True

    def step(self, frm, act, to):
        fx = self.fx
        op = act["op"]
        self.argform = self.rng.choice(("list", "iter", "tuple"))
        if op["n"] == "persist":
            fx.persist()
            return self.check_db(to)
        if op["n"] == "rollback":
            fx.rollback()
        else:
            old = observe(fx)
            exc, rk, ret = perform_on(fx, op, self.argform)
            got = observe(fx)
            self.legacy = legacy_flag(fx, op, old, exc, got, self.argform)
            m = pc.outcome_mismatch(fx.kind, act["exp"], exc, rk, ret, got, old, unkey=pc.unkey_str)
            if m:
                self.in_step = got == pc.exp_contents(fx.kind, to["val"])
                return "outcome", m
        got = observe(fx)
        want = pc.exp_contents(fx.kind, to["val"])
        self.in_step = got == want
        if got != want:
            return "outcome", "contents %r, spec %r" % (got, want)
        m = positions_mismatch(fx)
        if m:
            return "position", m
        return None

    def check_db(self, to):
        fx = self.fx
        want = pc.exp_contents(fx.kind, to["db"])
        rows = fx.rows()
        if fx.flavour == "ordering":
            got, pos = [r[0] for r in rows], [r[1] for r in rows]
        elif fx.kind == "list":
            got, pos = [r[3] for r in rows], [r[1] for r in rows]
        elif fx.kind == "set":
            got, pos = sorted(r[3] for r in rows), None
        else:
            got, pos = sorted([pc.unkey_str(r[2]), r[3]] for r in rows), None
            want = sorted(want)
        if got != want:
            return "rows", "rows seen by a second connection %r, spec %r" % (got, want)
        if pos is not None and pos != list(range(fx.count_from, fx.count_from + len(pos))):
            return "rows", "persisted positions %r" % (pos,)
        rgot, rpos = fx.reload_fresh()
        if rgot != want:
            return "reload", "a fresh session loads %r, spec %r" % (rgot, want)
        return None

    def finish(self, state):
        # drain: persist whatever is pending and compare the database once more
        self.fx.persist()
        return self.check_db({"db": state["val"]})

    def close(self):
        self.fx.close()
