"""C44 version counters prevent lost updates - Versioning.tla (DESIGN 3.14, 4 C44)."""
import random

from engine import graph, tlc
from checks.versioning_driver import Driver

LEVEL = "model_checking"
MANIFEST = dict(
    text="Versioning.tla models 2-3 Sessions that load, modify, delete, flush, commit and roll back shared rows of a class mapped with version_id_col, over a single-writer database; the mechanism layer is the UPDATE/DELETE ... WHERE version_id = <loaded> + rowcount check of orm/persistence.py, the abstract layer a value-based write history. TLC explores every interleaving within the bounds and checks NoLostUpdate (each write is based on its predecessor's value), that a stale flush raises StaleDataError and changes nothing, that versions only increase and match the number of writes, and that a deleted row never reappears. Every labelled edge of the graphs (2 sessions x 1-2 rows, 3 sessions x 1 row) is replayed against real Sessions on SQLite, comparing the call outcome, the committed rows (value and version) and every session object's state, value and version after each step, with the default counter and a custom client-side generator.",
    design_ref="3.14 (Versioning), 4 (C44)",
    note="trusted: TLC; SQLite single-writer model (the harness never schedules a flush while another session holds uncommitted flushed work); autoflush off, expire_on_commit off, objects discarded after a failed flush/rollback (harness convention); server-side version generation (triggers/xmin) is not executable on SQLite and not covered",
    technique="TLA+ spec (Versioning.tla) + TLC exhaustive interleavings; spec->code replay of every state-graph edge on real Sessions")
INVS = ["NoLostUpdate", "VersionMatchesHistory", "LockHolderHasWork"]
PROPS = ["StaleFailsAndChangesNothing", "VersionIncrements", "NoResurrection"]


def main(chk):
    rng = random.Random(chk.seed)
    if chk.quick:
        plans = [(dict(Sessions={1, 2}, Keys={1}, MaxVals=3, MaxOps=4, MaxDepth=8, Skew=0), "counter"),
                 (dict(Sessions={1, 2}, Keys={1, 2}, MaxVals=2, MaxOps=3, MaxDepth=6, Skew=0), "counter"),
                 # one session flushing two rows that carry different versions (multi-row UPDATE paths), then reusing the objects
                 (dict(Sessions={1}, Keys={1, 2}, MaxVals=4, MaxOps=9, MaxDepth=9, Skew=2), "counter"),
                 (dict(Sessions={1, 2, 3}, Keys={1}, MaxVals=3, MaxOps=2, MaxDepth=6, Skew=0), "custom")]
    else:
        plans = [(dict(Sessions={1, 2}, Keys={1}, MaxVals=4, MaxOps=5, MaxDepth=10, Skew=0), "counter"),
                 (dict(Sessions={1, 2}, Keys={1, 2}, MaxVals=3, MaxOps=4, MaxDepth=8, Skew=0), "counter"),
                 (dict(Sessions={1, 2}, Keys={1, 2}, MaxVals=4, MaxOps=5, MaxDepth=9, Skew=2), "counter"),
                 (dict(Sessions={1}, Keys={1, 2}, MaxVals=5, MaxOps=11, MaxDepth=11, Skew=3), "custom"),
                 (dict(Sessions={1, 2, 3}, Keys={1}, MaxVals=3, MaxOps=3, MaxDepth=9, Skew=0), "custom"),
                 (dict(Sessions={1, 2}, Keys={1}, MaxVals=3, MaxOps=4, MaxDepth=8, Skew=1), "custom")]
    states = trans = nwalks = steps_total = nontriv = 0
    samples, runs, cov = [], [], {}
    for consts, gen in plans:
        cfgt = tlc.cfg(constants=consts, init="InitEmit", invariants=INVS, properties=PROPS, view="View",
                       action_constraints=["Emit"], constraints=["Depth"])
        g = graph.dump("Versioning", cfgt, chk.work, timeout=2400)
        r = g.tlc
        if r.violated:
            chk.violation({"spec": "Versioning", "action": "TLC", "invariant": r.violated},
                          "TLC: %s violated in Versioning.tla (%s)" % (r.violated, consts))
        states += r.distinct
        trans += r.generated
        stale = 0
        for e in g.edges:
            key = e[1]["a"] + ("/" + e[1]["ret"] if e[1]["ret"] != "ok" else "")
            cov[key] = cov.get(key, 0) + 1
            if e[1]["ret"] == "StaleDataError":
                stale += 1
        nontriv += stale
        walks, plan = graph.plan_tours(g, consts["MaxDepth"], rng)
        extra = graph.random_walks(g, 300, consts["MaxDepth"], rng)
        steps, mism = graph.replay(g, walks + extra, lambda wid, wd, gen=gen: Driver(wid, wd, gen), chk.work + "/replay", nproc=16)
        for m in mism:
            a = m["act"] if isinstance(m["act"], dict) else {"a": m["act"]}
            chk.violation({"spec": "Versioning", "action": a.get("a"), "ret": a.get("ret"), "kind": "conformance", "generator": gen},
                          "real Sessions diverge from Versioning.tla (%s generator): %s" % (gen, m["mismatch"]), m)
        nwalks += len(walks) + len(extra)
        steps_total += steps
        runs.append(dict(constants={k: sorted(v) if isinstance(v, set) else v for k, v in consts.items()}, generator=gen,
                         distinct=r.distinct, generated=r.generated, edges=len(g.edges), stale_edges=stale, plan=plan))
        w = max(walks, key=lambda w: sum(1 for ei in w if g.edges[ei][1]["ret"] == "StaleDataError"))
        samples.append(["%s(s%d%s)->%s" % (g.edges[ei][1]["a"], g.edges[ei][1]["s"], ",k%d" % g.edges[ei][1]["k"] if g.edges[ei][1]["k"] else "",
                                           g.edges[ei][1]["ret"]) for ei in w])
    for need in ("Load", "Modify", "MarkDelete", "Flush", "Commit", "Rollback", "Flush/StaleDataError", "Commit/StaleDataError", "Load/nothing"):
        if not cov.get(need):
            chk.machinery("vacuous: no edge %s" % need)
    return chk.finish(
        dict(states=states, transitions=trans, traces_validated_against_impl=nwalks, distinct_nontrivial=nontriv,
             evaluations=steps_total, samples=samples, tlc_runs=runs, action_coverage=cov, exhaustive=True,
             rule="every labelled edge (= one operation of one session in one interleaving state) replayed on real Sessions; "
                  "non-trivial = edges on which a flush/commit is stale and must raise StaleDataError",
             checker_cmd="tlc Versioning.tla (VIEW View, ACTION_CONSTRAINT Emit)"),
        assumptions=["SQLite only; single-writer schedule constraint; client-side version generation (default counter, custom callable)",
                     "autoflush=False, expire_on_commit=False"])
