"""Shared by C02 / C16 / C17 (StmtCache.tla) and C03 (Generative.tla): builds REAL Core / ORM constructs from a shape
enumerated by TLC out of specs/StmtShapes.tla, and runs them on real SQLite engines.

A shape travels as its name  "k|f|c|w|d|o"  (StmtShapes!Name):
  k  sel | orm | ins | upd | del | lam | ddl | txt | typ | insm    statement kind (insm: executemany INSERT..RETURNING, see build) (ddl: CREATE TABLE d; txt: TextualSelect, o = named | pos;
                                                            typ: typed construct c = cast | tcoerce | literal | bind with type o in TYPES)
  f  a | join | outer | s1 | xjoin              FROM: a / a JOIN b / a LEFT JOIN b / s1.a / a JOIN s1.a
  c  none | eq | in | eqand | orin              criteria (lam: lscalar | llist | lcol | ltab | lmulti | lwhere | lcrit | lexpr)
  w  none | subq | cte | union | exists         wrapping
  d  none | limit | label | distinct            decoration
  o  none | selectin | joined | defer | undefer ORM loader option   (DML: none | ret  = RETURNING id)
A valuation is the dict printed by the spec: a, b (0 = None), l (list), n (limit), col, tab.

Nothing here decides a property: expected values always come from the TLC output; this module only constructs and observes.
"""
import decimal
import os
import sqlite3
import warnings

import sqlalchemy as sa
from sqlalchemy import event
from sqlalchemy.sql.selectable import TextualSelect
from sqlalchemy.orm import Session, defer, joinedload, registry, relationship, selectinload, undefer, with_loader_criteria

NROWS = 5
X = [1, 2, 1, 3, None]
Y = [2, 1, 1, 3, 1]
BROWS = [(1, 1), (1, 2), (2, 1)]          # (a_id, z)
OFF = {"main": 0, None: 0, "s1": 10, "s2": 20}


class A:
    pass


class B:
    pass


class World:
    """tables (one `a` per schema None / s1 / s2, `b`), mapped classes A (-> a) and B (-> b)"""

    def __init__(self):
        self.md = md = sa.MetaData()
        self.tabs = {}
        for sch in (None, "s1", "s2"):
            self.tabs[sch] = sa.Table("a", md, sa.Column("id", sa.Integer, primary_key=True), sa.Column("x", sa.Integer),
                                      sa.Column("y", sa.Integer), schema=sch)
        self.b = sa.Table("b", md, sa.Column("id", sa.Integer, primary_key=True), sa.Column("a_id", sa.ForeignKey("a.id")),
                          sa.Column("z", sa.Integer))
        md2 = sa.MetaData()
        self.dtabs = {sch: sa.Table("d", md2, sa.Column("id", sa.Integer, primary_key=True), sa.Column("v", sa.Integer), schema=sch)
                      for sch in (None, "s1", "s2")}
        self.b2 = self.b.alias("b2")          # the EXISTS subquery always reads b through this alias (b itself may be in the FROM)
        self.reg = registry()
        self.reg.map_imperatively(A, self.tabs[None], properties={"bs": relationship(B, order_by=self.b.c.id)})
        self.reg.map_imperatively(B, self.b)


_WORLD = None


def world():
    global _WORLD
    if _WORLD is None:
        _WORLD = World()
    return _WORLD


# types that differ from Numeric(10) / String() in exactly ONE constructor argument: absent vs falsy (0, False) vs truthy
TYPES = {"n10": lambda: sa.Numeric(10), "n10_0": lambda: sa.Numeric(10, 0), "n10_2": lambda: sa.Numeric(10, 2),
         "n10_f": lambda: sa.Numeric(10, asdecimal=False), "n10_d0": lambda: sa.Numeric(10, decimal_return_scale=0),
         "s": lambda: sa.String(), "s0": lambda: sa.String(0), "s5": lambda: sa.String(5)}


def value_class(v):
    if isinstance(v, decimal.Decimal):
        return "dec%d" % -v.as_tuple().exponent
    return type(v).__name__


def none0(v):
    return None if v == 0 else v


def parse(name):
    k, f, c, w, d, o = name.split("|")
    return dict(k=k, f=f, c=c, w=w, d=d, o=o, name=name)


# ----------------------------------------------------------------------------- lambda statements (C17)
# every lambda lives at ONE source location (one code object), closure values arrive as function arguments, exactly the
# way an application function that builds a lambda statement is called again and again
def lam_scalar(a, v):
    return sa.lambda_stmt(lambda: sa.select(a.c.id, a.c.x).where(a.c.x == v))


def lam_list(a, lst):
    return sa.lambda_stmt(lambda: sa.select(a.c.id, a.c.x).where(a.c.x.in_(lst)))


def lam_col(a, col, v):
    return sa.lambda_stmt(lambda: sa.select(a.c.id, a.c.x).where(col == v))


def lam_tab(t, v):
    return sa.lambda_stmt(lambda: sa.select(t.c.id, t.c.x).where(t.c.x == v))


def lam_multi(a, col, v, w):
    s = sa.lambda_stmt(lambda: sa.select(a.c.id, a.c.x))
    s += lambda s: s.where(col == v)
    s += lambda s: s.where(a.c.y != w)
    return s


def lam_where(a, lst, w):
    return sa.select(a.c.id, a.c.x).where(lambda: a.c.y == w).where(lambda: a.c.x.in_(lst))


def lam_expr(a, crit):
    return sa.lambda_stmt(lambda: sa.select(a.c.id, a.c.x).where(crit))


def lam_chain3(a, col, v, w, n):
    # only the FIRST link's closure holds a structural value (col); links 2 and 3 hold literals
    s = sa.lambda_stmt(lambda: sa.select(a.c.id, a.c.x).where(col == v))
    s += lambda s: s.where(a.c.y != w)
    s += lambda s: s.order_by(a.c.id).limit(n)
    return s


def lam_chain4(a, col, v, w, lst, n):
    s = sa.lambda_stmt(lambda: sa.select(a.c.id, a.c.x).where(col == v))
    s += lambda s: s.where(a.c.y != w)
    s += lambda s: s.where(a.c.id.in_(lst))
    s += lambda s: s.order_by(a.c.id).limit(n)
    return s


def lam_crit(v):
    return sa.select(A).options(with_loader_criteria(A, lambda cls: cls.x == v))


def build_lambda(sh, val, T):
    """-> (lambda statement, equivalent plain statement built from the CURRENT closure values)"""
    w = world()
    a = T(None)
    v, b, lst = none0(val["a"]), none0(val["b"]), [none0(i) for i in val["l"]]
    c = sh["c"]
    if c == "lscalar":
        return lam_scalar(a, v), sa.select(a.c.id, a.c.x).where(a.c.x == v)
    if c == "llist":
        return lam_list(a, lst), sa.select(a.c.id, a.c.x).where(a.c.x.in_(lst))
    if c == "lcol":
        col = a.c[val["col"]]
        return lam_col(a, col, v), sa.select(a.c.id, a.c.x).where(col == v)
    if c == "ltab":
        t = T(None) if val["tab"] == "a" else w.tabs[val["tab"]]
        return lam_tab(t, v), sa.select(t.c.id, t.c.x).where(t.c.x == v)
    if c == "lmulti":
        col = a.c[val["col"]]
        return lam_multi(a, col, v, b), sa.select(a.c.id, a.c.x).where(col == v).where(a.c.y != b)
    if c == "lwhere":
        return lam_where(a, lst, b), sa.select(a.c.id, a.c.x).where(a.c.y == b).where(a.c.x.in_(lst))
    if c == "lcrit":
        return lam_crit(v), sa.select(A).where(A.x == v)
    if c == "lchain3":
        col = a.c[val["col"]]
        return (lam_chain3(a, col, v, b, val["n"]),
                sa.select(a.c.id, a.c.x).where(col == v).where(a.c.y != b).order_by(a.c.id).limit(val["n"]))
    if c == "lchain4":
        col = a.c[val["col"]]
        return (lam_chain4(a, col, v, b, lst, val["n"]),
                sa.select(a.c.id, a.c.x).where(col == v).where(a.c.y != b).where(a.c.id.in_(lst)).order_by(a.c.id).limit(val["n"]))
    if c == "lexpr":
        # the closure holds a finished SQL expression with an embedded literal (its bound value is extracted from the closure element)
        return lam_expr(a, a.c.x == v), sa.select(a.c.id, a.c.x).where(a.c.x == v)
    raise ValueError(sh)


# ----------------------------------------------------------------------------- plain statements
def _crit(c, a, val):
    v, b, lst = none0(val["a"]), none0(val["b"]), [none0(i) for i in val["l"]]
    if c == "none":
        return None
    if c == "eq":
        return a.c.x == v
    if c == "in":
        return a.c.x.in_(lst)
    if c == "eqand":
        return sa.and_(a.c.x == v, a.c.y == b)
    if c == "orin":
        return sa.or_(a.c.x == v, a.c.y.in_(lst))
    raise ValueError(c)


def build(sh, val, T=None):
    """sh: parsed shape, val: valuation dict, T(schema) -> Table `a` to use for a table declared with that schema
    (identity unless the caller builds the "translated" construct for C16).  Returns the statement."""
    w = world()
    if T is None:
        T = w.tabs.__getitem__
    k, f, c, wr, d, o = sh["k"], sh["f"], sh["c"], sh["w"], sh["d"], sh["o"]
    if k == "lam":
        return build_lambda(sh, val, T)[0]
    a = T("s1") if f == "s1" else T(None)
    if k == "ddl":
        return sa.schema.CreateTable(w.dtabs[a.schema])
    if k == "insm":
        # multi-row INSERT .. RETURNING (insertmanyvalues) whose VALUES holds a scalar subquery against the table in the OTHER schema
        src = T(None) if f == "s1" else T("s1")
        return sa.insert(a).values(y=sa.select(sa.func.max(src.c.id)).scalar_subquery()).returning(a.c.id, a.c.y)
    if k == "typ":
        T = TYPES[o]()
        bval = none0(val["b"])
        crit = a.c.y == bval
        if c == "cast":
            return sa.select(a.c.id, sa.cast(a.c.x, T)).where(crit)
        if c == "tcoerce":
            return sa.select(a.c.id, sa.type_coerce(a.c.x, T)).where(crit)
        if c == "literal":
            return sa.select(a.c.id, sa.literal(val["n"], T)).where(crit)
        if c == "bind":
            return sa.select(a.c.id, a.c.x).where(a.c.y == sa.bindparam(None, bval, type_=T))
        raise ValueError(c)
    if k == "txt":
        # the column names in the text (q, r) match none of the columns given: only positional matching finds them
        t = sa.text("select id as q, x as r from a" + (" where x = :a" if c == "eq" else "") + " order by id")
        if c == "eq":
            t = t.bindparams(sa.bindparam("a", none0(val["a"]), type_=sa.Integer))
        return TextualSelect(t, [w.b.c.id, w.b.c.z], positional=(o == "pos"))
    b = w.b
    bval = none0(val["b"])
    if k == "ins":
        st = sa.insert(a).values(x=none0(val["a"]), y=bval)
        return st.returning(a.c.id) if o == "ret" else st
    if k in ("upd", "del"):
        st = sa.update(a).values(y=bval) if k == "upd" else sa.delete(a)
        cr = _crit(c, a, val)
        if cr is not None:
            st = st.where(cr)
        return st.returning(a.c.id) if o == "ret" else st
    if k == "orm":
        st = sa.select(A)
        if f == "join":
            st = st.join(A.bs)
        elif f == "outer":
            st = st.outerjoin(A.bs)
        cr = _crit(c, a, val)
        if cr is not None:
            st = st.where(cr)
        if wr == "exists":
            st = st.where(sa.exists().where(w.b2.c.a_id == a.c.id, w.b2.c.z == bval))
        if d == "limit":
            st = st.order_by(A.id).limit(val["n"])
        elif d == "distinct":
            st = st.distinct()
        if o == "selectin":
            st = st.options(selectinload(A.bs))
        elif o == "joined":
            st = st.options(joinedload(A.bs))
        elif o == "defer":
            st = st.options(defer(A.y))
        elif o == "undefer":
            st = st.options(undefer(A.y))
        return st
    # Core select
    a1 = T("s1")
    cols = [a.c.id, a.c.x]
    if f == "xjoin":
        cols = [a.c.id, a1.c.id]
    if wr == "union":
        cols = [a.c.id]
    if d == "label" and wr not in ("subq", "cte"):
        cols.append(a.c.y.label("ly"))
    st = sa.select(*cols)
    if f == "join":
        st = st.join_from(a, b, a.c.id == b.c.a_id)
    elif f == "outer":
        st = st.join_from(a, b, a.c.id == b.c.a_id, isouter=True)
    elif f == "xjoin":
        st = st.join_from(a, a1, a.c.x == a1.c.x)
    cr = _crit(c, a, val)
    if cr is not None:
        st = st.where(cr)
    if wr == "exists":
        st = st.where(sa.exists().where(w.b2.c.a_id == a.c.id, w.b2.c.z == bval))
    if wr in ("subq", "cte"):
        sq = st.subquery() if wr == "subq" else st.cte()
        ocols = [c_ for c_ in sq.c]
        if d == "label":
            ocols.append(ocols[1].label("ly"))
        st = sa.select(*ocols)
        idcol = ocols[0]
    elif wr == "union":
        st = sa.union(st, sa.select(a.c.id).where(a.c.y == bval))
        idcol = st.selected_columns[0] if d == "limit" else None
    else:
        idcol = a.c.id
    if d == "limit":
        st = st.order_by(idcol).limit(val["n"])
    elif d == "distinct":
        st = st.distinct()
    return st


# ----------------------------------------------------------------------------- engines
def _populate(path, off):
    db = sqlite3.connect(path)
    db.execute("create table a (id integer primary key, x integer, y integer)")
    db.execute("create table b (id integer primary key, a_id integer references a(id), z integer)")
    db.executemany("insert into a values (?,?,?)", [(off + i + 1, X[i], Y[i]) for i in range(NROWS)])
    db.executemany("insert into b (id, a_id, z) values (?,?,?)", [(off + j + 1, off + r[0], r[1]) for j, r in enumerate(BROWS)])
    db.commit()
    db.close()


class Log:
    def __init__(self):
        self.items = []

    def attach(self, engine):
        @event.listens_for(engine, "before_cursor_execute")
        def bce(conn, cursor, statement, parameters, context, executemany):
            hit = context.cache_hit.name if getattr(context, "compiled", None) is not None else "RAW"
            self.items.append((statement, parameters, hit))


class Engines:
    """three views of the same three SQLite files (main + ATTACHed s1, s2): an engine with a tiny LRU compiled cache, an engine
    with no cache at all, and raw execution of the literal-rendered string"""

    def __init__(self, workdir, cap):
        os.makedirs(workdir, exist_ok=True)
        self.dir = workdir
        for name in ("main", "s1", "s2"):
            p = os.path.join(workdir, name + ".db")
            if os.path.exists(p):
                os.unlink(p)
            _populate(p, OFF[name])
        url = "sqlite:///" + os.path.join(workdir, "main.db")
        self.cached = sa.create_engine(url, query_cache_size=cap)
        self.plain = sa.create_engine(url, query_cache_size=0)
        self.clog, self.plog = Log(), Log()
        for eng, lg in ((self.cached, self.clog), (self.plain, self.plog)):
            @event.listens_for(eng, "connect")
            def con(dbapi, rec, wd=workdir):
                dbapi.execute("attach database '%s' as s1" % os.path.join(wd, "s1.db"))
                dbapi.execute("attach database '%s' as s2" % os.path.join(wd, "s2.db"))
            lg.attach(eng)
        assert self.plain._compiled_cache is None
        self.cconn = self.cached.connect()
        self.pconn = self.plain.connect()

    def close(self):
        for c in (self.cconn, self.pconn):
            try:
                c.close()
            except Exception:
                pass
        self.cached.dispose()
        self.plain.dispose()


def insm_params(sh):
    """the parameter sets of the executemany call (the valuation is attached to the parsed shape by the caller)"""
    val = sh["val"]
    return [{"x": val["n"]}, {"x": none0(val["b"])}]


def is_orm(sh):
    return sh["k"] == "orm" or (sh["k"] == "lam" and sh["c"] == "lcrit")


def run(conn, log, sh, stmt, opts):
    """execute inside a transaction that is always rolled back; -> dict(out, stmts=[(sql, params, hit)], rows, rc)"""
    n0 = len(log.items)
    out, rows, rc, lk, tv = "ok", None, -1, "-", "-"
    try:
        try:
            if sh["k"] == "ddl":
                conn.execute(stmt, execution_options=opts)
                rows = []
                for sname in ("main", "s1", "s2"):
                    if conn.exec_driver_sql("select count(*) from %s.sqlite_master where name='d'" % sname).scalar():
                        rows.append((OFF[sname],))
                        conn.exec_driver_sql("drop table %s.d" % sname)      # (pysqlite runs DDL outside the transaction)
            elif sh["k"] == "insm":
                r = conn.execute(stmt, insm_params(sh), execution_options=opts)
                rows = [tuple(x) for x in r.all()]
            elif is_orm(sh):
                with Session(conn) as s:
                    r = s.execute(stmt, execution_options=opts)
                    if sh["o"] == "joined":
                        r = r.unique()
                    rows = [(o_.id, o_.x) for o_ in r.scalars()]
            else:
                r = conn.execute(stmt, execution_options=opts)
                if r.returns_rows:
                    raw = r.all()
                    rows = [tuple(x) for x in raw]
                    if sh["k"] == "typ":
                        cl = sorted({value_class(x[1]) for x in raw if x[1] is not None})
                        tv = cl[0] if len(cl) == 1 else ("-" if not cl else "mixed " + "/".join(cl))
                    if sh["k"] == "txt" and raw:
                        try:
                            lk = "ok" if raw[0]._mapping[world().b.c.z] == raw[0][1] else "wrong value"
                        except sa.exc.NoSuchColumnError:
                            lk = "NoSuchColumnError"
                else:
                    rows = []
                if sh["k"] in ("ins", "upd", "del"):
                    rc = r.rowcount
        except sa.exc.StatementError as e:
            out = type(e.orig).__name__ if e.orig is not None else type(e).__name__
        except sa.exc.SQLAlchemyError as e:
            out = type(e).__name__
    finally:
        conn.rollback()
    return dict(out=out, stmts=[(s_, tuple(p_), h_) for s_, p_, h_ in log.items[n0:]], rows=rows, rc=rc, lk=lk, tv=tv)


def run_literal(conn, sh, stmt, smap):
    """third oracle: the statement rendered with literal_binds (and the schema map applied) executed as a plain string"""
    kw = {"literal_binds": True}
    with warnings.catch_warnings():
        warnings.simplefilter("ignore", sa.exc.SAWarning)      # (a bound NULL rendered literally warns; it is what is being compared)
        comp = stmt.compile(dialect=conn.dialect, compile_kwargs=kw, schema_translate_map=smap or None, render_schema_translate=bool(smap))
    try:
        r = conn.exec_driver_sql(str(comp))
        rows = [tuple(x) for x in r.all()] if r.returns_rows else []
    finally:
        conn.rollback()
    return str(comp), rows


MAPS = {"none": None, "s1s2": {"s1": "s2"}, "n_s1": {None: "s1"}, "ident": {"s1": "s1"}, "both": {"s1": "s2", None: "s1"}}


def opts_for(mname):
    m = MAPS[mname]
    return {} if m is None else {"schema_translate_map": dict(m)}
