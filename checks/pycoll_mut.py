"""Fixtures and drivers binding PyCollections.tla to sqlalchemy.ext.mutable (C49).

Mapped classes are module level (they are pickled).  One table, one column per tracked type:
    dict_  MutableDict.as_mutable(JSON)          list_  MutableList.as_mutable(PickleType)      jlist  MutableList.as_mutable(JSON)
    set_   MutableSet.as_mutable(PickleType)     point  composite(Point, x, y) with Point(MutableComposite)
A second raw sqlite3 connection decodes what is actually stored.
"""
import dataclasses
import json
import os
import pickle
import sqlite3

import sqlalchemy as sa
from sqlalchemy import inspect
from sqlalchemy.ext.mutable import MutableComposite, MutableDict, MutableList, MutableSet
from sqlalchemy.orm import Session, composite, registry

from checks import pycoll_common as pc

reg = registry()


@dataclasses.dataclass
class Point(MutableComposite):
    x: int
    y: int

    def __setattr__(self, key, value):
        object.__setattr__(self, key, value)
        self.changed()

    def __getstate__(self):
        return self.x, self.y

    def __setstate__(self, state):
        object.__setattr__(self, "x", state[0])
        object.__setattr__(self, "y", state[1])


tab = sa.Table("obj", reg.metadata, sa.Column("id", sa.Integer, primary_key=True),
               sa.Column("dict_", MutableDict.as_mutable(sa.JSON)), sa.Column("list_", MutableList.as_mutable(sa.PickleType)),
               sa.Column("jlist", MutableList.as_mutable(sa.JSON)), sa.Column("set_", MutableSet.as_mutable(sa.PickleType)),
               sa.Column("x", sa.Integer), sa.Column("y", sa.Integer))


class Obj:
    pass


reg.map_imperatively(Obj, tab, properties={"point": composite(Point, tab.c.x, tab.c.y)})
reg.configure()

ATTR = {"list": "list_", "jlist": "jlist", "set": "set_", "dict": "dict_", "comp": "point"}
KIND = {"list": "list", "jlist": "list", "set": "set", "dict": "dict", "comp": "list"}
TYPES = {"list": MutableList, "jlist": MutableList, "set": MutableSet, "dict": MutableDict, "comp": Point}


class MutFixture:
    def __init__(self, flavour, workdir=None):
        self.flavour, self.attr, self.kind = flavour, ATTR[flavour], KIND[flavour]
        self.perm = {}
        self.engine = None
        if workdir is not None:
            os.makedirs(workdir, exist_ok=True)
            self.path = os.path.join(workdir, "mut_%s_%d.sqlite" % (flavour, os.getpid()))
            if os.path.exists(self.path):
                os.unlink(self.path)
            self.engine = sa.create_engine("sqlite:///" + self.path)

            @sa.event.listens_for(self.engine, "connect")
            def _fast(dbapi_con, rec):
                dbapi_con.execute("pragma synchronous=off")
                dbapi_con.execute("pragma journal_mode=memory")

            reg.metadata.create_all(self.engine)
            self.raw = sqlite3.connect(self.path, isolation_level=None)
        self.session = None
        self.oid = 0

    # ---- value conversion: spec value <-> python value (set members go through a label permutation, see pop)
    def to_py(self, val):
        if self.flavour == "comp":
            return Point(val[0], val[1])
        if self.kind == "dict":
            return {pc.key_str(p[0]): p[1] for p in val}
        if self.kind == "set":
            return {self.item(x) for x in val}
        return list(val)

    def item(self, x):
        return self.perm.get(x, x) if self.kind == "set" else x

    def label(self, x):
        if self.kind != "set":
            return x
        for k, v in self.perm.items():
            if v == x:
                return k
        return x

    def observe(self, value=None):
        v = getattr(self.obj, self.attr) if value is None else value
        if self.flavour == "comp":
            return [v.x, v.y]
        return pc.contents(self.kind, v, self.label, pc.unkey_str)

    # ---- a fresh object
    def fresh_memory(self, val):
        """object with a clean committed snapshot, no database (single-operation mode)"""
        self.perm = {}
        o = Obj()
        setattr(o, self.attr, self.to_py(val))          # the set event coerces and links the value to its parent
        st = inspect(o)
        st._commit_all(st.dict)                         # harness: take the current value as the committed snapshot
        self.obj = o
        return getattr(o, self.attr)

    def fresh_db(self, val):
        self.perm = {}
        if self.session is not None:
            self.session.close()
        self.session = Session(self.engine, expire_on_commit=False)
        self.oid += 1
        o = Obj()
        o.id = self.oid
        setattr(o, self.attr, self.to_py(val))
        self.session.add(o)
        self.session.commit()
        self.obj = o

    def assign(self, v):
        if self.flavour == "comp":
            v = Point(v[0], v[1])
        elif self.kind == "set":
            v = set(v)
        setattr(self.obj, self.attr, v)

    def mkself(self, items):
        return MutableSet(items)

    def perform(self, op, argform="list"):
        t = getattr(self.obj, self.attr)
        if self.flavour == "comp":
            if op["n"] == "setitem":
                setattr(t, "xy"[op["a"]], op["b"])
            else:
                self.assign(op["v"])
            return "none", "none", None
        return pc.perform(self.kind, t, op, item=self.item, label=self.label, mkself=self.mkself, key=pc.key_str, assign=self.assign,
                          argform=argform)

    # ---- what the property talks about
    def flagged(self):
        st = inspect(self.obj)
        in_dirty = self.session is None or self.obj in self.session.dirty
        return bool(st.modified) and in_dirty and st.attrs[self.attr].history.has_changes()

    def type_ok(self):
        v = getattr(self.obj, self.attr)
        return isinstance(v, TYPES[self.flavour]) and inspect(self.obj) in v._parents

    def stored(self):
        row = self.raw.execute("select dict_, list_, jlist, set_, x, y from obj where id = ?", (self.obj.id,)).fetchone()
        if self.flavour == "comp":
            return [row[4], row[5]]
        raw = row[{"dict": 0, "list": 1, "jlist": 2, "set": 3}[self.flavour]]
        if raw is None:
            return None
        v = json.loads(raw) if self.flavour in ("dict", "jlist") else pickle.loads(raw)
        return pc.contents(self.kind, v, self.label, pc.unkey_str)

    # ---- session operations
    def persist(self):
        self.session.flush()
        self.session.commit()

    def expire(self):
        self.session.expire(self.obj)

    def pickle_roundtrip(self):
        blob = pickle.dumps(self.obj)
        self.session.expunge(self.obj)
        self.obj = pickle.loads(blob)
        self.session.add(self.obj)

    def merge_new_session(self):
        copy = pickle.loads(pickle.dumps(self.obj))
        self.session.close()
        self.session = Session(self.engine, expire_on_commit=False)
        self.obj = self.session.merge(copy)

    def close(self):
        try:
            if self.session is not None:
                self.session.close()
            if self.engine is not None:
                self.engine.dispose()
                self.raw.close()
        except Exception:
            pass


def spec_value(fx, val):
    if fx.flavour == "comp":
        return list(val)
    return pc.exp_contents(fx.kind, val)


def same_value(fx, a, b):
    """equality of two spec values as Python values (dict equality ignores insertion order)"""
    a, b = spec_value(fx, a), spec_value(fx, b)
    return sorted(a) == sorted(b) if fx.kind == "dict" else a == b


def run_case(fx, case, argform="list"):
    """single operation, in memory: outcome = model, and the parent is flagged modified whenever the model value changes"""
    op, exp = case["op"], case["exp"]
    try:
        fx.fresh_memory(case["val"])
    except Exception as e:
        return "setup", "assigning %r to the attribute raised %r" % (case["val"], e)
    old = fx.observe()
    exc, rk, ret = fx.perform(op, argform)
    got = fx.observe()
    m = pc.outcome_mismatch(fx.kind, exp, exc, rk, ret, got, old, unkey=pc.unkey_str)
    if m:
        return "outcome", m
    changed = not same_value(fx, exp["val"], case["val"]) or exp["rk"] == "popany"
    if changed and not fx.flagged():
        return "untracked", "value changed %r -> %r but the parent is not flagged modified" % (old, got)
    if not fx.type_ok():
        return "untracked", "after %s the attribute holds %s not linked to its parent" % (op["n"], type(getattr(fx.obj, fx.attr)).__name__)
    return None


class MutDriver:
    """walks of NextMutList / NextMutSet / NextMutDict / NextMutComp on one persisted object"""

    def __init__(self, fx, rng):
        self.fx, self.rng = fx, rng

    def reset(self, state):
        self.fx.fresh_db(state["val"])

    def step(self, frm, act, to):
        fx = self.fx
        op = act["op"]
        n = op["n"]
        self.argform = self.rng.choice(("list", "iter", "tuple"))
        if n == "persist":
            fx.persist()
            got = fx.stored()
            want = spec_value(fx, to["db"])
            if fx.kind == "dict":
                got, want = sorted(got or []), sorted(want)
            if got != want:
                return "stored", "after flush+commit a second connection reads %r, in-memory / spec value %r" % (got, want)
        elif n == "expire":
            fx.expire()
        elif n == "pickle":
            fx.pickle_roundtrip()
        elif n == "merge":
            fx.merge_new_session()
        else:
            old = fx.observe()
            exc, rk, ret = fx.perform(op, self.argform)
            if fx.kind == "set" and n == "pop" and exc == "none" and ret != op["b"] and ret in old:
                # set.pop() took another member than the edge chose: exchange the two labels
                x, y = op["b"], ret
                px, py = fx.item(x), fx.item(y)
                fx.perm[x], fx.perm[y] = py, px
                ret = x
            got = fx.observe()
            m = pc.outcome_mismatch(fx.kind if fx.flavour != "comp" else "list", act["exp"], exc, rk, ret, got, old, unkey=pc.unkey_str)
            if m:
                return "outcome", m
        got = fx.observe()
        want = spec_value(fx, to["val"])
        if got != want:
            return "value", "after %s the attribute holds %r, spec %r" % (n, got, want)
        if not same_value(fx, to["val"], to["db"]) and not fx.flagged():
            return "untracked", "after %s: value %r differs from the stored %r but the parent is not in session.dirty" % (n, got, to["db"])
        if not fx.type_ok():
            return "untracked", "after %s the attribute holds %s not linked to its parent" % (n, type(getattr(fx.obj, fx.attr)).__name__)
        return None

    def finish(self, state):
        # drain: flush whatever is pending; the stored value must be the in-memory value
        self.fx.persist()
        got, want = self.fx.stored(), spec_value(self.fx, state["val"])
        if self.fx.kind == "dict":
            got, want = sorted(got or []), sorted(want)
        if got != want:
            return "stored", "drain: after the final flush a second connection reads %r, in-memory / spec value %r" % (got, want)
        return None

    def close(self):
        self.fx.close()
