"""Execution side of C13 (Defaults.tla): build a table whose columns x, y carry the default / onupdate kinds of a case,
run the case's INSERT or UPDATE through the API it names, and report what was stored, how often every Python-side
default was called, and what the result object says (inserted_primary_key, returned_defaults, last_*_params).

Value scheme (the same constants are written into Defaults.tla):
  row key k = 1..3 (column k, always supplied; d = 'i<k>' on INSERT, 'u<k>' on UPDATE, always supplied)
  supplied value          x: 10k+1        y: 10k+2
  scalar default          x: 91           y: 92          onupdate x: 93      y: 94
  callable default        x: 100+c        y: 200+c       onupdate x: 500+c   y: 600+c     (c = number of calls so far, this one included)
  context default         x: 300+k        y: 400+k       onupdate x: 700+k   y: 800+k     (k read from the statement's current parameters)
  SQL expression default  x: 71           y: 72          onupdate x: 73      y: 74
  primary key "callable"  id: 40+c
"""
import warnings

KINDS = ("scalar", "callable", "ctx", "sql", "none")
SCALAR = {("x", "default"): 91, ("y", "default"): 92, ("x", "onupdate"): 93, ("y", "onupdate"): 94}
CALLBASE = {("x", "default"): 100, ("y", "default"): 200, ("x", "onupdate"): 500, ("y", "onupdate"): 600, ("id", "default"): 40}
CTXBASE = {("x", "default"): 300, ("y", "default"): 400, ("x", "onupdate"): 700, ("y", "onupdate"): 800}
SQLVAL = {("x", "default"): 71, ("y", "default"): 72, ("x", "onupdate"): 73, ("y", "onupdate"): 74}
CALLS = {}


def reset_calls():
    CALLS.clear()


def _callable(col, which):
    def fn():
        CALLS[(col, which)] = CALLS.get((col, which), 0) + 1
        return CALLBASE[(col, which)] + CALLS[(col, which)]
    return fn


def _ctx(col, which):
    def fn(context):
        CALLS[(col, which)] = CALLS.get((col, which), 0) + 1
        d = context.get_current_parameters()["d"]
        return CTXBASE[(col, which)] + int(d[1:])
    return fn


def _arg(col, which, kind):
    from sqlalchemy import func
    if kind == "scalar":
        return SCALAR[(col, which)]
    if kind == "callable":
        return _callable(col, which)
    if kind == "ctx":
        return _ctx(col, which)
    if kind == "sql":
        return func.abs(-SQLVAL[(col, which)])
    return None


_CACHE = {}


class Model:
    """one table + mapped class + engine for (op, pk kind, x kind, y kind)"""

    def __init__(self, op, pk, xk, yk, idx):
        from sqlalchemy import Column, Integer, MetaData, String, Table, create_engine
        from sqlalchemy.orm import registry
        from sqlalchemy.pool import StaticPool
        md = MetaData()
        which = "default" if op == "insert" else "onupdate"
        other = "onupdate" if op == "insert" else "default"

        def col(name, kind):
            kw = {which: _arg(name, which, kind)}
            # the other hook is always present and counted: an INSERT must never fire onupdate, an UPDATE never the default
            kw[other] = _callable(name, other)
            return Column(name, Integer, **{k: v for k, v in kw.items() if v is not None})
        idkw = {}
        if pk == "callable":
            idkw = dict(default=_callable("id", "default"), autoincrement=False)
        self.table = Table("dflt%d" % idx, md, Column("id", Integer, primary_key=True, **idkw), Column("k", Integer),
                           col("x", xk), col("y", yk), Column("d", String))
        self.cls = type("D%d" % idx, (object,), {})
        registry().map_imperatively(self.cls, self.table)
        self.engine = create_engine("sqlite://", poolclass=StaticPool)
        md.create_all(self.engine)


def model(op, pk, xk, yk):
    key = (op, pk, xk, yk)
    if key not in _CACHE:
        _CACHE[key] = Model(op, pk, xk, yk, len(_CACHE))
    return _CACHE[key]


def supplied(col, k):
    return 10 * k + (1 if col == "x" else 2)


def row_params(row, k, op):
    """row: dict x/y -> 'val' | 'null' | 'omit'"""
    p = {"k": k, "d": ("i%d" if op == "insert" else "u%d") % k}
    if op == "update":
        p.pop("k")
    for c in ("x", "y"):
        if row[c] == "val":
            p[c] = supplied(c, k)
        elif row[c] == "null":
            p[c] = None
    return p


def run_case(case):
    """case: dict(op, api, pk, xk, yk, rows=[{x:..,y:..}, ...]).  Returns dict(exc, stored, calls, extra)."""
    from sqlalchemy import bindparam, insert, select, update, text, null
    from sqlalchemy.orm import Session
    op, api = case["op"], case["api"]
    M = model(op, case["pk"], case["xk"], case["yk"])
    t, cls, eng = M.table, M.cls, M.engine
    rows = case["rows"]
    n = len(rows)
    reset_calls()
    out = {"exc": None, "stored": None, "calls": None, "extra": {}}
    with warnings.catch_warnings():
        warnings.simplefilter("ignore")
        with eng.connect() as conn:
            try:
                if op == "update":
                    for k in range(1, n + 1):
                        conn.exec_driver_sql("INSERT INTO %s (id, k, x, y, d) VALUES (?, ?, 1, 2, ?)" % t.name, (k, k, "o%d" % k))
                    conn.commit()
                    reset_calls()
                params = [row_params(r, k, op) for k, r in enumerate(rows, 1)]
                try:
                    if op == "insert":
                        _insert(conn, api, t, cls, params, rows, out, case)
                    else:
                        _update(conn, api, t, cls, params, rows, out)
                except Exception as ex:
                    out["exc"] = type(ex).__name__
                    out["extra"]["exc_text"] = str(ex)[:200]
                    conn.rollback()
                if out["stored"] is None:
                    _snapshot(conn, t, out)
            finally:
                conn.rollback()
                if op == "update":
                    conn.exec_driver_sql("DELETE FROM %s" % t.name)
                    conn.commit()
    return out


def _snapshot(conn, t, out):
    from sqlalchemy import select
    calls = dict(CALLS)
    res = conn.execute(select(t.c.k, t.c.x, t.c.y, t.c.id, t.c.d).order_by(t.c.k, t.c.id)).all()
    out["stored"] = [[r[1], r[2]] for r in res]
    out["ids"] = [r[3] for r in res]
    out["ks"] = [r[0] for r in res]
    out["ds"] = [r[4] for r in res]
    out["calls"] = {"%s.%s" % k: v for k, v in calls.items()}


def _orm_obj(cls, p, row, nulls):
    from sqlalchemy import null
    o = cls()
    for key, v in p.items():
        if v is None and nulls == "sqlnull":
            v = null()
        setattr(o, key, v)
    return o


def _insert(conn, api, t, cls, params, rows, out, case):
    from sqlalchemy import insert, null
    from sqlalchemy.orm import Session
    ex = out["extra"]
    if api == "core_params":
        if len(params) == 1:
            res = conn.execute(insert(t), params[0])
            ex["ipk"] = list(res.inserted_primary_key)
            ex["lip"] = {c: res.last_inserted_params().get(c) for c in ("x", "y") if c in res.last_inserted_params()}
            ex["prefetch"] = sorted(c.name for c in res.prefetch_cols())
            ex["postfetch"] = sorted(c.name for c in res.postfetch_cols())
        else:
            conn.execute(insert(t), params)
    elif api == "core_values":
        res = conn.execute(insert(t).values(**params[0]))
        ex["ipk"] = list(res.inserted_primary_key)
        ex["lip"] = {c: res.last_inserted_params().get(c) for c in ("x", "y") if c in res.last_inserted_params()}
    elif api == "core_return_defaults":
        if len(params) == 1:
            res = conn.execute(insert(t).return_defaults(), params[0])
            ex["ipk"] = list(res.inserted_primary_key)
            rd = res.returned_defaults
            ex["rd"] = None if rd is None else dict(rd._mapping)
            ex["lip"] = {c: res.last_inserted_params().get(c) for c in ("x", "y") if c in res.last_inserted_params()}
        else:
            res = conn.execute(insert(t).return_defaults(sort_by_parameter_order=True), params)
            ex["ipk_rows"] = [list(r) for r in res.inserted_primary_key_rows]
            rdr = res.returned_defaults_rows
            ex["rd_rows"] = None if rdr is None else [dict(r._mapping) for r in rdr]
    elif api == "core_returning":
        res = conn.execute(insert(t).returning(t.c.k, t.c.x, t.c.y, t.c.id, sort_by_parameter_order=True), params if len(params) > 1 else params[0])
        ex["returned"] = [list(r) for r in res.all()]
    elif api == "core_multivalues":
        conn.execute(insert(t).values(params))
    elif api in ("orm_flush", "orm_flush_sqlnull"):
        with Session(bind=conn) as s:
            objs = [_orm_obj(cls, p, r, "sqlnull" if api.endswith("sqlnull") else "none") for p, r in zip(params, rows)]
            s.add_all(objs)
            s.flush()
            _snapshot(conn, t, out)
            ex["obj"] = [[o.k, o.x, o.y, o.id] for o in objs]
    elif api == "orm_bulk":
        with Session(bind=conn) as s:
            s.execute(insert(cls), params)
            _snapshot(conn, t, out)
    elif api == "orm_bulk_returning":
        with Session(bind=conn) as s:
            objs = s.execute(insert(cls).returning(cls, sort_by_parameter_order=True), params).scalars().all()
            _snapshot(conn, t, out)
            ex["obj"] = [[o.k, o.x, o.y, o.id] for o in objs]
    else:
        raise ValueError(api)


def _update(conn, api, t, cls, params, rows, out):
    from sqlalchemy import bindparam, update
    from sqlalchemy.orm import Session
    ex = out["extra"]
    if api == "core_params":
        if len(params) == 1:
            res = conn.execute(update(t).where(t.c.k == 1), params[0])
            ex["lup"] = {c: res.last_updated_params().get(c) for c in ("x", "y") if c in res.last_updated_params()}
            ex["rowcount"] = res.rowcount
        else:
            conn.execute(update(t).where(t.c.k == bindparam("b_k")), [dict(p, b_k=k) for k, p in enumerate(params, 1)])
    elif api == "core_values":
        for k, p in enumerate(params, 1):
            res = conn.execute(update(t).where(t.c.k == k).values(**p))
    elif api == "core_return_defaults":
        res = conn.execute(update(t).where(t.c.k == 1).return_defaults(), params[0])
        rd = res.returned_defaults
        ex["rd"] = None if rd is None else dict(rd._mapping)
    elif api == "core_returning":
        res = conn.execute(update(t).where(t.c.k == 1).returning(t.c.k, t.c.x, t.c.y, t.c.id), params[0])
        ex["returned"] = [list(r) for r in res.all()]
    elif api == "orm_flush":
        with Session(bind=conn) as s:
            objs = [s.get(cls, k) for k in range(1, len(params) + 1)]
            for o, p in zip(objs, params):
                for key, v in p.items():
                    setattr(o, key, v)
            s.flush()
            _snapshot(conn, t, out)
            ex["obj"] = [[o.k, o.x, o.y, o.id] for o in objs]
    elif api == "orm_bulk":
        with Session(bind=conn) as s:
            s.execute(update(cls), [dict(p, id=k) for k, p in enumerate(params, 1)])
            _snapshot(conn, t, out)
    else:
        raise ValueError(api)
