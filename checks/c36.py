"""C36 attribute history reports exactly the net change since load - OrmGraph.tla (DESIGN 3.9, 4 (C36), Appendix I)."""
import random

from checks import ormgraph_common as oc

LEVEL = "model_checking"
MANIFEST = dict(
    text="In OrmGraph.tla the history of the collection attribute (P.children), the object-reference attribute (C.parent), the directly "
         "assigned scalar column (C.val) and the foreign-key attribute written by the unit of work (C.pid) IS diff(committed value, current "
         "value); TLC checks that committed values and rows change only when "
         "the unit of work writes them, that a successful flush leaves no history on any member and that a row changes only for an object with "
         "net history (set-back-to-original writes nothing). The binding reads inspect(obj).attrs[x].history of all four attributes of "
         "every object after EVERY step of every walk (loaded and new objects, members and non-members) and compares (added, unchanged, "
         "deleted) with the spec's diff; after each flush the emitted INSERT/UPDATE/DELETE set with parameters must equal the spec's and the FK rows are re-read. "
         "The collection is bound as list, as set and as attribute_keyed_dict: the abstract state is the same, the M* actions name the Python "
         "mutator (set: add/update/|=/remove/discard/-=/pop/clear; dict: setitem/setdefault/update/del/pop(k)/pop(k, default) present and "
         "absent/popitem/clear), each also as the first mutation after load and after a flush.",
    design_ref="3.9, 4 (C36), Appendix I",
    note="trusted: TLC; attribute kinds: list / set / attribute_keyed_dict collection, many-to-one reference, integer scalar (del obj.x, "
         "expired or unloaded attributes, set &=/^= and dict |= not covered); None members of a history tuple are projected away (a never-flushed object reports its explicit "
         "None as added)",
    technique="TLA+ spec (OrmGraph.tla) + TLC exhaustive model checking; spec->code replay of every state-graph edge comparing History tuples")
MEM = ["Append", "Insert", "Remove", "Pop", "Replace", "SetParent"]
ACTS = MEM + ["SetVal", "Add", "Expunge", "Flush", "CommitReload"]
KACTS = ["MAdd", "MRem", "MPop", "MClear", "MNoop", "Replace", "SetParent", "Add", "Flush", "CommitReload"]
INVS = ["TypeOK", "FlushClearsHistory", "BothSides"]
PROPS = ["CommittedOnlyAtFlush", "NoHistoryNoWrite"]


def nontrivial(f, act, t):
    if t["dead"]:
        return False
    h = act["obs"]["hist"]
    v = act["obs"]["valhist"]
    return any(h[o][0] or h[o][2] for o in h) or any(v[c][2] for c in v)


def main(chk):
    rng = random.Random(chk.seed)
    q = chk.quick
    nc = 2 if q else 3
    nr = 150 if q else 1500
    if q:
        configs = [dict(name="default", casc="default", consts=oc.consts("default", 2, 4, acts=ACTS), invs=INVS, props=PROPS, maxlen=4, nrandom=nr),
                   dict(name="none-loaded", casc="none", consts=oc.consts("none", 2, 4, acts=ACTS + ["Delete"], init="loaded"), invs=INVS, props=PROPS,
                        maxlen=4, nrandom=nr, footprint=ACTS)]
        deep = [dict(name="deep-default", casc="default", consts=oc.consts("default", 2, 6, acts=ACTS), invs=INVS, props=PROPS)]
    else:
        configs = [dict(name="default-2x3", casc="default", consts=oc.consts("default", 3, 4, acts=ACTS), invs=INVS, props=PROPS, maxlen=4, nrandom=nr),
                   dict(name="default-2x2", casc="default", consts=oc.consts("default", 2, 5, acts=ACTS), invs=INVS, props=PROPS, maxlen=5, nrandom=nr),
                   dict(name="none-loaded-2x3", casc="none", consts=oc.consts("none", 3, 4, acts=ACTS + ["Delete"], init="loaded"), invs=INVS, props=PROPS,
                        maxlen=4, nrandom=nr, footprint=ACTS),
                   dict(name="orphan-2x2", casc="orphan", consts=oc.consts("orphan", 2, 4, acts=ACTS + ["Delete"]), invs=INVS, props=PROPS, maxlen=4, nrandom=nr,
                        footprint=ACTS)]
        deep = [dict(name="deep-default-2x3", casc="default", consts=oc.consts("default", 3, 5, acts=ACTS), invs=INVS, props=PROPS),
                dict(name="deep-default-2x2", casc="default", consts=oc.consts("default", 2, 7, acts=ACTS), invs=INVS, props=PROPS)]
    # collection-kind dimension: the same parent/children model bound to a set (collection_class=set) and to an attribute_keyed_dict; the
    # M* actions carry the Python mutator to call (add/update/|=, remove/discard/-=, pop, clear; d[k]=c/setdefault/update, del/pop(k)/
    # pop(k, default) present and absent, popitem, clear), each reachable as FIRST mutation after load / after a flush and later in a walk
    for kind in ("set", "dict"):
        dk = 4 if q else 5
        configs.append(dict(name="kind-" + kind, casc="default", consts=oc.consts("default", 2 if q else 3, dk, acts=KACTS, init="both", kind=kind),
                            invs=INVS, props=PROPS, maxlen=dk, nrandom=nr, footprint=KACTS))
    st = oc.run_suite(chk, rng, configs, ACTS, deep=deep, nontrivial=nontrivial)
    return chk.finish(
        dict(states=st["states"] + st["deep_states"], transitions=st["transitions"] + st["deep_transitions"],
             traces_validated_against_impl=st["walks"], evaluations=st["steps"], distinct_nontrivial=st["nontrivial"], samples=st["samples"],
             edges_replayed=st["edges"], per_config=st["per_config"], action_coverage=st["action_coverage"], exhaustive=True,
             rule="every labelled edge of the OrmGraph state graph; after each the History of 4 attributes x every object is compared; "
                  "non-trivial = the target state has an attribute with non-empty added or deleted history",
             checker_cmd="tlc OrmGraph.tla (VIEW View, ACTION_CONSTRAINT Emit)"),
        assumptions=["attributes: P.children (list), C.parent (many-to-one), C.val (integer, assigned), C.pid (integer FK written by the unit of work); 2 parents x %d children" % nc,
                     "relationship attributes always loaded/initialised (expired / unloaded attribute paths not covered); no `del obj.attr`",
                     "autoflush off; SQLite file engine, foreign_keys=ON"])
